#!/bin/sh
# Build the framework from files on disk only (offline): regenerate the translator-tied
# Coq files from /repo, build every .vo (full build, no -vos), extract and compile the model driver.
set -e
cd "$(dirname "$0")"
mkdir -p _build coq/Extract/ml evidence replays
/venv/bin/python -m translate.all
cd coq
coq_makefile -f _CoqProject -o Makefile
timeout 3000 make -j16
cd ..
/venv/bin/python -c "
import sys
from vlib import common
ok, log = common.build_driver()
print(log)
sys.exit(0 if ok else 1)"
echo setup-ok
