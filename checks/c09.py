"""C09 — see checks/connfamily.py (shared engine of the connection family) and coq/Properties/C09.v.

Besides the labelled-trace stories of the connection family (plaintext), the encrypted connect phase is probed for its time
bound: a device that accepts the TCP connection and then stays silent - or stops talking at any later point of the Noise
handshake / hello / login - must make finish_connection() fail with a library error exactly when the model's armed deadline
passes (HANDSHAKE_TIMEOUT after the helper was created while the handshake is incomplete, CONNECT_REQUEST_TIMEOUT after the
hello was written otherwise; constants re-read from the source), on a clock that does not start at zero."""
import asyncio
import json

from checks import connfamily
from vlib import common, conntrace, simnet
from vlib.privnames import priv

VFILE = "Properties/C09.v"
RULE = ("stories = hand-picked same-turn/close-window scenarios + (thorough) every position x every single extra event of base stories "
        "+ random connect/traffic/close stories with hop-delayed injections (vlib/connstories.py); each story runs on the real APIConnection "
        "under the virtual-time loop with every event-loop callback labelled, the model must accept the label sequence with equal "
        "projections/observations, and the C09 predicate is evaluated on the implementation's trace; plus silence probes at every stage of "
        "the encrypted and plaintext connect phases (time of the failure and its class); non-trivial = the connection closes "
        "within a story of at least 8 labelled callbacks; distinct by label sequence")

STAGES = ["tcp", "hello-frame", "handshake", "hello-response"]


def consts():
    import re
    txt = (common.COQ / "Generated" / "GenConstants.v").read_text()
    return {m.group(1): int(m.group(2)) for m in re.finditer(r"Definition (\w+) : Z := \((-?\d+)\)%Z\.", txt)}


def silence_probe(noise, stage, login, offset=0.0):
    """device goes silent after `stage`; returns (seconds until finish_connection ended, error class | 'ok' | 'pending').
    offset: the loop clock shows a fraction of a second when the phase begins (deadlines are relative to that instant)."""
    async def go(loop):
        from aioesphomeapi import api_pb2 as pb
        from aioesphomeapi.connection import APIConnection, ConnectionParams
        from aioesphomeapi.zeroconf import ZeroconfManager
        from vlib import noisesim
        net = simnet.Net(loop)
        psk = bytes(range(1, 33))
        params = ConnectionParams(addresses=["10.0.0.1"], port=6053, password="pw" if login else None, client_info="v", keepalive=20.0,
                                  zeroconf_manager=ZeroconfManager(), noise_psk=noisesim.b64(psk) if noise else None, expected_name=None)
        conn = APIConnection(params, lambda e: None, False, None)
        with net.patched():
            if offset:
                await simnet.advance(loop, by=offset)
            await conn.start_connection()
            t0 = loop.time()
            task = asyncio.ensure_future(conn.finish_connection(login=login))
            await simnet.drain(loop)
            tr = net.transports[-1]
            if noise and stage != "tcp":
                frames = noisesim.split_frames(b"".join(d for _, d in tr.writes))
                resp = noisesim.Responder(psk, b"dev")
                hs, _ = resp.handshake_frames(frames[1][1:])
                tr.feed(resp.hello_frame())
                await simnet.drain(loop)
                if stage in ("handshake", "hello-response"):
                    tr.feed(hs)
                    await simnet.drain(loop)
                if stage == "hello-response":
                    tr.feed(resp.data_frame(2, pb.HelloResponse(api_version_major=1, api_version_minor=10, name="dev").SerializeToString())[0])
                    await simnet.drain(loop)
            elif not noise and stage == "hello-response":
                tr.feed(simnet.plain_msg(pb.HelloResponse(api_version_major=1, api_version_minor=10, name="dev")))
                await simnet.drain(loop)
            # let time pass one second (a quarter, when the clock is off the whole seconds) at a time, for at most ten minutes
            step = 0.25 if offset else 1.0
            for _ in range(int(600 / step)):
                if task.done():
                    break
                await simnet.advance(loop, by=step)
            elapsed = loop.time() - t0
            if not task.done():
                task.cancel()
                out = "pending"
            elif task.cancelled():
                out = "C"
            elif task.exception() is None:
                out = "ok"
            else:
                out = conntrace.exc_name(task.exception())
            conn.force_disconnect()
            await simnet.drain(loop)
            return round(elapsed * 1024), out
    return simnet.run(go)


def run(rep, tier, seed):
    connfamily.run(rep, tier, seed, "C09", VFILE, RULE)
    run_client_level(rep, tier, seed)
    c = consts()
    flags = platform_flags()
    rep.coverage["platform_flags_found"] = [f"{m}.{v}" for m, v, _ in flags]
    for flip in (False, True):
        for debug in (False, True):
            for size in (20, 600, 5000):
                problems = platform_debug_probe(flip, debug, size)
                replay = {"kind": "platform-debug", "flip": flip, "debug": debug, "size": size}
                rep.case(("platform-debug", flip, debug, size), True, sample={"probe": replay, "problems": problems[:3]})
                rep.bump("probe:platform-debug")
                if problems:
                    rep.violation("C09/raw-error", f"{'other-platform branches (' + ', '.join(v for _, v, _ in flags) + ' flipped)' if flip else 'this platform'}, debug logging "
                                  f"{'on' if debug else 'off'}, messages of {size} bytes: {problems[0]}; {len(problems)} problem(s)", replay)
    for entry in ("list_entities_services", "bluetooth_gatt_get_services"):
        elapsed, out, tmo = endless_parts_probe(entry)
        replay = {"kind": "endless-parts", "entry": entry}
        rep.case(("endless-parts", entry), True, sample={"probe": replay, "elapsed_s": elapsed, "outcome": out})
        rep.bump("probe:endless-parts")
        if out == "pending" or out == "ok" or elapsed > 1.2 * tmo + 0.01:
            rep.violation("C09/hang", f"{entry}() against a device that sends a part of the answer every {0.4 * tmo} s and never the final message: the call "
                          f"{'was still pending after ' + str(elapsed) + ' s' if out == 'pending' else 'ended (' + out + ') after ' + str(elapsed) + ' s'}; its time-out is {tmo} s", replay)
        elif out != "L.Timeout":
            rep.violation("C09/raw-error", f"{entry}() with endless parts ended with {out}, expected the time-out error", replay)
    for ack in (True, False):
        elapsed, out = slow_stop_hook_probe(ack)
        replay = {"kind": "slow-stop-hook", "ack": ack}
        rep.case(("slow-stop-hook", ack), True, sample={"probe": replay, "elapsed_s": elapsed, "outcome": out})
        rep.bump("probe:slow-stop-hook")
        if out == "pending" or elapsed > 15.0:
            rep.violation("C09/hang", f"client.disconnect() on an established session whose stop callback takes an hour, device {'acknowledges at once' if ack else 'stays silent'}: "
                          f"the call {'was still pending after 40 s' if out == 'pending' else 'ended after ' + str(elapsed) + ' s'} (bound: 5 s + 10 s)", replay)
        elif out not in ("ok",) and not out.startswith("L."):
            rep.violation("C09/raw-error", f"client.disconnect() with a slow stop callback ended with {out}", replay)
    # ... and with the library imported as on Windows (whatever it derives from sys.platform at import time)
    from vlib import otherplatform
    for debug in (False, True):
        problems = otherplatform.run_under("win32", "checks.c09", "platform_debug_probe", False, debug, 600)
        replay = {"kind": "platform-debug", "flip": False, "debug": debug, "size": 600, "imported_as": "win32"}
        rep.case(("platform-debug-import", debug), True, sample={"probe": replay, "problems": problems[:3]})
        rep.bump("probe:platform-debug-import")
        if problems:
            rep.violation("C09/raw-error", f"library imported with sys.platform='win32', debug logging {'on' if debug else 'off'}, messages of 600 bytes: {problems[0]}; {len(problems)} problem(s)", replay)
    for host in ("living-room.local", "living-room", "printer.example.com"):
        for cancel_at in (None, 1.0, 12.0):
            elapsed, out = resolver_hang_probe(host, cancel_at)
            replay = {"kind": "resolver-hang", "host": host, "cancel_at": cancel_at}
            rep.case(("resolver-hang", host, cancel_at), True, sample={"probe": replay, "elapsed_units": elapsed, "outcome": out})
            rep.bump("probe:resolver-hang")
            where = f"address {host!r}, the mDNS query and getaddrinfo never answer"
            if cancel_at is None:
                if out in ("pending", "ok"):
                    rep.violation("C09/hang", f"{where}: start_connection() {'still pending after five minutes' if out == 'pending' else 'succeeded'}", replay)
                elif not out.startswith("L."):
                    rep.violation("C09/raw-error", f"{where}: start_connection() ended with {out}", replay)
                elif elapsed != c["RESOLVE_TIMEOUT"]:
                    rep.violation("C09/bound", f"{where}: start_connection() failed after {elapsed} units (1/1024 s), the resolve deadline is {c['RESOLVE_TIMEOUT']}", replay)
            else:
                if elapsed > round(cancel_at * 1024) + 1024 or out == "pending":
                    rep.violation("C09/cancel-ignored", f"{where}; the caller cancels start_connection() after {cancel_at} s: it ended only after {elapsed / 1024:.1f} s ({out})", replay)
                elif out not in ("C",) and not out.startswith("L."):
                    rep.violation("C09/raw-error", f"{where}; cancelled by the caller: ended with {out}", replay)
    for how in ("cancel", "force"):
        first, second_now, second_later = concurrent_resolve_probe(how)
        replay = {"kind": "concurrent-resolve", "how": how}
        rep.case(("concurrent-resolve", how), True, sample={"probe": replay, "first": first, "second_then": second_now, "second_after_answer": second_later})
        rep.bump("probe:concurrent-resolve")
        where = f"two connections to the same address with both lookups outstanding; the first one's start_connection() ended by {how}"
        if second_now != "pending":
            rep.violation("C09/foreign-cause", f"{where}: the second one's start_connection() ended too, with {second_now}, although nobody cancelled it and its own "
                          f"lookup had neither answered nor timed out", replay)
        elif second_later != "ok":
            rep.violation("C09/foreign-cause", f"{where}: after its own lookup answered, the second one's start_connection() is {second_later}", replay)
        elif first not in ("C",) and not first.startswith("L."):
            rep.violation("C09/raw-error", f"{where}: the first one ended with {first}", replay)
    for timeout, dtimeout in ((3.0, 1.0), (1.0, 3.0), (2.0, 2.0), (30.0, 20.0)):
        for answer in (False, True):
            elapsed, out = ble_connect_silence_probe(timeout, dtimeout, answer)
            want = round((timeout + (0.25 if answer else dtimeout)) * 1024)
            replay = {"kind": "ble-connect-silence", "timeout": timeout, "disconnect_timeout": dtimeout, "answer_disconnect": answer}
            rep.case(("ble-connect-silence", timeout, dtimeout, answer), True, sample={"probe": replay, "elapsed_units": elapsed, "outcome": out})
            rep.bump("probe:ble-connect-silence")
            where = (f"bluetooth_device_connect(timeout={timeout}, disconnect_timeout={dtimeout}), the device never reports the connection"
                     + (" and confirms the clean-up disconnect 0.25 s after it was sent" if answer else " and never confirms the clean-up disconnect"))
            if out in ("pending", "ok"):
                rep.violation("C09/hang", f"{where}: {'still pending' if out == 'pending' else 'succeeded'} after {elapsed / 1024:.2f} s", replay)
            elif not out.startswith("L."):
                rep.violation("C09/raw-error", f"{where}: ended with {out}", replay)
            elif elapsed != want:
                rep.violation("C09/bound", f"{where}: ended after {elapsed / 1024:.3f} s, the documented bound gives {want / 1024:.3f} s", replay)
    # when several checks of the connect exchange fail, the first one decides (hello before login)
    from checks import c06 as _c06
    for major, nk in ((1, "o"), (3, "x"), (3, "o"), (1, "l")):
        st = _c06.mk_story(major, nk, 1, 1, 1, "HC", 1, "pw")
        tr6 = _c06.run_plain(st)
        out = _c06.outcome_of(tr6)
        want = _c06.oracle(st["case"])
        rep.case(("first-refusal", major, nk), True, sample={"first_refusal": st["case"], "outcome": out[:2]})
        rep.bump("probe:first-refusal")
        if out[0] != "err" or out[1] != want[1]:
            rep.violation("C09/first-cause-masked", f"HelloResponse(major={major}, name={_c06.NAMES[nk]!r}) with expected name 'dev' AND ConnectResponse(invalid_password): "
                          f"finish_connection ended {out[:2]}, the first failing check gives {want[1]}",
                          {"kind": "first-refusal", "major": major, "name": nk})
    for noise in (True, False):
        for stage in STAGES:
            if not noise and stage in ("hello-frame", "handshake"):
                continue
            for login in (False, True):
                if stage == "hello-response" and not login:
                    continue          # the session is established: nothing is awaited
                offset = [0.0, 0.25, 0.5 + 1 / 1024][(STAGES.index(stage) + int(noise) + int(login)) % 3]
                elapsed, out = silence_probe(noise, stage, login, offset)
                # the model's deadline for this stage
                if noise and stage in ("tcp", "hello-frame"):
                    want = c["HANDSHAKE_TIMEOUT"]
                else:
                    want = c["CONNECT_REQUEST_TIMEOUT"]
                replay = {"kind": "silence-probe", "noise": noise, "stage": stage, "login": login, "clock_offset": offset}
                rep.case(("silence", noise, stage, login), nontrivial=True, sample={"probe": replay, "elapsed_units": elapsed, "outcome": out})
                rep.bump("probe:silence")
                where = f"{'noise' if noise else 'plaintext'} device silent after {stage} (login={login})"
                if out in ("pending", "ok"):
                    rep.violation("C09/hang", f"{where}: finish_connection() {'still pending after ten minutes' if out == 'pending' else 'succeeded'}", replay)
                elif not out.startswith("L."):
                    rep.violation("C09/raw-error", f"{where}: finish_connection() ended with {out}", replay)
                elif elapsed != want:
                    rep.violation("C09/bound", f"{where}: finish_connection() failed after {elapsed} units (1/1024 s), the armed deadline is {want}", replay)


def platform_flags():
    """Module-level names of the library that are computed from the platform (sys.platform / os.name), found in the source:
    [(module name, variable name, current value)]."""
    import ast
    import importlib
    import pathlib
    import aioesphomeapi
    out = []
    root = pathlib.Path(aioesphomeapi.__file__).parent
    for f in sorted(root.rglob("*.py")):
        if f.name.endswith("_pb2.py"):
            continue
        try:
            tree = ast.parse(f.read_text())
        except SyntaxError:
            continue
        for node in tree.body:
            tgt = None
            if isinstance(node, ast.Assign) and len(node.targets) == 1 and isinstance(node.targets[0], ast.Name):
                tgt, val = node.targets[0].id, node.value
            elif isinstance(node, ast.AnnAssign) and isinstance(node.target, ast.Name) and node.value is not None:
                tgt, val = node.target.id, node.value
            if tgt is None:
                continue
            src = ast.unparse(val)
            if "sys.platform" in src or "os.name" in src or "platform.system" in src:
                modname = "aioesphomeapi." + ".".join(f.relative_to(root).with_suffix("").parts)
                modname = modname[:-len(".__init__")] if modname.endswith(".__init__") else modname
                try:
                    mod = importlib.import_module(modname)
                except Exception:  # noqa: BLE001
                    continue
                if isinstance(getattr(mod, tgt, None), bool):
                    out.append((modname, tgt, getattr(mod, tgt)))
    return out


def platform_debug_probe(flip, debug, size):
    """The branches the library takes on another platform (every module-level platform flag flipped), with debug logging on/off, and
    messages of `size` bytes in both directions: a GATT write with response, a GATT service list, a device-info with long strings.
    Every call ends with its result; nothing raw escapes; the session survives. Returns the list of problems."""
    import contextlib
    import importlib
    from unittest.mock import patch

    async def go(loop):
        from aioesphomeapi import api_pb2 as pb
        net = simnet.Net(loop)
        problems = []
        with net.patched():
            cli, tr = await simnet.connected_client(loop, net)
            cli.set_debug(debug)

            async def call(name, coro, answers):
                t = asyncio.ensure_future(coro)
                await simnet.drain(loop)
                for a in answers:
                    if not tr.closing:
                        r = tr.feed(simnet.plain_msg(a))
                        if isinstance(r, BaseException):
                            problems.append(f"{name}: {type(r).__name__}({r}) escaped from data_received while the answer arrived")
                    await simnet.drain(loop)
                if not t.done():
                    await simnet.advance(loop, by=70.0)
                if not t.done():
                    t.cancel()
                    problems.append(f"{name}: still pending after 70 s")
                elif t.cancelled():
                    problems.append(f"{name}: cancelled")
                elif t.exception() is not None:
                    problems.append(f"{name}: ended with {conntrace.exc_name(t.exception())} instead of its result")
            await call(f"bluetooth_gatt_write({size} bytes, response=True)", cli.bluetooth_gatt_write(7, 3, bytes(size), True),
                       [pb.BluetoothGATTWriteResponse(address=7, handle=3)])
            svc = pb.BluetoothGATTGetServicesResponse(address=7, services=[pb.BluetoothGATTService(uuid=[1, 2], handle=1, characteristics=[
                pb.BluetoothGATTCharacteristic(uuid=[3, 4 + k], handle=10 + k, properties=2) for k in range(max(1, size // 16))])])
            await call(f"bluetooth_gatt_get_services (answer of {svc.ByteSize()} bytes)", cli.bluetooth_gatt_get_services(7),
                       [svc, pb.BluetoothGATTGetServicesDoneResponse(address=7)])
            await call(f"device_info (answer with a {size}-character string)", cli.device_info(),
                       [pb.DeviceInfoResponse(name="dev", project_name="p" * size)])
            if priv(cli, "_connection") is None or not priv(cli, "_connection").is_connected:
                problems.append("the session did not survive")
            try:
                await cli.disconnect(force=True)
            except Exception:  # noqa: BLE001
                pass
            await simnet.drain(loop)
        return problems
    with contextlib.ExitStack() as st:
        if flip:
            for modname, var, val in platform_flags():
                st.enter_context(patch.object(importlib.import_module(modname), var, not val))
        st.enter_context(common.debug_logging(debug))
        return simnet.run(go)


def slow_stop_hook_probe(ack):
    """An established session whose stop callback (given at connect time) takes an hour; the application awaits client.disconnect().
    The call ends within disconnect's documented bound (5 s for a connect in progress + 10 s for the device's answer): the
    application's own callback is not part of what it waits for. Returns (seconds until it ended, outcome)."""
    async def go(loop):
        from aioesphomeapi import api_pb2 as pb
        net = simnet.Net(loop)
        with net.patched():
            async def on_stop(expected):
                await asyncio.sleep(3600.0)
            cli, tr = await simnet.connected_client(loop, net, on_stop=on_stop)
            t0 = loop.time()
            task = asyncio.ensure_future(cli.disconnect())
            await simnet.drain(loop)
            if ack:
                tr.feed(simnet.plain_msg(pb.DisconnectResponse()))
                await simnet.drain(loop)
            for _ in range(40):
                if task.done():
                    break
                await simnet.advance(loop, by=1.0)
            elapsed = loop.time() - t0
            if not task.done():
                task.cancel()
                out = "pending"
            elif task.cancelled():
                out = "C"
            else:
                out = "ok" if task.exception() is None else conntrace.exc_name(task.exception())
            for t in asyncio.all_tasks(loop):
                if t is not asyncio.current_task():
                    t.cancel()
            await simnet.drain(loop)
        return round(elapsed, 3), out
    return simnet.run(go)


def endless_parts_probe(entry):
    """A multi-message request (list_entities_services: 60 s; bluetooth_gatt_get_services: 30 s) against a device that keeps sending
    parts of the answer - the same part again and again, every 40 % of the time-out - and never the final message: the call ends
    with a time-out error exactly at its time-out, measured from the request. Returns (seconds until it ended, outcome)."""
    async def go(loop):
        from aioesphomeapi import api_pb2 as pb
        net = simnet.Net(loop)
        with net.patched():
            cli, tr = await simnet.connected_client(loop, net, keepalive=3600.0)
            if entry == "list_entities_services":
                coro, part, tmo = cli.list_entities_services(), pb.ListEntitiesSwitchResponse(key=5, name="s", object_id="s"), 60.0
            else:
                coro, part, tmo = cli.bluetooth_gatt_get_services(7), pb.BluetoothGATTGetServicesResponse(address=7), 30.0
            t0 = loop.time()
            task = asyncio.ensure_future(coro)
            await simnet.drain(loop)
            for _ in range(12):
                if task.done():
                    break
                await simnet.advance(loop, by=0.4 * tmo)
                if not task.done() and not tr.closing:
                    tr.feed(simnet.plain_msg(part))
                    await simnet.drain(loop)
            elapsed = loop.time() - t0
            if not task.done():
                task.cancel()
                out = "pending"
            elif task.cancelled():
                out = "C"
            else:
                out = "ok" if task.exception() is None else conntrace.exc_name(task.exception())
            await simnet.drain(loop)
            try:
                await cli.disconnect(force=True)
            except Exception:  # noqa: BLE001
                pass
            await simnet.drain(loop)
        return round(elapsed, 3), out, tmo
    return simnet.run(go)


def concurrent_resolve_probe(how):
    """Two connections to the same address whose lookups are both outstanding; the first one is cancelled by its caller / times
    out / is force-closed.  The second is not the first one's business: it keeps waiting for its own lookup and, once that
    answers, goes on.  Returns (outcome of the first, state of the second right after, outcome of the second after its lookup answered)."""
    async def go(loop):
        from aioesphomeapi.connection import APIConnection, ConnectionParams
        from aioesphomeapi.zeroconf import ZeroconfManager
        net = simnet.Net(loop)
        net.resolve_script = ["hang", "hang"]

        def mk():
            params = ConnectionParams(addresses=["dev.local"], port=6053, password=None, client_info="v", keepalive=20.0,
                                      zeroconf_manager=ZeroconfManager(), noise_psk=None, expected_name=None)
            return APIConnection(params, lambda e: None, False, None)
        a, b = mk(), mk()

        def outcome(t):
            if not t.done():
                return "pending"
            if t.cancelled():
                return "C"
            return "ok" if t.exception() is None else conntrace.exc_name(t.exception())
        with net.patched():
            ta = asyncio.ensure_future(a.start_connection())
            await simnet.drain(loop)
            tb = asyncio.ensure_future(b.start_connection())
            await simnet.drain(loop)
            if how == "cancel":
                ta.cancel()
            elif how == "force":
                a.force_disconnect()
            else:
                await simnet.advance(loop, by=29.0)     # the first one's lookup deadline passes one second before the second one's
                await simnet.advance(loop, by=1.5)
            await simnet.drain(loop)
            first, second_now = outcome(ta), outcome(tb)
            for kind, fut in net.hangs:
                if kind == "resolve" and not fut.done():
                    fut.set_result(None)
            await simnet.drain(loop)
            second_later = outcome(tb)
            for c in (a, b):
                c.force_disconnect()
            await simnet.drain(loop)
            for t in (ta, tb):
                if not t.done():
                    t.cancel()
            await simnet.drain(loop)
        return first, second_now, second_later
    return simnet.run(go)


def resolver_hang_probe(host, cancel_at):
    """The real resolver (mDNS query and getaddrinfo both never answer): start_connection() must end when the resolve deadline
    passes, with a library error - or at once when its caller cancels it. Returns (seconds*1024 until it ended, outcome)."""
    from unittest.mock import patch

    async def go(loop):
        from aioesphomeapi import host_resolver as hr
        from aioesphomeapi.connection import APIConnection, ConnectionParams
        from aioesphomeapi.zeroconf import ZeroconfManager
        from checks.c20 import FakeAsyncZeroconf
        never = loop.create_future()

        class HangInfo:
            def __init__(self, *a, **k):
                pass

            async def async_request(self, zc, timeout):
                await asyncio.shield(never) if False else await loop.create_future()

            def ip_addresses_by_version(self, version):
                return []

        async def hang_getaddrinfo(*a, **k):
            await loop.create_future()
        net = simnet.Net(loop)
        params = ConnectionParams(addresses=[host], port=6053, password=None, client_info="v", keepalive=20.0,
                                  zeroconf_manager=ZeroconfManager(), noise_psk=None, expected_name=None)
        conn = APIConnection(params, lambda e: None, False, None)
        with net.patched(resolver=False), patch.object(hr, "AsyncServiceInfo", HangInfo), \
                patch("aioesphomeapi.zeroconf.AsyncZeroconf", FakeAsyncZeroconf), patch.object(loop, "getaddrinfo", hang_getaddrinfo):
            t0 = loop.time()
            task = asyncio.ensure_future(conn.start_connection())
            await simnet.drain(loop)
            cancelled_at = None
            for _ in range(300):
                if task.done():
                    break
                if cancel_at is not None and cancelled_at is None and loop.time() - t0 >= cancel_at:
                    task.cancel()
                    cancelled_at = loop.time() - t0
                    await simnet.drain(loop)
                    continue
                await simnet.advance(loop, by=1.0)
            elapsed = loop.time() - t0
            if not task.done():
                task.cancel()
                out = "pending"
            elif task.cancelled():
                out = "C"
            elif task.exception() is None:
                out = "ok"
            else:
                out = conntrace.exc_name(task.exception())
            conn.force_disconnect()
            await simnet.drain(loop)
            never.cancel()
        return round(elapsed * 1024), out
    return simnet.run(go)


def ble_connect_silence_probe(timeout, disconnect_timeout, answer_disconnect):
    """bluetooth_device_connect() against a device that never reports the connection: it ends with a library time-out error after
    timeout (+ disconnect_timeout when the clean-up disconnect is not confirmed either). Returns (elapsed units, outcome)."""
    async def go(loop):
        from aioesphomeapi import api_pb2 as pb
        net = simnet.Net(loop)
        with net.patched():
            cli, tr = await simnet.connected_client(loop, net)
            t0 = loop.time()
            task = asyncio.ensure_future(cli.bluetooth_device_connect(77, lambda *a: None, timeout=timeout, disconnect_timeout=disconnect_timeout))
            await simnet.drain(loop)
            answered = False
            for _ in range(400):
                if task.done():
                    break
                await simnet.advance(loop, by=0.125)
                if answer_disconnect and not answered and loop.time() - t0 >= timeout + 0.25:
                    answered = True
                    tr.feed(simnet.plain_msg(pb.BluetoothDeviceConnectionResponse(address=77, connected=False, mtu=0, error=0)))
                    await simnet.drain(loop)
            elapsed = loop.time() - t0
            if not task.done():
                task.cancel()
                out = "pending"
            elif task.cancelled():
                out = "C"
            elif task.exception() is None:
                out = "ok"
            else:
                out = conntrace.exc_name(task.exception())
            await cli.disconnect(force=True)
            await simnet.drain(loop)
        return round(elapsed * 1024), out
    return simnet.run(go)


def client_stories():
    from checks import c19
    from vlib.connstories import H, HELLO, CONNECT
    out = [s for s in c19.windows() if s.get("hook", True)]
    pre = [("start",), ("drain",), ("resolved", None, 1), ("drain",), ("tcp", None), ("drain",)]
    # a client call of every kind while finish_connection() is pending, then the device answers after all
    for lg in (0, 1):
        frames = [H(HELLO)] + ([H(CONNECT)] if lg else [])
        for mid in ([("disc",)], [("force",)], [("cmd",)], [("req",)], [("start",)], [("disc",), ("drain",), ("adv_next",)]):
            out.append({"scenario": pre + [("finish", lg), ("drain",)] + mid + [("drain",), ("data", frames), ("drain",), ("cmd",), ("adv_next",), ("drain",), ("adv_next",), ("drain",)],
                        "expect": False, "scripts": {}, "keepalive": 20480, "login": bool(lg)})
            out.append({"scenario": pre + [("finish", lg), ("drain",)] + mid + [("data", frames), ("drain",), ("adv_next",), ("drain",)],
                        "expect": False, "scripts": {}, "keepalive": 20480, "login": bool(lg)})
    return out


def client_predicate(tr):
    """every coroutine of the client ends normally or with an error of the library's hierarchy"""
    for label, _, obs in tr.steps:
        is_call = label in ("ccmd", "cstart", "cforce", "cdisc") or label.startswith(("call:", "cfinish"))
        for o in obs:
            if o.startswith("T") and "=" in o:
                tid, res = o[1:].split("=", 1)
                if res not in ("ok", "C") and not res.startswith("L."):
                    return ("C09/raw-error", f"client coroutine {tid} ended with {res}, not an error of the library's connection-error hierarchy")
            if is_call and o.startswith("X") and o not in ("XALREADY", "XNC", "XNR") and not o.startswith("XL.") \
                    and not (o == "XRT" and label.startswith(("cstart", "cfinish"))):
                return ("C09/raw-error", f"a client call raised {o[1:]}")
    for tid, r in getattr(tr, "task_outcomes", {}).items():
        if r[0] == "err" and not r[1].startswith("L.") and r[1] != "RT":
            return ("C09/raw-error", f"client coroutine {tid} ended with {r[1]}")
    return None


def run_client_level(rep, tier, seed):
    import random
    from checks import c19
    rng = random.Random(seed + 9)
    stories = client_stories() + [c19.gen_story(rng) for _ in range(150 if tier == "quick" else 2000)]
    for st in stories:
        tr = c19.run_impl(st)
        labels = [l for l, _, _ in tr.steps if l != "silent"]
        rep.case(("client",) + tuple(labels), nontrivial=len(labels) >= 8, sample=None)
        rep.bump("client-story")
        bad = client_predicate(tr)
        if bad is not None:
            def still(s2, sig=bad[0]):
                b2 = client_predicate(c19.run_impl(s2))
                return b2 is not None and b2[0] == sig
            small = connfamily.shrink(st, still) if not any(s == bad[0] for s, _, _ in rep.violations) else st
            tr3 = c19.run_impl(small)
            rep.violation(bad[0], (client_predicate(tr3) or bad)[1], {"kind": "client-story", "story": connfamily.story_text(small),
                                                                      "callbacks": [(l, p, o) for l, p, o in tr3.steps if l != "silent"][-30:]})


def replay(path):
    d = json.loads(open(path).read())["replay"]
    if d.get("kind") == "client-story":
        from checks import c19
        common.setup_impl_path()
        connfamily.N_REG = connfamily.n_registered()
        tr = c19.run_impl(connfamily.story_from_json(d["story"]))
        for l, p, o in tr.steps:
            if l != "silent":
                print(l, "|", p, "|", ",".join(o))
        print(client_predicate(tr))
        return 0
    if d.get("kind") == "ble-connect-silence":
        common.setup_impl_path()
        print(ble_connect_silence_probe(d["timeout"], d["disconnect_timeout"], d["answer_disconnect"]))
        return 0
    if d.get("kind") == "first-refusal":
        from checks import c06 as _c06
        common.setup_impl_path()
        connfamily.N_REG = connfamily.n_registered()
        st = _c06.mk_story(d["major"], d["name"], 1, 1, 1, "HC", 1, "pw")
        print(_c06.outcome_of(_c06.run_plain(st)), _c06.oracle(st["case"]))
        return 0
    if d.get("kind") == "endless-parts":
        common.setup_impl_path()
        r = endless_parts_probe(d["entry"])
        print(r)
        return 1 if (r[1] in ("pending", "ok") or r[0] > 1.2 * r[2] + 0.01) else 0
    if d.get("kind") == "slow-stop-hook":
        common.setup_impl_path()
        r = slow_stop_hook_probe(d["ack"])
        print(r)
        return 1 if (r[1] == "pending" or r[0] > 15.0) else 0
    if d.get("kind") == "platform-debug":
        common.setup_impl_path()
        if d.get("imported_as"):
            from vlib import otherplatform
            problems = otherplatform.run_under(d["imported_as"], "checks.c09", "platform_debug_probe", d["flip"], d["debug"], d["size"])
        else:
            problems = platform_debug_probe(d["flip"], d["debug"], d["size"])
        print(problems)
        return 1 if problems else 0
    if d.get("kind") == "resolver-hang":
        common.setup_impl_path()
        print(resolver_hang_probe(d["host"], d["cancel_at"]))
        return 0
    if d.get("kind") == "concurrent-resolve":
        common.setup_impl_path()
        print(concurrent_resolve_probe(d["how"]))
        return 0
    if d.get("kind") == "silence-probe":
        common.setup_impl_path()
        print(silence_probe(d["noise"], d["stage"], d["login"], d.get("clock_offset", 0.0)))
        return 0
    return connfamily.replay(path, "C09")
