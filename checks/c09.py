"""C09 — see checks/connfamily.py (shared engine of the connection family) and coq/Properties/C09.v."""
from checks import connfamily

VFILE = "Properties/C09.v"
RULE = ("stories = hand-picked same-turn/close-window scenarios + (thorough) every position x every single extra event of base stories "
        "+ random connect/traffic/close stories with hop-delayed injections (vlib/connstories.py); each story runs on the real APIConnection "
        "under the virtual-time loop with every event-loop callback labelled, the model must accept the label sequence with equal "
        "projections/observations, and the C09 predicate is evaluated on the implementation's trace; non-trivial = the connection closes "
        "within a story of at least 8 labelled callbacks; distinct by label sequence")


def run(rep, tier, seed):
    connfamily.run(rep, tier, seed, "C09", VFILE, RULE)


def replay(path):
    return connfamily.replay(path, "C09")
