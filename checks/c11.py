"""C11 — see checks/connfamily.py (shared engine of the connection family) and coq/Properties/C11.v."""
from checks import connfamily

VFILE = "Properties/C11.v"
RULE = ("stories = hand-picked same-turn/close-window scenarios + (thorough) every position x every single extra event of base stories "
        "+ random connect/traffic/close stories with hop-delayed injections (vlib/connstories.py); each story runs on the real APIConnection "
        "under the virtual-time loop with every event-loop callback labelled, the model must accept the label sequence with equal "
        "projections/observations, and the C11 predicate is evaluated on the implementation's trace; non-trivial = the connection closes "
        "within a story of at least 8 labelled callbacks; distinct by label sequence")


def deadline_probe():
    """Unanswered request-response calls with several timeouts on an established session (one of them with a response arriving a few
    milliseconds AFTER its deadline): [(timeout, seconds after which the call failed, error class, handlers/timers left)]."""
    import asyncio
    from vlib import conntrace, simnet
    from vlib.privnames import priv

    async def go(loop):
        from aioesphomeapi import api_pb2 as pb
        net = simnet.Net(loop)
        out = []
        with net.patched():
            cli, tr = await simnet.connected_client(loop, net, keepalive=3600.0)
            conn = priv(cli, "_connection")
            base = {k.__name__: len(v) for k, v in priv(conn, "_message_handlers").items() if len(v)}
            for tmo in (0.25, 1.0, 3.0, 10.0):
                t0 = loop.time()
                task = asyncio.ensure_future(conn.send_messages_await_response_complex((pb.DeviceInfoRequest(),), None, None, (pb.DeviceInfoResponse,), tmo))
                await simnet.drain(loop)
                await simnet.advance(loop, to=t0 + tmo)
                at_deadline = task.done()
                if not at_deadline:
                    # a response that arrives after the deadline is not this call's response any more
                    await simnet.advance(loop, by=0.004)
                    if not task.done():
                        tr.feed(simnet.plain_msg(pb.DeviceInfoResponse(name="late")))
                        await simnet.drain(loop)
                    await simnet.advance(loop, by=30.0)
                elapsed = None
                if not task.done():
                    task.cancel()
                    await simnet.drain(loop)
                    res = "pending"
                elif task.cancelled():
                    res = "cancelled"
                elif task.exception() is None:
                    res = "returned " + str([type(m).__name__ for m in task.result()])
                else:
                    res = conntrace.exc_name(task.exception())
                left = {k.__name__: len(v) for k, v in priv(conn, "_message_handlers").items() if len(v)}
                timers = [n for _, n in loop.armed_timers() if "timeout" in n.lower()]
                out.append([tmo, at_deadline, res, left != base or bool(timers)])
            await cli.disconnect(force=True)
            await simnet.drain(loop)
        return out
    return simnet.run(go)


def one_shot_subscriber_probe():
    """A one-shot subscriber for type T (registered before, it unsubscribes itself inside its callback) and a request/response call
    waiting for T: the message completes the call all the same. And a call for T that is started from inside a callback for T
    (its request is written while the message is being dispatched) is not completed by that message - it arrived before the
    request was written - but by the next one. Returns a list of problems."""
    import asyncio
    from vlib import simnet
    from vlib.privnames import priv

    async def go(loop):
        from aioesphomeapi import api_pb2 as pb
        net = simnet.Net(loop)
        problems = []
        with net.patched():
            cli, tr = await simnet.connected_client(loop, net)
            conn = priv(cli, "_connection")
            for position in ("before", "after"):
                box = {}
                seen = []

                def one_shot(m):
                    seen.append(m.name)
                    box["remove"]()
                if position == "before":
                    box["remove"] = conn.add_message_callback(one_shot, (pb.DeviceInfoResponse,))
                call = asyncio.ensure_future(conn.send_messages_await_response_complex((pb.DeviceInfoRequest(),), None, None, (pb.DeviceInfoResponse,), 5.0))
                await simnet.drain(loop)
                if position == "after":
                    box["remove"] = conn.add_message_callback(one_shot, (pb.DeviceInfoResponse,))
                tr.feed(simnet.plain_msg(pb.DeviceInfoResponse(name="first-" + position)))
                await simnet.drain(loop)
                if not call.done():
                    problems.append(f"one-shot subscriber registered {position} the call: the call is still pending although its response arrived (subscriber saw {seen})")
                    call.cancel()
                elif call.exception() is not None or [m.name for m in call.result()] != ["first-" + position]:
                    problems.append(f"one-shot subscriber registered {position} the call: the call ended with {call.exception() or [m.name for m in call.result()]}")
                if seen != ["first-" + position]:
                    problems.append(f"one-shot subscriber registered {position} the call was invoked with {seen}")
                await simnet.drain(loop)
            # a call started from inside a callback for the same type
            inner = {}

            def starts_call(m):
                if "task" not in inner:
                    inner["task"] = asyncio.ensure_future(conn.send_messages_await_response_complex((pb.DeviceInfoRequest(),), None, None, (pb.DeviceInfoResponse,), 5.0))
            remove = conn.add_message_callback(starts_call, (pb.DeviceInfoResponse,))
            tr.feed(simnet.plain_msg(pb.DeviceInfoResponse(name="earlier")))
            await simnet.drain(loop)
            remove()
            t = inner.get("task")
            if t is None:
                problems.append("the callback did not run")
            else:
                if t.done():
                    problems.append(f"a call started from inside a callback for its response type was completed by the message that was being dispatched "
                                    f"({'error ' + type(t.exception()).__name__ if t.exception() else [m.name for m in t.result()]}): that message arrived before the request was written")
                else:
                    tr.feed(simnet.plain_msg(pb.DeviceInfoResponse(name="later")))
                    await simnet.drain(loop)
                    if not t.done() or t.exception() is not None or [m.name for m in t.result()] != ["later"]:
                        problems.append("a call started from inside a callback was not completed by the next message of its type")
                if not t.done():
                    t.cancel()
            await cli.disconnect(force=True)
            await simnet.drain(loop)
        return problems
    return simnet.run(go)


def run(rep, tier, seed):
    connfamily.run(rep, tier, seed, "C11", VFILE, RULE)
    problems = one_shot_subscriber_probe()
    rep.case(("one-shot-subscriber",), True, sample={"one_shot_subscriber": problems[:2]})
    rep.bump("probe:one-shot-subscriber")
    if problems:
        rep.violation("C11/result", f"{problems[0]}; {len(problems)} problem(s)", {"kind": "one-shot-subscriber"})
    # the deadline of a call, on this platform and with the library imported as on Windows (constants derived from sys.platform at import)
    import sys
    from vlib import otherplatform
    for platform in (sys.platform, "win32"):
        res = deadline_probe() if platform == sys.platform else otherplatform.run_under(platform, "checks.c11", "deadline_probe")
        rep.case(("deadline", platform), True, sample={"deadline_probe": platform, "result": res})
        rep.bump("probe:deadline:" + platform)
        bad = [r for r in res if not r[1] or r[2] != "L.Timeout" or r[3]]
        if bad:
            tmo, at_deadline, how, left = bad[0]
            rep.violation("C11/timeout-time", f"library imported with sys.platform={platform!r}: an unanswered call with timeout {tmo} s "
                          f"{'had failed' if at_deadline else 'was still waiting'} when its timeout had passed; it ended: {how}{'; handlers / timers left' if left else ''} "
                          f"(a call fails with a timeout error exactly at its timeout)", {"kind": "deadline-probe", "platform": platform})


def replay(path):
    import json
    import sys
    d = json.loads(open(path).read())["replay"]
    if d.get("kind") == "one-shot-subscriber":
        from vlib import common
        common.setup_impl_path()
        problems = one_shot_subscriber_probe()
        print(problems)
        return 1 if problems else 0
    if d.get("kind") == "deadline-probe":
        from vlib import common, otherplatform
        common.setup_impl_path()
        res = deadline_probe() if d["platform"] == sys.platform else otherplatform.run_under(d["platform"], "checks.c11", "deadline_probe")
        print(res)
        return 1 if [r for r in res if not r[1] or r[2] != "L.Timeout" or r[3]] else 0
    return connfamily.replay(path, "C11")
