"""C11 — see checks/connfamily.py (shared engine of the connection family) and coq/Properties/C11.v."""
from checks import connfamily

VFILE = "Properties/C11.v"
RULE = ("stories = hand-picked same-turn/close-window scenarios + (thorough) every position x every single extra event of base stories "
        "+ random connect/traffic/close stories with hop-delayed injections (vlib/connstories.py); each story runs on the real APIConnection "
        "under the virtual-time loop with every event-loop callback labelled, the model must accept the label sequence with equal "
        "projections/observations, and the C11 predicate is evaluated on the implementation's trace; non-trivial = the connection closes "
        "within a story of at least 8 labelled callbacks; distinct by label sequence")


def deadline_probe():
    """Unanswered request-response calls with several timeouts on an established session (one of them with a response arriving a few
    milliseconds AFTER its deadline): [(timeout, seconds after which the call failed, error class, handlers/timers left)]."""
    import asyncio
    from vlib import conntrace, simnet
    from vlib.privnames import priv

    async def go(loop):
        from aioesphomeapi import api_pb2 as pb
        net = simnet.Net(loop)
        out = []
        with net.patched():
            cli, tr = await simnet.connected_client(loop, net, keepalive=3600.0)
            conn = priv(cli, "_connection")
            base = {k.__name__: len(v) for k, v in priv(conn, "_message_handlers").items() if len(v)}
            for tmo in (0.25, 1.0, 3.0, 10.0):
                t0 = loop.time()
                task = asyncio.ensure_future(conn.send_messages_await_response_complex((pb.DeviceInfoRequest(),), None, None, (pb.DeviceInfoResponse,), tmo))
                await simnet.drain(loop)
                await simnet.advance(loop, to=t0 + tmo)
                at_deadline = task.done()
                if not at_deadline:
                    # a response that arrives after the deadline is not this call's response any more
                    await simnet.advance(loop, by=0.004)
                    if not task.done():
                        tr.feed(simnet.plain_msg(pb.DeviceInfoResponse(name="late")))
                        await simnet.drain(loop)
                    await simnet.advance(loop, by=30.0)
                elapsed = None
                if not task.done():
                    task.cancel()
                    await simnet.drain(loop)
                    res = "pending"
                elif task.cancelled():
                    res = "cancelled"
                elif task.exception() is None:
                    res = "returned " + str([type(m).__name__ for m in task.result()])
                else:
                    res = conntrace.exc_name(task.exception())
                left = {k.__name__: len(v) for k, v in priv(conn, "_message_handlers").items() if len(v)}
                timers = [n for _, n in loop.armed_timers() if "timeout" in n.lower()]
                out.append([tmo, at_deadline, res, left != base or bool(timers)])
            await cli.disconnect(force=True)
            await simnet.drain(loop)
        return out
    return simnet.run(go)


def run(rep, tier, seed):
    connfamily.run(rep, tier, seed, "C11", VFILE, RULE)
    # the deadline of a call, on this platform and with the library imported as on Windows (constants derived from sys.platform at import)
    import sys
    from vlib import otherplatform
    for platform in (sys.platform, "win32"):
        res = deadline_probe() if platform == sys.platform else otherplatform.run_under(platform, "checks.c11", "deadline_probe")
        rep.case(("deadline", platform), True, sample={"deadline_probe": platform, "result": res})
        rep.bump("probe:deadline:" + platform)
        bad = [r for r in res if not r[1] or r[2] != "L.Timeout" or r[3]]
        if bad:
            tmo, at_deadline, how, left = bad[0]
            rep.violation("C11/timeout-time", f"library imported with sys.platform={platform!r}: an unanswered call with timeout {tmo} s "
                          f"{'had failed' if at_deadline else 'was still waiting'} when its timeout had passed; it ended: {how}{'; handlers / timers left' if left else ''} "
                          f"(a call fails with a timeout error exactly at its timeout)", {"kind": "deadline-probe", "platform": platform})


def replay(path):
    import json
    import sys
    d = json.loads(open(path).read())["replay"]
    if d.get("kind") == "deadline-probe":
        from vlib import common, otherplatform
        common.setup_impl_path()
        res = deadline_probe() if d["platform"] == sys.platform else otherplatform.run_under(d["platform"], "checks.c11", "deadline_probe")
        print(res)
        return 1 if [r for r in res if not r[1] or r[2] != "L.Timeout" or r[3]] else 0
    return connfamily.replay(path, "C11")
