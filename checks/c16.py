"""C16 — Bluetooth operations are matched by address and handle and never cross-talk.

Proof: coq/Properties/C16.v about Model/Ble.v (the two filters of client_callbacks.py, the outcome table of
_send_bluetooth_message_await_response, and every operation of client.py as a state machine over the events of the connection;
non-interference and "nothing left subscribed" for every event sequence).
Tie: the real APIClient over SimNet runs sets of concurrent operations against every order / chunking of device responses; after
every step the frames written, the outcome of every coroutine, the callbacks made and the handlers registered on the connection
are compared with the extracted model, and the property's own predicate (computed here from the story alone) is evaluated on
the implementation."""
from vlib.privnames import priv, has_priv
import asyncio
import itertools
import json
import random
import re
from unittest.mock import patch

from vlib import common, simnet

VFILE = "Properties/C16.v"

A1, A2 = 0xAABBCCDDEE01, 0x0102030405FF
ADDRS = [A1, A2]
HANDLES = [0, 1, 7]
SEC = 1024

HANDLE_RQ = {"read": "rr", "readdesc": "rr", "write": "wr", "writedesc": "wr"}
DEVICE_RQ = {"pair": ("pr", "PAIR"), "unpair": ("ur", "UNPAIR"), "clear": ("cc", "CLEAR_CACHE")}


# --------------------------------------------------------------------------------------------------------- device side
def build_msg(m):
    from aioesphomeapi import api_pb2 as pb
    k, a, h, d = m
    if k == "rr":
        return pb.BluetoothGATTReadResponse(address=a, handle=h, data=d.to_bytes(4, "big"))
    if k == "wr":
        return pb.BluetoothGATTWriteResponse(address=a, handle=h)
    if k == "nr":
        return pb.BluetoothGATTNotifyResponse(address=a, handle=h)
    if k == "ge":
        return pb.BluetoothGATTErrorResponse(address=a, handle=h, error=d)
    if k in ("cn0", "cn1"):
        return pb.BluetoothDeviceConnectionResponse(address=a, connected=(k == "cn1"), mtu=d, error=d)
    if k == "pr":
        return pb.BluetoothDevicePairingResponse(address=a, paired=True, error=d)
    if k == "ur":
        return pb.BluetoothDeviceUnpairingResponse(address=a, success=True, error=d)
    if k == "cc":
        return pb.BluetoothDeviceClearCacheResponse(address=a, success=True, error=d)
    if k == "nd":
        return pb.BluetoothGATTNotifyDataResponse(address=a, handle=h, data=d.to_bytes(4, "big"))
    if k == "sv":
        return pb.BluetoothGATTGetServicesResponse(address=a, services=[pb.BluetoothGATTService(uuid=[d, d], handle=d)])
    if k == "sd":
        return pb.BluetoothGATTGetServicesDoneResponse(address=a)
    raise ValueError(k)


def mword(m):
    return "m:%s:%d:%d:%d" % m


def spec_word(op):
    k = op[0]
    if k in HANDLE_RQ:
        _, a, h, t = op
        return f"h:{k}:{HANDLE_RQ[k]}:{a}:{h}:{t_units(t, 'DEFAULT_BLE_TIMEOUT')}"
    if k in ("writenr", "writedescnr"):
        return f"w:{'write' if k == 'writenr' else 'writedesc'}:{op[1]}:{op[2]}"
    if k in DEVICE_RQ:
        return f"d:{CONSTS['BLE_REQ_' + DEVICE_RQ[k][1]]}:{DEVICE_RQ[k][0]}:{op[1]}:{t_units(op[2], 'DEFAULT_BLE_TIMEOUT')}"
    if k == "disconnect":
        return f"x:{op[1]}:{t_units(op[2], 'DEFAULT_BLE_DISCONNECT_TIMEOUT')}"
    if k == "services":
        return f"v:{op[1]}"
    if k == "notify":
        return f"n:{op[1]}:{op[2]}:{t_units(op[3], 'BLE_NOTIFY_TIMEOUT')}"
    if k == "connect":
        _, a, hc, ff, t, dt = op
        return f"k:{a}:{int(hc)}:{ff}:{t_units(t, 'DEFAULT_BLE_TIMEOUT')}:{t_units(dt, 'DEFAULT_BLE_DISCONNECT_TIMEOUT')}"
    raise ValueError(op)


CONSTS = {}


def load_consts():
    txt = (common.COQ / "Generated" / "GenConstants.v").read_text()
    for m in re.finditer(r"Definition (\w+) : Z := \((-?\d+)\)%Z\.", txt):
        CONSTS[m.group(1)] = int(m.group(2))


def t_units(t, default):
    return CONSTS[default] if t is None else t * SEC


def model_words(story):
    out = []
    for st in story:
        if st[0] == "op":
            out.append(f"o:{st[1]}:{spec_word(st[2])}")
        elif st[0] == "feed":
            out += [mword(m) for m in st[1]] + ["e"]
        elif st[0] == "t":
            # the loop runs every timer due by then, including one armed (with a zero delay) by a timer that just fired: the model
            # is told the time twice
            out += [f"t:{st[1] * SEC}", f"t:{st[1] * SEC}"]
        elif st[0] == "cancel":
            out.append(f"c:{st[1]}")
        elif st[0] == "unsub":
            out.append(f"u:{st[1]}")
        elif st[0] == "stop":
            out.append(f"s:{st[1]}")
    return out


# ----------------------------------------------------------------------------------------------------- implementation
def decode_write(ty, payload):
    from aioesphomeapi import api_pb2 as pb
    from aioesphomeapi.core import MESSAGE_TYPE_TO_PROTO
    cls = MESSAGE_TYPE_TO_PROTO.get(ty)
    if cls is None:
        return ("W", f"type{ty}", 0, 0)
    msg = cls.FromString(payload)
    name = cls.__name__
    table = {"BluetoothGATTReadRequest": "read", "BluetoothGATTReadDescriptorRequest": "readdesc",
             "BluetoothGATTWriteRequest": "write", "BluetoothGATTWriteDescriptorRequest": "writedesc",
             "BluetoothGATTGetServicesRequest": "services"}
    if name in table:
        return ("W", table[name], msg.address, getattr(msg, "handle", 0))
    if name == "BluetoothGATTNotifyRequest":
        return ("W", "notify%d" % int(msg.enable), msg.address, msg.handle)
    if name == "BluetoothDeviceRequest":
        return ("W", "dev%d" % msg.request_type, msg.address, 0)
    return ("W", name, 0, 0)


PB_KIND = {"BluetoothGATTReadResponse": "rr", "BluetoothGATTWriteResponse": "wr", "BluetoothGATTNotifyResponse": "nr",
           "BluetoothGATTErrorResponse": "ge", "BluetoothDeviceConnectionResponse": "cn", "BluetoothDevicePairingResponse": "pr",
           "BluetoothDeviceUnpairingResponse": "ur", "BluetoothDeviceClearCacheResponse": "cc",
           "BluetoothGATTNotifyDataResponse": "nd", "BluetoothGATTGetServicesResponse": "sv",
           "BluetoothGATTGetServicesDoneResponse": "sd"}


def classify_result(op, task):
    from aioesphomeapi.core import (BluetoothConnectionDroppedError, BluetoothGATTAPIError, TimeoutAPIError)
    if task.cancelled():
        return "cancelled"
    e = task.exception()
    if e is not None:
        if isinstance(e, BluetoothGATTAPIError):
            return "gatterror/%d.%d.%d" % (e.error.address, e.error.handle, e.error.error)
        if isinstance(e, BluetoothConnectionDroppedError):
            m = re.search(r"\((\d+)\)$", str(e))
            return "dropped/" + (m.group(1) if m else "?")
        if isinstance(e, TimeoutAPIError):
            m = re.search(r"disconnect timed out: (True|False)", str(e))
            return "connecttimeout/" + ("1" if m.group(1) == "True" else "0") if m else "timeout"
        return "raise/" + type(e).__name__
    r = task.result()
    k = op[0]
    if k in ("read", "readdesc"):
        return "result/%d" % int.from_bytes(bytes(r), "big") if isinstance(r, bytearray) else f"badresult/{r!r}"
    if k in ("write", "writedesc", "disconnect"):
        return "result" if r is None else f"badresult/{r!r}"
    if k in ("writenr", "writedescnr"):
        return "sent" if r is None else f"badresult/{r!r}"
    if k in DEVICE_RQ:
        if r.address != op[1]:
            return f"badresult/address {r.address}"
        return "result/%d" % r.error
    if k == "services":
        if r.address != op[1]:
            return f"badresult/address {r.address}"
        return "services/" + ".".join(str(s.handle) for s in r.services)
    if k in ("notify", "connect"):
        return "returned"
    return "?"


def model_result_norm(txt):
    """model result text -> the part the implementation exposes"""
    kind, _, rest = txt.partition("/")
    if kind == "result":
        k, a, h, d = rest.split(".")
        return "result/" + d if k in ("rr", "pr", "ur", "cc") else "result"
    if kind == "gatterror":
        k, a, h, d = rest.split(".")
        return f"gatterror/{a}.{h}.{d}"
    if kind == "dropped":
        return "dropped/" + rest.split(".")[3]
    return txt


def run_story(story):
    """Run the story on the real APIClient. Returns per step: (events, handler counts); events = list of tuples."""
    from aioesphomeapi import api_pb2 as pb
    from aioesphomeapi.connection import APIConnection

    async def go(loop):
        net = simnet.Net(loop)
        log = []
        steps = []
        with net.patched():
            cli, tr = await simnet.connected_client(loop, net, keepalive=1e7)
            conn = priv(cli, "_connection")
            orig_cb = APIConnection.send_message_callback_response
            current = {"id": None}

            def wrapped(self, send_msg, on_message, msg_types):
                un = orig_cb(self, send_msg, on_message, msg_types)
                oid = current["id"]

                def unsub():
                    log.append(("U", oid))
                    return un()
                return unsub
            base = {k.__name__: len(v) for k, v in priv(conn, "_message_handlers").items()}
            tasks, ops = {}, {}
            seen_done = set()

            class WriteLog(list):
                def append(self, item):
                    for ty, payload in simnet.decode_plain_stream(item[1]):
                        log.append(decode_write(ty, payload))
                    list.append(self, item)
            tr.writes = WriteLog(tr.writes)
            t0 = loop.time()
            with patch.object(APIConnection, "send_message_callback_response", wrapped):
                for st in story:
                    del log[:]
                    if st[0] == "op":
                        oid, op = st[1], st[2]
                        ops[oid] = op
                        k = op[0]
                        kw = {}
                        if k in HANDLE_RQ:
                            if op[3] is not None:
                                kw["timeout"] = float(op[3])
                            fn = {"read": cli.bluetooth_gatt_read, "readdesc": cli.bluetooth_gatt_read_descriptor}.get(k)
                            if fn:
                                coro = fn(op[1], op[2], **kw)
                            elif k == "write":
                                coro = cli.bluetooth_gatt_write(op[1], op[2], b"x", True, **kw)
                            else:
                                coro = cli.bluetooth_gatt_write_descriptor(op[1], op[2], b"x", **kw)
                        elif k == "writenr":
                            coro = cli.bluetooth_gatt_write(op[1], op[2], b"x", False)
                        elif k == "writedescnr":
                            coro = cli.bluetooth_gatt_write_descriptor(op[1], op[2], b"x", wait_for_response=False)
                        elif k in DEVICE_RQ:
                            if op[2] is not None:
                                kw["timeout"] = float(op[2])
                            coro = {"pair": cli.bluetooth_device_pair, "unpair": cli.bluetooth_device_unpair,
                                    "clear": cli.bluetooth_device_clear_cache}[k](op[1], **kw)
                        elif k == "disconnect":
                            if op[2] is not None:
                                kw["timeout"] = float(op[2])
                            coro = cli.bluetooth_device_disconnect(op[1], **kw)
                        elif k == "services":
                            coro = cli.bluetooth_gatt_get_services(op[1])
                        elif k == "notify":
                            if op[3] is not None:
                                kw["timeout"] = float(op[3])
                            coro = cli.bluetooth_gatt_start_notify(
                                op[1], op[2], lambda h, data, oid=oid: log.append(("N", oid, h, int.from_bytes(bytes(data), "big"))), **kw)
                        elif k == "connect":
                            _, a, hc, ff, t, dt = op
                            if t is not None:
                                kw["timeout"] = float(t)
                            if dt is not None:
                                kw["disconnect_timeout"] = float(dt)
                            coro = cli.bluetooth_device_connect(
                                a, lambda c, mtu, err, oid=oid: log.append(("S", oid, int(c), mtu, err)),
                                feature_flags=ff, has_cache=hc, **kw)
                        current["id"] = oid
                        tasks[oid] = loop.create_task(coro)
                        await simnet.drain(loop)
                        current["id"] = None
                    elif st[0] == "feed":
                        tr.feed(b"".join(simnet.plain_msg(build_msg(m)) for m in st[1]))
                        await simnet.drain(loop)
                    elif st[0] == "t":
                        await simnet.advance(loop, to=t0 + st[1])
                    elif st[0] == "cancel":
                        if st[1] in tasks and not tasks[st[1]].done():
                            tasks[st[1]].cancel()
                        await simnet.drain(loop)
                    elif st[0] == "unsub":
                        t = tasks.get(st[1])
                        if t is not None and ops[st[1]][0] in ("notify", "connect") and t.done() and not t.cancelled() and t.exception() is None:
                            r = t.result()
                            (r[1] if isinstance(r, tuple) else r)()
                        await simnet.drain(loop)
                    elif st[0] == "stop":
                        t = tasks.get(st[1])
                        if t is not None and ops[st[1]][0] == "notify" and t.done() and not t.cancelled() and t.exception() is None:
                            await t.result()[0]()
                        await simnet.drain(loop)
                    for oid, t in tasks.items():
                        if t.done() and oid not in seen_done:
                            seen_done.add(oid)
                            log.append(("D", oid, classify_result(ops[oid], t)))
                    counts = {}
                    for k, v in priv(conn, "_message_handlers").items():
                        n = len(v) - base.get(k.__name__, 0)
                        if n:
                            counts[PB_KIND.get(k.__name__, k.__name__)] = n
                    steps.append((list(log), counts))
            for t in tasks.values():
                if not t.done():
                    t.cancel()
            await simnet.drain(loop)
        return steps
    return simnet.run(go)


# ------------------------------------------------------------------------------------------------------------ compare
def parse_model(line, story):
    """model output -> per story step (writes multiset, per-op event lists, subscription counts)"""
    parts = line.split("|")[1:]
    i = 0
    out = []
    for st in story:
        n = len(st[1]) + 1 if st[0] == "feed" else 2 if st[0] == "t" else 1
        writes, perop, subs = [], {}, {}
        for p in parts[i:i + n]:
            obs, _, sub = p.partition("#")
            for o in filter(None, obs.split(",")):
                oid, _, body = o.partition("=")
                oid = int(oid)
                kind, _, rest = body.partition("/")
                if kind == "W":
                    rq, a, h = rest.split(".")
                    writes.append((rq, int(a), int(h)))
                    perop.setdefault(oid, []).append(("W", rq, int(a), int(h)))
                elif kind == "D":
                    perop.setdefault(oid, []).append(("D", model_result_norm(rest)))
                elif kind == "N":
                    h, d = rest.split(".")
                    perop.setdefault(oid, []).append(("N", int(h), int(d)))
                elif kind == "S":
                    k, a, h, d = rest.split(".")
                    perop.setdefault(oid, []).append(("S", int(k[2]), int(d), int(d)))
                elif kind == "U":
                    perop.setdefault(oid, []).append(("U",))
            subs = {k: int(v) for k, v in (x.split("=") for x in filter(None, sub.split(",")))}
        i += n
        out.append((sorted(writes), perop, subs))
    return out


def impl_view(step_events):
    writes = sorted((e[1], e[2], e[3]) for e in step_events if e[0] == "W")
    perop = {}
    for e in step_events:
        if e[0] == "D":
            perop.setdefault(e[1], []).append(("D", e[2]))
        elif e[0] == "N":
            perop.setdefault(e[1], []).append(("N", e[2], e[3]))
        elif e[0] == "S":
            perop.setdefault(e[1], []).append(("S", e[2], e[3], e[4]))
        elif e[0] == "U" and e[1] is not None:
            perop.setdefault(e[1], []).append(("U",))
    return writes, perop


def compare(story, steps, mline):
    """first difference between implementation and model, or None"""
    mv = parse_model(mline, story)
    for idx, (st, (events, counts), (mw, mper, msubs)) in enumerate(zip(story, steps, mv)):
        iw, iper = impl_view(events)
        if iw != mw:
            return idx, f"step {idx} {st}: frames written {iw}, model {mw}"
        mper2 = {k: [e for e in v if e[0] != "W"] for k, v in mper.items()}
        mper2 = {k: v for k, v in mper2.items() if v}
        # an unsubscribe call by the user is not an observation of the model
        iper2 = {k: v for k, v in iper.items()}
        if st[0] in ("unsub", "stop"):
            iper2 = {k: [e for e in v if e != ("U",)] for k, v in iper2.items()}
            iper2 = {k: v for k, v in iper2.items() if v}
        if iper2 != mper2:
            return idx, f"step {idx} {st}: observations {iper2}, model {mper2}"
        # connect time-out: the unsubscribe precedes the disconnect frame
        for oid, evs in mper.items():
            if ("U",) in evs:
                pos_u = next((i for i, e in enumerate(events) if e[0] == "U" and e[1] == oid), None)
                addr = next(s_[2][1] for s_ in story if s_[0] == "op" and s_[1] == oid)
                wanted = ("W", "dev%d" % CONSTS["BLE_REQ_DISCONNECT"], addr, 0)
                pos_w = next((i for i, e in enumerate(events) if e == wanted and pos_u is not None and i > pos_u), None)
                if ("D", "cancelled") in evs:
                    continue
                if pos_u is None or pos_w is None:
                    return idx, f"step {idx} {st}: unsubscribe / disconnect order in {events}"
        if counts != msubs:
            return idx, f"step {idx} {st}: handlers registered beyond the connection's own {counts}, model {msubs}"
    return None


# -------------------------------------------------------------------------------------- the property, from the story
def own(opk, a, h, m):
    k, ma, mh, _ = m
    if k in ("cn0", "cn1"):
        return ma == a
    return ma == a and mh == h and k in (opk, "ge")


def predicate(story, steps):
    """C16 evaluated on the implementation run: returns (signature, text) or None."""
    flat = []   # (step index, event)
    started = {}
    for idx, st in enumerate(story):
        if st[0] == "op":
            started[st[1]] = (idx, st[2])
    done_at = {}
    for idx, (events, counts) in enumerate(steps):
        for e in events:
            if e[0] == "D":
                done_at[e[1]] = (idx, e[2])
    for oid, (sidx, op) in started.items():
        k = op[0]
        if k in HANDLE_RQ or k == "notify":
            a, h = op[1], op[2]
            resp = HANDLE_RQ.get(k, "nr")
            timeout = op[3]
            deadline = None
            start_t = max([st[1] for st in story[:sidx] if st[0] == "t"], default=0)
            limit = start_t + (timeout if timeout is not None else {"notify": 10}.get(k, 30))
            expect = None
            for idx in range(sidx + 1, len(story)):
                st = story[idx]
                if st[0] == "feed":
                    hit = next((m for m in st[1] if own(resp, a, h, m)), None)
                    if hit is not None:
                        if hit[0] == "ge":
                            expect = (idx, "gatterror/%d.%d.%d" % (hit[1], hit[2], hit[3]))
                        elif hit[0] in ("cn0", "cn1"):
                            expect = (idx, "dropped/%d" % hit[3])
                        elif k in ("read", "readdesc"):
                            expect = (idx, "result/%d" % hit[3])
                        elif k == "notify":
                            expect = (idx, "returned")
                        else:
                            expect = (idx, "result")
                        break
                elif st[0] == "t" and st[1] >= limit:
                    expect = (idx, "timeout")
                    break
                elif st[0] == "cancel" and st[1] == oid:
                    expect = (idx, "cancelled")
                    break
            got = done_at.get(oid)
            if got != expect:
                what = f"{k}({a:#x}, handle {h}) started at step {sidx}: "
                if got is None:
                    return ("C16/not-completed", what + f"expected {expect[1]} at step {expect[0]}, but it is still pending")
                if expect is None:
                    return ("C16/foreign-message-completes", what + f"nothing for its address and handle arrived, yet it ended with {got[1]} at step {got[0]} ({story[got[0]]})")
                if got[0] != expect[0]:
                    kind = "delayed" if got[0] > expect[0] else "foreign-message-completes"
                    return (f"C16/{kind}", what + f"ended with {got[1]} at step {got[0]} ({story[got[0]]}), expected {expect[1]} at step {expect[0]} ({story[expect[0]]})")
                return ("C16/wrong-outcome", what + f"ended with {got[1]}, expected {expect[1]} (step {got[0]}: {story[got[0]]})")
        if k == "connect":
            a, t, dt = op[1], op[4] if op[4] is not None else 30, op[5] if op[5] is not None else 20
            start_t = max([st[1] for st in story[:sidx] if st[0] == "t"], default=0)
            answered = False
            for idx in range(sidx + 1, len(story)):
                st = story[idx]
                if st[0] == "feed" and any(m[0] in ("cn0", "cn1") and m[1] == a for m in st[1]):
                    answered = True
                    break
                if st[0] == "cancel" and st[1] == oid:
                    answered = True
                    break
                if st[0] == "t" and st[1] >= start_t + t:
                    events = steps[idx][0]
                    ws = [i for i, e in enumerate(events) if e[0] == "W" and e[1] == "dev%d" % CONSTS["BLE_REQ_DISCONNECT"] and e[2] == a]
                    if not ws:
                        return ("C16/connect-timeout-no-disconnect", f"connect({a:#x}) timed out at step {idx} without issuing a disconnect for that address: {events}")
                    ds = [i for i, e in enumerate(events) if e[0] == "D" and e[1] == oid]
                    if ds and ds[0] < ws[0]:
                        return ("C16/connect-timeout-order", f"connect({a:#x}) raised before the disconnect was issued: {events}")
                    got = done_at.get(oid)
                    if got is not None and not got[1].startswith(("connecttimeout", "cancelled")):
                        return ("C16/connect-timeout-outcome", f"connect({a:#x}) timed out but ended with {got[1]}")
                    # callbacks after the time-out are not delivered
                    for j in range(idx, len(steps)):
                        if any(e[0] == "S" and e[1] == oid for e in steps[j][0]):
                            return ("C16/connect-timeout-callback", f"connect({a:#x}) timed out at step {idx}, yet its state callback ran at step {j}")
                    break
    # notify data reaches exactly the notify subscriptions for its address and handle that are in force (started successfully, not yet
    # stopped / removed) - whatever became of other subscriptions for the same characteristic
    for idx, st in enumerate(story):
        if st[0] != "feed" or idx >= len(steps):
            continue
        for m in st[1]:
            if m[0] != "nd":
                continue
            want, may = set(), set()
            for oid, (sidx, op) in started.items():
                if op[0] != "notify" or op[1] != m[1] or op[2] != m[2] or sidx >= idx:
                    continue
                got = done_at.get(oid)
                ended = got is not None and got[0] < idx and got[1] != "returned"
                released = got is not None and any(s2[0] in ("unsub", "stop") and s2[1] == oid for s2 in story[got[0]:idx])
                if not ended and not released:
                    may.add(oid)         # (data may already reach a subscription whose start has not been confirmed yet)
                    if got is not None and got[1] == "returned" and got[0] < idx:
                        want.add(oid)
            seen = {e[1] for e in steps[idx][0] if e[0] == "N" and e[3] == m[3]}
            if not (want <= seen <= may):
                return ("C16/notify-data", f"notify data for ({m[1]:#x}, handle {m[2]}) at step {idx}: delivered to subscription(s) {sorted(seen)}; "
                        f"subscriptions in force for that characteristic: {sorted(want)}" + (f" (started, unconfirmed: {sorted(may - want)})" if may - want else ""))
    # nothing left subscribed once everything has finished (notify / connect subscriptions released by the story)
    live = set()
    for oid, (sidx, op) in started.items():
        if oid not in done_at:
            live.add(oid)
        elif op[0] in ("notify", "connect") and done_at[oid][1] == "returned":
            if not any(st[0] in ("unsub", "stop") and st[1] == oid and i > done_at[oid][0] for i, st in enumerate(story)):
                live.add(oid)
    if not live and steps and steps[-1][1]:
        return ("C16/left-subscribed", f"every operation has finished, handlers still registered: {steps[-1][1]}")
    return None


# -------------------------------------------------------------------------------------------------------------- stories
def rand_msg(rng, ids, bias=None):
    k = rng.choice(["rr", "rr", "wr", "nr", "ge", "ge", "cn0", "cn1", "pr", "ur", "cc", "nd", "nd", "sv", "sd"])
    if bias and rng.random() < 0.6:
        a, h = bias
        if rng.random() < 0.35:
            a = rng.choice(ADDRS)
        if rng.random() < 0.35:
            h = rng.choice(HANDLES)
    else:
        a, h = rng.choice(ADDRS), rng.choice(HANDLES)
    ids[0] += 1
    return (k, a, h if k in ("rr", "wr", "nr", "ge", "nd") else 0, ids[0])


def rand_op(rng):
    k = rng.choice(["read", "read", "readdesc", "write", "writedesc", "notify", "notify", "pair", "unpair", "clear",
                    "disconnect", "services", "connect", "connect", "writenr", "writedescnr"])
    a, h = rng.choice(ADDRS), rng.choice(HANDLES)
    t = rng.choice([None, 2, 3, 5])
    if k in HANDLE_RQ:
        return (k, a, h, t)
    if k in ("writenr", "writedescnr"):
        return (k, a, h)
    if k in DEVICE_RQ or k == "disconnect":
        return (k, a, t)
    if k == "services":
        return (k, a)
    if k == "notify":
        return (k, a, h, t)
    return (k, a, rng.random() < 0.3, rng.choice([0, 0, 4, 5, 63]), rng.choice([None, 2, 4]), rng.choice([None, 1, 3]))


def gen_story(rng):
    ids = [100]
    story = []
    now = 0
    nops = 0
    ops = {}
    for _ in range(rng.randrange(3, 14)):
        r = rng.random()
        if r < 0.35 and nops < 6:
            nops += 1
            op = rand_op(rng)
            ops[nops] = op
            story.append(("op", nops, op))
        elif r < 0.80:
            bias = None
            if ops and rng.random() < 0.8:
                o = ops[rng.choice(list(ops))]
                bias = (o[1], o[2] if len(o) > 2 and o[0] in list(HANDLE_RQ) + ["notify", "writenr", "writedescnr"] else 0)
            story.append(("feed", [rand_msg(rng, ids, bias) for _ in range(rng.choice([1, 1, 1, 2, 3]))]))
        elif r < 0.90:
            now += rng.choice([1, 1, 2, 3, 5, 10, 30])
            story.append(("t", now))
        elif r < 0.94 and ops:
            story.append(("cancel", rng.choice(list(ops))))
        elif r < 0.98 and ops:
            story.append(("unsub", rng.choice(list(ops))))
        elif ops:
            story.append(("stop", rng.choice(list(ops))))
    # let everything end: time passes beyond every deadline, live subscriptions are released
    story.append(("t", now + 61))
    story.append(("t", now + 122))
    for oid, op in ops.items():
        if op[0] in ("notify", "connect"):
            story.append(("unsub", oid))
    return expand_time(story)


def expand_time(story):
    """time moves one second at a time, so that every timer fires at a step of its own"""
    out = []
    now = 0
    for st in story:
        if st[0] == "t":
            while now < st[1]:
                now += 1
                out.append(("t", now))
        else:
            out.append(st)
    return out


def systematic(tier, rng):
    """three concurrent handle operations; every order of a set of device messages around them"""
    pool = [("rr", A1, 1), ("rr", A1, 7), ("rr", A2, 1), ("ge", A1, 1), ("ge", A1, 7), ("ge", A2, 1), ("cn0", A1, 0), ("cn1", A2, 0),
            ("wr", A1, 1), ("nr", A1, 1), ("nd", A1, 1), ("rr", A1, 0)]
    opsets = [
        [("read", A1, 1, 5), ("read", A1, 7, 5), ("read", A2, 1, 5)],
        [("read", A1, 1, 5), ("write", A1, 1, 5), ("notify", A1, 1, 5)],
        [("readdesc", A1, 0, 5), ("read", A1, 1, 5), ("writedesc", A2, 1, 5)],
    ]
    stories = []
    k = 3
    for ops in opsets:
        perms = list(itertools.permutations(range(len(pool)), k))
        if tier == "quick":
            perms = rng.sample(perms, 120)
        for perm in perms:
            msgs = [(pool[j][0], pool[j][1], pool[j][2], 200 + j) for j in perm]
            chunking = rng.choice([[1, 1, 1], [2, 1], [1, 2], [3]])
            story = [("op", i + 1, op) for i, op in enumerate(ops)]
            pos = 0
            for c in chunking:
                story.append(("feed", msgs[pos:pos + c]))
                pos += c
            story += [("t", 6), ("unsub", 3)]
            stories.append(expand_time(story))
    return stories


def shared_characteristic_stories():
    """two (three) notify subscriptions for one characteristic: the second fails / is stopped / is removed - the first goes on"""
    out = []
    for second_ends in ("gatt-error", "stop", "unsub", "timeout", "stays"):
        st = [("op", 1, ("notify", A1, 1, 5)), ("feed", [("nr", A1, 1, 401)]), ("feed", [("nd", A1, 1, 402)]), ("op", 2, ("notify", A1, 1, 5))]
        if second_ends == "gatt-error":
            st += [("feed", [("ge", A1, 1, 403)])]
        elif second_ends == "timeout":
            st += [("t", 6)]
        else:
            st += [("feed", [("nr", A1, 1, 404)])]
            if second_ends in ("stop", "unsub"):
                st += [(second_ends, 2)]
        st += [("feed", [("nd", A1, 1, 405)]), ("feed", [("nd", A1, 7, 406), ("nd", A2, 1, 407)]), ("t", 7), ("feed", [("nd", A1, 1, 408)]), ("unsub", 1)]
        if second_ends == "stays":
            st += [("feed", [("nd", A1, 1, 409)]), ("unsub", 2)]
        out.append(expand_time(st))
    return out


def connect_stories():
    out = []
    for a, other in ((A1, A2), (A2, A1)):
        for t, dt in ((2, 1), (None, None), (3, 3), (2, 0)):
            T = t if t is not None else 30
            for extra in ([], [("feed", [("cn1", other, 0, 301)])], [("feed", [("ge", a, 1, 302), ("rr", a, 1, 303)])]):
                for tail in ([], [("feed", [("cn0", a, 0, 304)])], [("feed", [("cn0", other, 0, 305)])], [("feed", [("cn1", a, 0, 306)])]):
                    out.append(expand_time([("op", 1, ("connect", a, False, 0, t, dt))] + extra + [("t", T)] + tail + [("t", T + 25), ("unsub", 1)]))
    return out


def shrink(story, fails):
    cur = list(story)
    changed = True
    while changed:
        changed = False
        for i in range(len(cur) - 1, -1, -1):
            cand = cur[:i] + cur[i + 1:]
            if cur[i][0] == "op" and any(s[0] in ("cancel", "unsub", "stop") and s[1] == cur[i][1] for s in cand):
                continue
            if cur[i][0] == "t" and any(s[0] == "t" for s in cur[i + 1:]):
                # keep time contiguous: drop only trailing seconds
                continue
            try:
                if fails(cand):
                    cur = cand
                    changed = True
            except Exception:
                pass
        for i, st in enumerate(cur):
            if st[0] == "feed" and len(st[1]) > 1:
                for j in range(len(st[1])):
                    cand = cur[:i] + [("feed", st[1][:j] + st[1][j + 1:])] + cur[i + 1:]
                    try:
                        if fails(cand):
                            cur = cand
                            changed = True
                            break
                    except Exception:
                        pass
    return cur


def judge(story):
    steps = run_story(story)
    return steps, predicate(story, steps)


def handler_census(cli):
    conn = priv(cli, "_connection")
    return {k.__name__: len(v) for k, v in priv(conn, "_message_handlers").items() if len(v)}


def refused_operation_probe():
    """Operations called with a handle / address the wire cannot carry (a float, a negative or too large number, text): whichever way
    such a call ends, once it has ended nothing of it is subscribed any more. Returns a list of problems."""
    async def go(loop):
        net = simnet.Net(loop)
        problems = []
        with net.patched():
            cli, tr = await simnet.connected_client(loop, net)
            base = handler_census(cli)
            bad_values = [42.5, 42.0, 1 << 32, -1, "x", 1 << 70]
            ops = {
                "bluetooth_gatt_start_notify": lambda a, h: cli.bluetooth_gatt_start_notify(a, h, lambda *x: None, timeout=2.0),
                "bluetooth_gatt_read": lambda a, h: cli.bluetooth_gatt_read(a, h, timeout=2.0),
                "bluetooth_gatt_write": lambda a, h: cli.bluetooth_gatt_write(a, h, b"\x01", True, timeout=2.0),
                "bluetooth_gatt_read_descriptor": lambda a, h: cli.bluetooth_gatt_read_descriptor(a, h, timeout=2.0),
                "bluetooth_gatt_write_descriptor": lambda a, h: cli.bluetooth_gatt_write_descriptor(a, h, b"\x01", timeout=2.0, wait_for_response=True),
            }
            for name, mk in ops.items():
                for which in ("handle", "address"):
                    for bv in bad_values:
                        a, h = (A1, bv) if which == "handle" else (bv, 7)
                        try:
                            t = asyncio.ensure_future(mk(a, h))
                        except Exception:  # noqa: BLE001
                            continue
                        await simnet.drain(loop)
                        if not t.done():
                            await simnet.advance(loop, by=3.0)
                        if not t.done():
                            t.cancel()
                            await simnet.drain(loop)
                        outcome = "cancelled" if t.cancelled() else "ok" if t.exception() is None else type(t.exception()).__name__
                        if outcome == "ok" and name == "bluetooth_gatt_start_notify":
                            t.result()[1]()
                        left = handler_census(cli)
                        if left != base:
                            extra = {k: v - base.get(k, 0) for k, v in left.items() if v != base.get(k, 0)}
                            problems.append(f"{name}({which}={bv!r}) ended with {outcome} and left handlers subscribed: {extra}")
                            base = left
            await cli.disconnect(force=True)
            await simnet.drain(loop)
        return problems
    return simnet.run(go)


def self_unsubscribe_probe(kind):
    """The only subscriber of a message type removes itself from inside its callback - a one-shot notification ('notify'), or the
    connection-state callback of a peripheral that disconnected ('connstate') - while a read on another handle and a write on another
    address are pending, their responses right behind it in the same read. Each of those completes with its own result and the
    session stays up. Returns a list of problems."""
    async def go(loop):
        from aioesphomeapi import api_pb2 as pb
        net = simnet.Net(loop)
        problems = []
        with net.patched():
            cli, tr = await simnet.connected_client(loop, net)
            got = []
            box = {}
            if kind == "notify":
                def on_notify(handle, data):
                    got.append(bytes(data))
                    box["remove"]()
                t = asyncio.ensure_future(cli.bluetooth_gatt_start_notify(A1, 1, on_notify, timeout=5.0))
                await simnet.drain(loop)
                tr.feed(simnet.plain_msg(pb.BluetoothGATTNotifyResponse(address=A1, handle=1)))
                await simnet.drain(loop)
                box["remove"] = (await t)[1]
                first = pb.BluetoothGATTNotifyDataResponse(address=A1, handle=1, data=b"one-shot")
            else:
                def on_state(connected, mtu, error):
                    got.append(connected)
                    if not connected:
                        box["unsub"]()
                t = asyncio.ensure_future(cli.bluetooth_device_connect(A1, on_state, timeout=5.0))
                await simnet.drain(loop)
                tr.feed(simnet.plain_msg(pb.BluetoothDeviceConnectionResponse(address=A1, connected=True, mtu=23)))
                await simnet.drain(loop)
                box["unsub"] = await t
                first = pb.BluetoothDeviceConnectionResponse(address=A1, connected=False, error=19)
            rd = asyncio.ensure_future(cli.bluetooth_gatt_read(A2, 2, timeout=5.0))
            wr = asyncio.ensure_future(cli.bluetooth_gatt_write(A2, 3, b"\x01", True, timeout=5.0))
            await simnet.drain(loop)
            r = tr.feed(simnet.plain_msg(first) + simnet.plain_msg(pb.BluetoothGATTReadResponse(address=A2, handle=2, data=b"r"))
                        + simnet.plain_msg(pb.BluetoothGATTWriteResponse(address=A2, handle=3)))
            await simnet.drain(loop)
            if isinstance(r, BaseException):
                problems.append(f"{type(r).__name__}({r}) escaped from data_received")
            for name, t2, want in (("read(A2, 2)", rd, b"r"), ("write(A2, 3)", wr, None)):
                if not t2.done():
                    problems.append(f"{name} still pending although its response arrived")
                    t2.cancel()
                elif t2.exception() is not None:
                    problems.append(f"{name} failed with {type(t2.exception()).__name__}: {str(t2.exception())[:60]}")
                elif want is not None and bytes(t2.result()) != want:
                    problems.append(f"{name} returned {t2.result()!r}")
            if len(got) != (1 if kind == "notify" else 2):
                problems.append(f"the self-removing callback was invoked with {got}")
            conn = priv(cli, "_connection")
            if conn is None or not conn.is_connected:
                problems.append("the session did not survive")
            else:
                await cli.disconnect(force=True)
            await simnet.drain(loop)
        return problems
    return simnet.run(go)


def raising_state_callback_probe(n_reads):
    """A connected peripheral with `n_reads` GATT reads in flight; the device reports that the peripheral's connection dropped and the
    application's connection-state callback raises. Whatever becomes of the session, every read in flight on that address ends
    at once with an error (the connection-dropped error, or the session's error): none stays pending. Returns (outcomes, pending)."""
    async def go(loop):
        from aioesphomeapi import api_pb2 as pb
        net = simnet.Net(loop)
        loop.set_exception_handler(lambda l, ctx: None)
        with net.patched():
            cli, tr = await simnet.connected_client(loop, net)

            def on_state(connected, mtu, error):
                if not connected:
                    raise KeyError("application bookkeeping failed")
            t = asyncio.ensure_future(cli.bluetooth_device_connect(A1, on_state, timeout=5.0))
            await simnet.drain(loop)
            tr.feed(simnet.plain_msg(pb.BluetoothDeviceConnectionResponse(address=A1, connected=True, mtu=23)))
            await simnet.drain(loop)
            await t
            reads = [asyncio.ensure_future(cli.bluetooth_gatt_read(A1, 10 + k, timeout=30.0)) for k in range(n_reads)]
            await simnet.drain(loop)
            tr.feed(simnet.plain_msg(pb.BluetoothDeviceConnectionResponse(address=A1, connected=False, error=19)))
            await simnet.drain(loop)
            pending = sum(1 for r in reads if not r.done())
            outs = sorted({("pending" if not r.done() else "cancelled" if r.cancelled() else type(r.exception()).__name__ if r.exception() else "result") for r in reads})
            for r in reads:
                if not r.done():
                    r.cancel()
            try:
                await cli.disconnect(force=True)
            except Exception:  # noqa: BLE001
                pass
            await simnet.drain(loop)
        return outs, pending
    return simnet.run(go)


def double_unsubscribe_probe(kind):
    """An unsubscribe function called a second time (the connect callback's `unsub` twice; stop_notify() followed by its
    remove_callback) while ANOTHER operation is the only remaining subscriber of that message type: the other operation is not
    disturbed - a read in flight on peripheral B still fails when B's connection drops, notify data for B still arrives.
    Returns a list of problems."""
    async def go(loop):
        from aioesphomeapi import api_pb2 as pb
        net = simnet.Net(loop)
        problems = []
        with net.patched():
            cli, tr = await simnet.connected_client(loop, net)
            if kind == "connect-unsub":
                t = asyncio.ensure_future(cli.bluetooth_device_connect(A1, lambda *a: None, timeout=5.0))
                await simnet.drain(loop)
                tr.feed(simnet.plain_msg(pb.BluetoothDeviceConnectionResponse(address=A1, connected=True, mtu=23)))
                await simnet.drain(loop)
                unsub = await t
                rd = asyncio.ensure_future(cli.bluetooth_gatt_read(A2, 2, timeout=30.0))
                await simnet.drain(loop)
                unsub()
                unsub()
                tr.feed(simnet.plain_msg(pb.BluetoothDeviceConnectionResponse(address=A2, connected=False, error=19)))
                await simnet.drain(loop)
                if not rd.done():
                    problems.append("a read in flight on another peripheral is still pending after that peripheral's connection dropped")
                    rd.cancel()
                elif rd.cancelled() or type(rd.exception()).__name__ != "BluetoothConnectionDroppedError":
                    problems.append(f"the read on the other peripheral ended with {rd.exception()!r}")
            else:
                got_a, got_b = [], []
                ta = asyncio.ensure_future(cli.bluetooth_gatt_start_notify(A1, 1, lambda h, d: got_a.append(bytes(d)), timeout=5.0))
                tb = asyncio.ensure_future(cli.bluetooth_gatt_start_notify(A2, 2, lambda h, d: got_b.append(bytes(d)), timeout=5.0))
                await simnet.drain(loop)
                tr.feed(simnet.plain_msg(pb.BluetoothGATTNotifyResponse(address=A1, handle=1)) + simnet.plain_msg(pb.BluetoothGATTNotifyResponse(address=A2, handle=2)))
                await simnet.drain(loop)
                stop_a, remove_a = await ta
                await tb
                await stop_a()
                remove_a()
                tr.feed(simnet.plain_msg(pb.BluetoothGATTNotifyDataResponse(address=A2, handle=2, data=b"b1")))
                await simnet.drain(loop)
                if got_b != [b"b1"] or got_a:
                    problems.append(f"notify data for the other characteristic arrived as {got_b} (and {got_a} at the stopped one)")
            conn = priv(cli, "_connection")
            if conn is None or not conn.is_connected:
                problems.append("the session did not survive")
            else:
                await cli.disconnect(force=True)
            await simnet.drain(loop)
        return problems
    return simnet.run(go)


def run(rep, tier, seed):
    rng = random.Random(seed)
    rep.coverage["rule"] = (
        "stories = up to 6 concurrent operations out of {read, read descriptor, write, write descriptor (with / without response), notify, pair, unpair, "
        "clear cache, disconnect, get services, connect} over 2 addresses x handles {0, 1, 7}, device messages of all 12 kinds (biased to the "
        "operations' own address / handle and near misses) in chunks of 1-3, time in 1 s steps past every deadline, cancellations, unsubscribe "
        "and stop calls; plus every order of 3 out of 12 messages around three concurrent handle operations, and the connect time-out family; "
        "non-trivial = at least two operations overlap and a foreign or near-miss message arrives while one is pending; distinct by story")
    proofs_ok = rep.proofs(VFILE)
    ok, log = common.build_driver()
    if not ok:
        raise RuntimeError("driver build failed: " + log[-2000:])
    load_consts()
    common.setup_impl_path()
    stories = systematic(tier, rng) + connect_stories() + shared_characteristic_stories()
    for _ in range(400 if tier == "quick" else 6000):
        stories.append(gen_story(rng))
    mout = common.run_driver(["ble " + " ".join(model_words(s)) for s in stories])
    disagreements = []
    for story, mline in zip(stories, mout):
        steps = run_story(story)
        nops = sum(1 for s in story if s[0] == "op")
        foreign = any(s[0] == "feed" for s in story)
        rep.case(json.dumps(story), nontrivial=nops >= 2 and foreign,
                 sample={"story": [s for s in story if s[0] != "t"][:8], "outcomes": [e for ev, _ in steps for e in ev if e[0] == "D"][:6]} if rng.random() < 0.01 else None)
        rep.bump("ops:%d" % nops)
        for s in story:
            if s[0] == "op":
                rep.bump("op:" + s[2][0])
            elif s[0] == "feed":
                for m in s[1]:
                    rep.bump("msg:" + m[0])
        for ev, _ in steps:
            for e in ev:
                if e[0] == "D":
                    rep.bump("outcome:" + e[2].split("/")[0])
        rep.coverage["traces_validated_against_impl"] += 1
        bad = predicate(story, steps)
        if bad is not None:
            small = shrink(story, lambda s: (judge(s)[1] or ("", ""))[0] == bad[0])
            ssteps, sbad = judge(small)
            rep.violation(bad[0], (sbad or bad)[1], {"kind": "impl-story", "story": small})
            continue
        diff = compare(story, steps, mline)
        if diff is not None:
            disagreements.append({"story": story, "difference": diff[1]})
    problems = refused_operation_probe()
    rep.case(("refused-operations",), True, sample={"refused_operations": problems[:3]})
    rep.bump("probe:refused-operations")
    if problems:
        rep.violation("C16/left-subscribed", f"{problems[0]}; {len(problems)} such call(s): a finished operation leaves nothing subscribed", {"kind": "refused-operations"})
    for kind in ("connect-unsub", "notify-stop-remove"):
        problems = double_unsubscribe_probe(kind)
        rep.case(("double-unsubscribe", kind), True, sample={"double_unsubscribe": kind, "problems": problems[:2]})
        rep.bump("probe:double-unsubscribe")
        if problems:
            rep.violation("C16/cross-talk", f"an unsubscribe function called a second time ({kind}) while another operation is the only subscriber left: {problems[0]}",
                          {"kind": "double-unsubscribe", "which": kind})
    for n_reads in (1, 4, 12):
        outs, pending = raising_state_callback_probe(n_reads)
        rep.case(("raising-state-callback", n_reads), True, sample={"raising_state_callback": n_reads, "outcomes": outs, "pending": pending})
        rep.bump("probe:raising-state-callback")
        if pending or "result" in outs:
            rep.violation("C16/not-failed-on-drop", f"peripheral with {n_reads} read(s) in flight, the device reports its connection dropped and the application's connection-state "
                          f"callback raises: {pending} read(s) still pending, outcomes {outs} - a connection-state change for its address fails the operation",
                          {"kind": "raising-state-callback", "reads": n_reads})
    for kind in ("notify", "connstate"):
        problems = self_unsubscribe_probe(kind)
        rep.case(("self-unsubscribe", kind), True, sample={"self_unsubscribe": kind, "problems": problems[:3]})
        rep.bump("probe:self-unsubscribe")
        if problems:
            rep.violation("C16/cross-talk", f"the only {'notify-data' if kind == 'notify' else 'connection-state'} subscriber removes itself from inside its callback while a read on another "
                          f"handle and a write on another address are pending (responses in the same read): {problems[0]}; {len(problems)} problem(s)", {"kind": "self-unsubscribe", "which": kind})
    rep.coverage["disagreements"] = len(disagreements)
    if disagreements and not rep.violations:
        d = disagreements[0]

        def still(s):
            ml = common.run_driver(["ble " + " ".join(model_words(s))])[0]
            return compare(s, run_story(s), ml) is not None
        small = shrink(d["story"], still)
        ml = common.run_driver(["ble " + " ".join(model_words(small))])[0]
        diff = compare(small, run_story(small), ml)
        rep.violations.append(("C16/correspondence", "Model/Ble.v and the implementation disagree: " + (diff[1] if diff else d["difference"]),
                               {"kind": "no-failing-input-found", "obligation": "correspondence Ble.bstep ~ client.py / client_callbacks.py",
                                "story": small, "disagreements": len(disagreements)}))
    if not proofs_ok and not rep.violations:
        rep.proof_broken(rep.broken[0], rep.broken[1])


def replay(path):
    common.setup_impl_path()
    load_consts()
    d = json.loads(open(path).read())["replay"]
    if d.get("kind") == "double-unsubscribe":
        problems = double_unsubscribe_probe(d["which"])
        print(problems)
        return 1 if problems else 0
    if d.get("kind") == "raising-state-callback":
        r = raising_state_callback_probe(d["reads"])
        print(r)
        return 1 if r[1] else 0
    if d.get("kind") == "refused-operations":
        problems = refused_operation_probe()
        print(problems)
        return 1 if problems else 0
    if d.get("kind") == "self-unsubscribe":
        problems = self_unsubscribe_probe(d["which"])
        print(problems)
        return 1 if problems else 0
    story = [tuple(tuple(x) if isinstance(x, list) and x and not isinstance(x[0], list) else x for x in s) for s in d["story"]]
    story = [(s[0], [tuple(m) for m in s[1]]) if s[0] == "feed" else s for s in story]
    steps = run_story(story)
    for st, (ev, counts) in zip(story, steps):
        print(st, "->", ev, counts)
    print("predicate:", predicate(story, steps))
    return 0
