"""C18 — reconnect manager: one attempt at a time, specified back-off, clean stop.

Proof: coq/Properties/C18.v about Model/Reconnect.v (labelled transition system of reconnect_logic.py over a client whose
attempt outcomes are adversarial), the back-off function for every n.
Tie: the real ReconnectLogic with a stub client and fake zeroconf under the virtual-time loop is driven by adaptive random
histories (start/stop, attempt outcomes incl. hanging ones, expected/unexpected session ends, matching/non-matching mDNS
records, timers, time); per event the observations and the manager's state must equal the extracted model's, and the
property predicate is evaluated on the implementation's log."""
from vlib.privnames import priv, has_priv, set_priv
import asyncio
import json
import random

from vlib import common, simnet

VFILE = "Properties/C18.v"
U = 1024


class FakeZc:
    def __init__(self, log):
        self.log = log
        self.listeners = []

    def async_add_listener(self, listener, question):
        self.listeners.append(listener)
        self.log.append("L1")

    def async_remove_listener(self, listener):
        if listener in self.listeners:
            self.listeners.remove(listener)
        self.log.append("L0")


class FakeAioZc:
    def __init__(self, log):
        self.zeroconf = FakeZc(log)
        self.closed = 0

    async def async_close(self):
        self.closed += 1


class StubClient:
    """What ReconnectLogic uses of APIClient; outcomes are decided by the driver."""

    def __init__(self, loop, log, zcm):
        self.loop, self.log = loop, log
        self.address = "dev.local"
        self.log_name = "dev"
        self.zeroconf_manager = zcm
        self.pending = None       # ("start"|"finish", future)
        self.on_stop = None
        self.alive = False
        self.in_flight = 0
        self.max_in_flight = 0
        self.attempt_times = []
        self.t0 = loop.time()

    def set_cached_name_if_unset(self, name):
        pass

    async def _call(self, kind):
        fut = self.loop.create_future()
        self.pending = (kind, fut)
        self.in_flight += 1
        self.max_in_flight = max(self.max_in_flight, self.in_flight)
        try:
            await fut
        except asyncio.CancelledError:
            self.log.append("AC")
            raise
        finally:
            self.in_flight -= 1
            self.pending = None

    async def start_connection(self, on_stop=None):
        from aioesphomeapi.core import APIConnectionError
        self.log.append("A")
        self.attempt_times.append(round((self.loop.time() - self.t0) * U))
        if self.alive:
            raise APIConnectionError("Already connected")
        self.on_stop = on_stop
        await self._call("start")

    async def finish_connection(self, login=False):
        await self._call("finish")
        self.alive = True


class Run:
    def __init__(self, loop):
        from aioesphomeapi.reconnect_logic import ReconnectLogic
        from aioesphomeapi.zeroconf import ZeroconfManager
        self.loop = loop
        self.log = []
        self.aiozc = FakeAioZc(self.log)
        zcm = ZeroconfManager()
        set_priv(zcm, "_aiozc", self.aiozc)      # an application-supplied instance (a fake engine, hence not through set_instance)
        self.cli = StubClient(loop, self.log, zcm)

        async def on_connect():
            self.log.append("C")

        async def on_disconnect(expected):
            self.log.append("D%d" % int(bool(expected)))

        async def on_connect_error(err):
            self.log.append("E")
        self.rl = ReconnectLogic(client=self.cli, on_connect=on_connect, on_disconnect=on_disconnect, on_connect_error=on_connect_error, name="dev")
        self.stop_task = None
        self.timer_seen = None
        self.last_label = None
        self.t0 = loop.time()
        self.attempt_times = []

    def units(self):
        return round((self.loop.time() - self.t0) * U)

    def state(self):
        rl = self.rl
        cstate, stopped, listening, tries = priv(rl, "_connection_state").name, int(priv(rl, "_is_stopped")), int(priv(rl, "_zc_listening")), priv(rl, "_tries")
        return f"{cstate},{stopped}{listening},{tries}"

    def timer(self):
        t = priv(self.rl, "_connect_timer")
        if t is None or t.cancelled():
            return None
        if t.when() < self.loop.time() - 1e-9:
            return None
        return round((t.when() - self.t0) * U)

    def enabled(self):
        rl, cli = self.rl, self.cli
        out = []
        stopping = self.stop_task is not None and not self.stop_task.done()
        if cli.pending is None and not stopping:
            out.append("start")
        if not stopping:
            out.append("stop")
        t = self.timer()
        if t is not None and self._timer_armed():
            out.append("timer")
            if t > self.units():
                out.append("adv")
        elif t is None:
            out.append("adv")
        # records arrive whether or not the manager listens (whether they reach it is the manager's business)
        out += ["record", "record"] if self.aiozc.zeroconf.listeners else ["record"]
        if cli.pending is not None:
            k = cli.pending[0]
            if k == "start":
                out += ["startdone:err", "startdone:auth"] + (["startdone:ok"] * 3 if not cli.alive else [])
            else:
                out += ["finishdone:ok", "finishdone:ok", "finishdone:err", "finishdone:auth"]
        if cli.alive and cli.pending is None:
            out += ["end:0", "end:1"]
        return out

    def _timer_armed(self):
        t = priv(self.rl, "_connect_timer")
        return t is not None and not t.cancelled() and t in self.loop._scheduled

    async def do(self, label, rng, exact=None):
        """Performs the event; returns the model labels it corresponds to. `exact` replays a recorded model label list."""
        from aioesphomeapi.core import APIConnectionError, InvalidAuthAPIError
        loop, rl, cli = self.loop, self.rl, self.cli
        n0 = len(self.log)
        before_timer = self.timer() if self._timer_armed() else None
        before_handle = priv(self.rl, "_connect_timer")
        labels = [label]
        if label == "start":
            await rl.start()
        elif label == "stop":
            self.stop_task = loop.create_task(rl.stop())
            self.stop_task.add_done_callback(lambda f: self.log.append("S"))
        elif label == "timer":
            d = self.timer()
            labels = ([f"adv:{d}"] if d > self.units() else []) + ["timer"]
            await simnet.advance(loop, to=self.t0 + d / U)
        elif label == "adv":
            d = self.timer() if self._timer_armed() else None
            cur = self.units()
            t = cur + rng.choice([1, 512, 1024, 3000, 70000])
            if d is not None:
                t = min(t, d - 1) if d - 1 > cur else cur
            if exact is not None:
                t = int(exact[0][4:])
            labels = [f"adv:{t}"]
            loop._vt = self.t0 - loop.base + t / U
        elif label.startswith("record"):
            import zeroconf
            from zeroconf import DNSPointer, DNSAddress
            from zeroconf.const import _TYPE_PTR, _TYPE_A, _CLASS_IN
            kind = rng.random()
            if exact is not None:
                kind = 0.9 if label == "record:other" else 0.0
            matching = kind < 0.7
            self.last_label = "record" if matching else "record:other"
            labels = ["record"] if (matching and self.aiozc.zeroconf.listeners) else []
            if kind < 0.4:
                rec = DNSPointer("_esphomelib._tcp.local.", _TYPE_PTR, _CLASS_IN, 1000, "dev._esphomelib._tcp.local.")
            elif kind < 0.7:
                rec = DNSAddress("dev.local.", _TYPE_A, _CLASS_IN, 1000, b"\x0a\x00\x00\x01")
            else:
                rec = rng.choice([DNSPointer("_esphomelib._tcp.local.", _TYPE_PTR, _CLASS_IN, 1000, "other._esphomelib._tcp.local."),
                                  DNSAddress("other.local.", _TYPE_A, _CLASS_IN, 1000, b"\x0a\x00\x00\x02")])
            # records reach the manager through the listener it registered with zeroconf - and only then
            for listener in list(self.aiozc.zeroconf.listeners):
                listener.async_update_records(None, 0.0, [zeroconf.RecordUpdate(rec, None)])
        elif label.startswith("startdone") or label.startswith("finishdone"):
            r = label.split(":")[1]
            fut = cli.pending[1]
            if r == "ok":
                fut.set_result(None)
            elif r == "auth":
                fut.set_exception(InvalidAuthAPIError("bad password"))
            else:
                fut.set_exception(APIConnectionError("nope"))
        elif label.startswith("end"):
            expected = label.endswith("1")
            cli.alive = False
            loop.create_task(cli.on_stop(expected))
        await simnet.drain(loop)
        evs = self.log[n0:]
        del self.log[n0:]
        after_timer = self.timer() if self._timer_armed() else None
        if after_timer is not None and (after_timer != before_timer or priv(self.rl, "_connect_timer") is not before_handle):
            evs.append(f"T{after_timer}")
        return labels, evs


def gen_and_run(rng, length):
    def go(loop):
        async def inner():
            run = Run(loop)
            steps = []     # (label, model labels, events, state)
            for _ in range(length):
                en = run.enabled()
                if not en:
                    break
                label = rng.choice(en)
                n_att = len(run.cli.attempt_times)
                run.last_label = None
                mlabels, evs = await run.do(label, rng)
                steps.append((run.last_label or label, mlabels, evs, run.state(), run.cli.attempt_times[n_att:]))
            final = {"max_in_flight": run.cli.max_in_flight, "closed_app_zc": run.aiozc.closed, "listeners": len(run.aiozc.zeroconf.listeners)}
            if run.stop_task is not None and not run.stop_task.done():
                run.stop_task.cancel()
            for t in asyncio.all_tasks(loop):
                if t is not asyncio.current_task():
                    t.cancel()
            return steps, final
        return inner()
    return simnet.run(go)


def run_recorded(recorded):
    """recorded: list of (label, model labels)."""
    rng = random.Random(0)

    def go(loop):
        async def inner():
            run = Run(loop)
            steps = []
            for label, mls in recorded:
                run.last_label = None
                mlabels, evs = await run.do(label, rng, exact=mls)
                steps.append((run.last_label or label, mlabels, evs, run.state(), []))
            for t in asyncio.all_tasks(loop):
                if t is not asyncio.current_task():
                    t.cancel()
            return steps
        return inner()
    return simnet.run(go)


def failures_after(failures, label, evs):
    """Consecutive failed attempts after this event (start() on a stopped/disconnected manager resets, a session resets)."""
    f = failures
    if label == "start" and "A" in evs:
        f = 0
    if "C" in evs:
        f = 0
    if "E" in evs:
        f = 100 if label.endswith(":auth") else f + 1
    return f


def predicate(steps, final):
    v = []
    if final["max_in_flight"] > 1:
        v.append(("C18/two-attempts", f"{final['max_in_flight']} client connect calls were in flight at the same time"))
    if final["closed_app_zc"]:
        v.append(("C18/closed-app-zeroconf", "the application's zeroconf instance was closed by the manager"))
    log = [e for _, _, evs, _, _ in steps for e in evs]
    # on_connect / on_disconnect strictly alternate, starting with connect
    cd = [e for e in log if e == "C" or e.startswith("D")]
    for i, e in enumerate(cd):
        if (i % 2 == 0) != (e == "C"):
            v.append(("C18/callback-order", f"on_connect/on_disconnect calls do not alternate: {cd[:i + 1]}"))
            break
    # timing of every attempt start
    now = 0
    tries = 0
    stopped_after = None
    expect_attempt_at = None
    failures = 0
    started = stopped = in_flight = alive = False
    last_outcome = None            # of the latest attempt / session: "E" failed attempt, "C" connected, "D" session ended
    wait_from = None               # (time, length, what) of the wait the latest failure / expected disconnect started
    listening = False              # a listener is registered with zeroconf (add / remove calls seen from outside)
    for i, (label, mlabels, evs, state, att) in enumerate(steps):
        before = now
        # waiting to retry = started, not stopped, nothing in flight, no session, and the latest attempt failed
        # (the 5 s cool-down after an expected disconnect is a deliberate quiet period, not a wait for the device)
        waiting_before = started and not stopped and not in_flight and not alive and last_outcome == "E"
        if label == "record" and waiting_before and "A" not in evs:
            v.append(("C18/record-ignored", f"a matching mDNS record arrived while the manager was waiting to retry (event {i}) and no attempt was started"))
        for e in evs:
            if e in ("E", "C"):
                last_outcome = e
            elif e in ("D0", "D1"):
                last_outcome = "D"
            elif e == "L1":
                listening = True
            elif e == "L0":
                listening = False
        if label == "start":
            started, stopped = True, False
        for e in evs:
            if e == "A":
                in_flight = True
            elif e in ("E", "AC"):
                in_flight = False
            elif e == "C":
                in_flight, alive = False, True
            elif e in ("D0", "D1"):
                alive = False
            elif e == "S":
                stopped = True
        for ml in mlabels:
            if ml.startswith("adv:"):
                now = int(ml[4:])
        if "S" in evs:
            stopped_after = i
        if stopped_after is not None and i > stopped_after and label != "start" and "A" in evs:
            v.append(("C18/attempt-after-stop", f"a connect attempt started after stop() had returned (event {i}: {label})"))
        if label == "start":
            stopped_after = None
        for e in evs:
            if e.startswith("T"):
                d = int(e[1:])
                if "E" in evs:
                    # back-off after the n-th consecutive failure (counted here, not read from the manager)
                    n = failures_after(failures, label, evs)
                    want = (60 if n >= 100 else min(round(1.8 ** n), 60)) * U
                    if d - now != want:
                        v.append(("C18/backoff", f"after failure #{n} the retry was scheduled {(d - now) / U} s later, expected {want / U} s"))
                elif any(x == "D1" for x in evs):
                    if d - now != 5 * U:
                        v.append(("C18/cooldown", f"after an expected disconnect the retry was scheduled {(d - now) / U} s later, expected 5 s"))
        # the wait that a failure (or an expected disconnect) starts is the wait that ends it: when the next attempt is started
        # by the retry timer, it comes exactly the back-off (cool-down) after that failure - not a timer left over from before
        if "E" in evs and "A" not in evs:
            nfail = failures_after(failures, label, evs)
            wait_from = (now, (60 if nfail >= 100 else min(round(1.8 ** nfail), 60)) * U, f"failure #{nfail}")
        elif any(x == "D1" for x in evs) and "A" not in evs:
            wait_from = (now, 5 * U, "an expected disconnect")
        elif "A" in evs:
            if label == "timer" and wait_from is not None and now - wait_from[0] != wait_from[1]:
                v.append(("C18/backoff", f"the retry timer started an attempt {(now - wait_from[0]) / U} s after {wait_from[2]}, expected {wait_from[1] / U} s"))
            wait_from = None
        if label in ("stop", "start"):
            wait_from = None
        # every attempt has a cause, at the right time
        if label == "adv" and att:
            v.append(("C18/attempt-without-cause", f"a connect attempt started at {att[0] / U} s while the manager was only waiting (no timer due, no record, no call)"))
        if label == "timer":
            due = now
            bad = [t for t in att if t != due]
            if bad:
                v.append(("C18/attempt-at-wrong-time", f"the retry timer was due at {due / U} s but an attempt started at {bad[0] / U} s"))
        if stopped_after is not None and i >= stopped_after and label != "start" and listening and "S" in [e for _, _, ev2, _, _ in steps[:i + 1] for e in ev2]:
            v.append(("C18/listening-after-stop", f"stop() has returned (event {stopped_after}) and the manager is still registered as an mDNS listener (event {i}: {label})"))
            stopped_after = None
        failures = failures_after(failures, label, evs) if ("E" in evs or "C" in evs or label == "start") else failures
        if "D0" in evs and "A" not in evs and state.split(",")[1][0] == "0" and label.startswith("end"):
            v.append(("C18/unexpected-disconnect-no-retry", "no immediate attempt after an unexpected disconnect"))
        if label == "record:other" and evs:
            v.append(("C18/non-matching-record", f"a non-matching mDNS record caused {evs}"))
        if label == "record" and mlabels and state.startswith(("HANDSHAKING", "READY")) and "A" in evs:
            v.append(("C18/record-while-connected", "an mDNS record triggered an attempt while handshaking / connected"))
    return v


def slow_hook_probe(n_failures, record_at, stage="start"):
    """Application callbacks that take their time (they await): on_connect_error suspends until the probe lets it go, and a matching
    mDNS record arrives while the hook of failure number `record_at` is suspended. Returns (gaps between the end of each failure and the
    next attempt in units, events)."""
    def go(loop):
        async def inner():
            import zeroconf
            from zeroconf import DNSPointer
            from zeroconf.const import _TYPE_PTR, _CLASS_IN
            from aioesphomeapi.core import APIConnectionError
            from aioesphomeapi.reconnect_logic import ReconnectLogic
            run = Run(loop)
            log = run.log
            gate = {"fut": None}

            async def on_connect():
                log.append("C")

            async def on_disconnect(expected):
                log.append("D")

            async def on_connect_error(err):
                log.append("E")
                gate["fut"] = loop.create_future()
                try:
                    await gate["fut"]
                except asyncio.CancelledError:
                    log.append("Ecancelled")
                    raise
                log.append("Edone")
            run.rl = ReconnectLogic(client=run.cli, on_connect=on_connect, on_disconnect=on_disconnect, on_connect_error=on_connect_error, name="dev")
            rl, cli = run.rl, run.cli
            await rl.start()
            await simnet.drain(loop)
            gaps = []
            for k in range(1, n_failures + 1):
                if cli.pending is None:
                    return gaps, list(log), f"no attempt in flight before failure {k}"
                if stage == "finish" and cli.pending[0] == "start":
                    cli.pending[1].set_result(None)
                    await simnet.drain(loop)
                n_attempts = len(cli.attempt_times)
                cli.pending[1].set_exception(APIConnectionError("nope"))
                await simnet.drain(loop)
                if k == record_at:
                    rec = DNSPointer("_esphomelib._tcp.local.", _TYPE_PTR, _CLASS_IN, 1000, "dev._esphomelib._tcp.local.")
                    for listener in list(run.aiozc.zeroconf.listeners):
                        listener.async_update_records(None, 0.0, [zeroconf.RecordUpdate(rec, None)])
                    await simnet.drain(loop)
                if len(cli.attempt_times) != n_attempts:
                    return gaps, list(log), f"a new attempt started while the error callback of failure {k} was still running"
                t_done = run.units()
                if gate["fut"] is not None and not gate["fut"].done():
                    gate["fut"].set_result(None)
                await simnet.drain(loop)
                # let time pass up to two minutes, one timer at a time
                for _ in range(10):
                    if len(cli.attempt_times) != n_attempts:
                        break
                    nt = loop.next_timer()
                    if nt is None:
                        break
                    await simnet.advance(loop, to=nt + loop.base)
                if len(cli.attempt_times) == n_attempts:
                    return gaps, list(log), f"no attempt after failure {k}"
                gaps.append(cli.attempt_times[-1] - t_done)
            for t in asyncio.all_tasks(loop):
                if t is not asyncio.current_task():
                    t.cancel()
            return gaps, list(log), None
        return inner()
    return simnet.run(go)


class LiveAioZc:
    """AsyncZeroconf stand-in for the integration probes: a closed engine delivers nothing any more."""
    instances = []

    def __init__(self, zc=None, **kw):
        self.log = []
        self.zeroconf = FakeZc(self.log)
        self.closed = 0
        LiveAioZc.instances.append(self)

    async def async_close(self):
        self.closed += 1
        del self.zeroconf.listeners[:]


def integration_probe(scenario):
    """The real APIClient driven by the real ReconnectLogic over SimNet.
    'drop': an established session is reset; the application's on_disconnect callback returns without ever suspending - the next
            attempt must start at once (and must not be refused);
    'record': the device is addressed by name, nothing resolves; after two failed attempts a matching mDNS record arrives - the
            engine the manager listens on must still be alive and the record must trigger an attempt at once."""
    from unittest.mock import patch

    def go(loop):
        async def inner():
            import zeroconf
            from zeroconf import DNSPointer
            from zeroconf.const import _TYPE_PTR, _CLASS_IN
            from aioesphomeapi import api_pb2 as pb
            from aioesphomeapi import host_resolver as hr
            from aioesphomeapi.client import APIClient
            from aioesphomeapi.reconnect_logic import ReconnectLogic
            from checks.c20 import FakeInfo
            net = simnet.Net(loop)
            events = []
            LiveAioZc.instances = []

            async def on_connect():
                events.append("connect")

            async def on_disconnect(expected):
                events.append(f"disconnect({bool(expected)})")

            async def on_connect_error(err):
                events.append("error:" + type(err).__name__ + (":already" if "Already connected" in str(err) else ""))

            async def no_getaddrinfo(*a, **k):
                raise OSError("getaddrinfo failure")
            FakeInfo.table = {}
            FakeInfo.calls = []
            t0 = loop.time()
            with net.patched(resolver=(scenario == "drop")), patch("aioesphomeapi.zeroconf.AsyncZeroconf", LiveAioZc), \
                    patch.object(hr, "AsyncServiceInfo", FakeInfo), patch.object(loop, "getaddrinfo", no_getaddrinfo):
                cli = APIClient("dev.local" if scenario == "record" else "10.0.0.1", 6053, None)
                rl = ReconnectLogic(client=cli, on_connect=on_connect, on_disconnect=on_disconnect, on_connect_error=on_connect_error, name="dev")
                await rl.start()
                await simnet.drain(loop)
                out = {}
                if scenario == "drop":
                    tr = net.transports[-1]
                    tr.feed(simnet.plain_msg(pb.HelloResponse(api_version_major=1, api_version_minor=10, name="dev")))
                    tr.feed(simnet.plain_msg(pb.ConnectResponse(invalid_password=False)))
                    await simnet.drain(loop)
                    n_tr = len(net.transports)
                    tr.lose(ConnectionResetError("reset"))
                    await simnet.drain(loop)
                    out = {"events": list(events), "new_attempts_at_once": len(net.transports) - n_tr, "elapsed": round((loop.time() - t0) * U)}
                else:
                    # let two attempts fail (resolution finds nothing), following the back-off timers
                    for _ in range(12):
                        if sum(1 for e in events if e.startswith("error")) >= 2:
                            break
                        nt = loop.next_timer()
                        if nt is None:
                            break
                        await simnet.advance(loop, to=nt + loop.base)
                    n_err = sum(1 for e in events if e.startswith("error"))
                    n_lookups = len(FakeInfo.calls)
                    live = [z for z in LiveAioZc.instances if z.zeroconf.listeners]
                    closed_while_listening = [z.closed for z in LiveAioZc.instances if "L1" in z.log and "L0" not in z.log and z.closed]
                    rec = DNSPointer("_esphomelib._tcp.local.", _TYPE_PTR, _CLASS_IN, 1000, "dev._esphomelib._tcp.local.")
                    for z in live:
                        for listener in list(z.zeroconf.listeners):
                            listener.async_update_records(None, 0.0, [zeroconf.RecordUpdate(rec, None)])
                    await simnet.drain(loop)
                    out = {"events": list(events), "failed_attempts": n_err, "engines_with_listener": len(live),
                           "closed_while_listening": len(closed_while_listening), "lookups_after_record": len(FakeInfo.calls) - n_lookups}
                await rl.stop()
                await simnet.drain(loop)
                for t in asyncio.all_tasks(loop):
                    if t is not asyncio.current_task():
                        t.cancel()
            return out
        return inner()
    return simnet.run(go)


def app_disconnect_probe(how, slow_on, connect_pending):
    """The real APIClient driven by the real ReconnectLogic over SimNet; the APPLICATION ends the established session itself
    (client.disconnect(), graceful and acknowledged, or forced) while the manager is started. The application's on_disconnect
    callback awaits something (slow_on='disconnect'), or its on_connect callback is still running when the session ends
    (connect_pending). on_disconnect runs once for that session, to its end, with expected=True, and the next attempt starts after
    the 5 s cool-down. Returns (events, attempts started within 5.5 s, raised)."""
    from unittest.mock import patch

    def go(loop):
        async def inner():
            from aioesphomeapi import api_pb2 as pb
            from aioesphomeapi.client import APIClient
            from aioesphomeapi.reconnect_logic import ReconnectLogic
            net = simnet.Net(loop)
            events = []
            LiveAioZc.instances = []
            gate = loop.create_future()

            async def on_connect():
                events.append("connect-begin")
                if connect_pending:
                    try:
                        await gate
                    except asyncio.CancelledError:
                        events.append("connect-cancelled")
                        raise
                events.append("connect-end")

            async def on_disconnect(expected):
                events.append(f"disconnect-begin({bool(expected)})")
                if slow_on == "disconnect":
                    try:
                        await asyncio.sleep(0.25)
                    except asyncio.CancelledError:
                        events.append("disconnect-cancelled")
                        raise
                events.append("disconnect-end")

            async def on_connect_error(err):
                events.append("error:" + type(err).__name__)
            raised = None
            with net.patched(), patch("aioesphomeapi.zeroconf.AsyncZeroconf", LiveAioZc):
                cli = APIClient("10.0.0.1", 6053, None)
                rl = ReconnectLogic(client=cli, on_connect=on_connect, on_disconnect=on_disconnect, on_connect_error=on_connect_error, name="dev")
                await rl.start()
                await simnet.drain(loop)
                tr = net.transports[-1]
                tr.feed(simnet.plain_msg(pb.HelloResponse(api_version_major=1, api_version_minor=10, name="dev")))
                tr.feed(simnet.plain_msg(pb.ConnectResponse(invalid_password=False)))
                await simnet.drain(loop)
                n_tr = len(net.transports)
                try:
                    if how == "force":
                        await cli.disconnect(force=True)
                    else:
                        t = asyncio.ensure_future(cli.disconnect())
                        await simnet.drain(loop)
                        tr.feed(simnet.plain_msg(pb.DisconnectResponse()))
                        await simnet.drain(loop)
                        await t
                except Exception as e:  # noqa: BLE001
                    raised = type(e).__name__
                await simnet.drain(loop)
                if connect_pending and not gate.done():
                    gate.set_result(None)
                    await simnet.drain(loop)
                await simnet.advance(loop, by=0.5)
                await simnet.advance(loop, by=5.0)
                attempts = len(net.transports) - n_tr
                await rl.stop()
                await simnet.drain(loop)
                for t in asyncio.all_tasks(loop):
                    if t is not asyncio.current_task():
                        t.cancel()
            return events, attempts, raised
        return inner()
    return simnet.run(go)


def raising_on_connect_probe(n_failures_before):
    """`n_failures_before` attempts fail; the next one establishes a session, but the application's on_connect callback raises (the
    link drops while it talks to the device); the session ends unexpectedly, the attempt that follows at once fails again. That
    failure is the FIRST consecutive failure after an established session: the retry comes min(round(1.8^1), 60) = 2 s later.
    Returns (seconds between that failed attempt and the retry, events)."""
    def go(loop):
        async def inner():
            from aioesphomeapi.core import APIConnectionError
            from aioesphomeapi.reconnect_logic import ReconnectLogic
            run = Run(loop)
            cli = run.cli
            events = []
            loop.set_exception_handler(lambda l, ctx: None)
            state = {"raise": True}

            async def on_connect():
                events.append("connect")
                if state["raise"]:
                    raise APIConnectionError("link lost while reading the device info")

            async def on_disconnect(expected):
                events.append(f"disconnect({bool(expected)})")

            async def on_connect_error(err):
                events.append("error")
            rl = ReconnectLogic(client=cli, on_connect=on_connect, on_disconnect=on_disconnect, on_connect_error=on_connect_error, name="dev")
            await rl.start()
            await simnet.drain(loop)

            async def next_attempt(limit=70.0):
                t_end = loop.time() + limit
                while cli.pending is None and loop.time() < t_end:
                    nt = loop.next_timer()
                    if nt is None:
                        break
                    await simnet.advance(loop, to=nt + loop.base)
                return cli.pending is not None
            for _ in range(n_failures_before):
                if not await next_attempt():
                    return None, events + ["no attempt"]
                cli.pending[1].set_exception(APIConnectionError("nope"))
                await simnet.drain(loop)
            if not await next_attempt():
                return None, events + ["no attempt"]
            cli.pending[1].set_result(None)          # start phase ok
            await simnet.drain(loop)
            if cli.pending is None:
                return None, events + ["no finish phase"]
            cli.pending[1].set_result(None)          # finish phase ok -> on_connect runs and raises
            await simnet.drain(loop)
            # the session ends (unexpectedly): the client tells the manager
            cli.alive = False
            if cli.on_stop is not None:
                await cli.on_stop(False)
            await simnet.drain(loop)
            if not await next_attempt(5.0):
                return None, events + ["no attempt after the session ended"]
            t_fail = loop.time()
            cli.pending[1].set_exception(APIConnectionError("nope"))
            await simnet.drain(loop)
            n0 = len(cli.attempt_times)
            if not await next_attempt():
                return None, events + ["no retry"]
            gap = loop.time() - t_fail
            await rl.stop()
            await simnet.drain(loop)
            for t in asyncio.all_tasks(loop):
                if t is not asyncio.current_task():
                    t.cancel()
            return round(gap, 3), events
        return inner()
    return simnet.run(go)


def stop_start_stop_probe():
    """start(); a session is established; stop() (the session stays up); the session ends and the application's on_disconnect
    callback takes a while; during it start() is called and then stop(). Once that last stop() has returned the manager never
    starts another attempt. Returns (attempts made after the last stop() returned, events)."""
    def go(loop):
        async def inner():
            from aioesphomeapi.reconnect_logic import ReconnectLogic
            run = Run(loop)
            cli = run.cli
            events = []
            gate = loop.create_future()

            async def on_connect():
                events.append("connect")

            async def on_disconnect(expected):
                events.append("disconnect-begin")
                await gate
                events.append("disconnect-end")

            async def on_connect_error(err):
                events.append("error")
            rl = ReconnectLogic(client=cli, on_connect=on_connect, on_disconnect=on_disconnect, on_connect_error=on_connect_error, name="dev")
            await rl.start()
            await simnet.drain(loop)
            cli.pending[1].set_result(None)
            await simnet.drain(loop)
            cli.pending[1].set_result(None)
            await simnet.drain(loop)
            await rl.stop()
            await simnet.drain(loop)
            cli.alive = False
            stop_hook = asyncio.ensure_future(cli.on_stop(False))
            await simnet.drain(loop)
            t_start = asyncio.ensure_future(rl.start())
            await simnet.drain(loop)
            t_stop = asyncio.ensure_future(rl.stop())
            await simnet.drain(loop)
            gate.set_result(None)
            await simnet.drain(loop)
            await asyncio.wait([t_stop, t_start, stop_hook], timeout=5)
            n_at_return = len(cli.attempt_times)
            events.append("last stop() returned" if t_stop.done() else "last stop() still pending")
            await simnet.advance(loop, by=120.0)
            after = len(cli.attempt_times) - n_at_return
            in_flight = cli.pending is not None
            for t in asyncio.all_tasks(loop):
                if t is not asyncio.current_task():
                    t.cancel()
            return after, in_flight, n_at_return, events
        return inner()
    return simnet.run(go)


def name_forms_probe(name, address, ctor_name="<same>", record_for=None):
    """ReconnectLogic(name=...) for a client addressed by `address`: after a failed attempt a matching mDNS record for the device
    (named by `name`, or - when no name is given - by the host part of a local address) starts the next attempt at once.
    With ctor_name given the manager is constructed with that name and `name` is assigned to its public attribute afterwards
    (as an application does once the device has told its name); record_for: the record delivered names this device instead."""
    def go(loop):
        async def inner():
            import zeroconf
            from zeroconf import DNSPointer
            from zeroconf.const import _TYPE_PTR, _CLASS_IN
            from aioesphomeapi.core import APIConnectionError
            from aioesphomeapi.reconnect_logic import ReconnectLogic
            run = Run(loop)
            run.cli.address = address

            async def cb(*a):
                pass
            rl = ReconnectLogic(client=run.cli, on_connect=cb, on_disconnect=cb, on_connect_error=cb, name=name if ctor_name == "<same>" else ctor_name)
            if ctor_name != "<same>":
                rl.name = name
            await rl.start()
            await simnet.drain(loop)
            cli = run.cli
            if cli.pending is None:
                return "no first attempt"
            cli.pending[1].set_exception(APIConnectionError("nope"))
            await simnet.drain(loop)
            n0 = len(cli.attempt_times)
            dev = record_for or name or address.partition(".")[0]
            rec = DNSPointer("_esphomelib._tcp.local.", _TYPE_PTR, _CLASS_IN, 1000, f"{dev}._esphomelib._tcp.local.")
            for listener in list(run.aiozc.zeroconf.listeners):
                listener.async_update_records(None, 0.0, [zeroconf.RecordUpdate(rec, None)])
            await simnet.drain(loop)
            got = len(cli.attempt_times) - n0
            await rl.stop()
            await simnet.drain(loop)
            for t in asyncio.all_tasks(loop):
                if t is not asyncio.current_task():
                    t.cancel()
            return f"{got} attempt(s) at once, {len(run.aiozc.zeroconf.listeners)} listener(s) left"
        return inner()
    return simnet.run(go)


def owned_engine_restart_probe(cycles):
    """A manager that owns its mDNS engine (none supplied by the application): stop() closes the engine, a later start() must work
    with a live one.  After `cycles` stop()/start() rounds and a failed attempt, a matching record delivered through the engines
    that are alive starts an attempt at once.  Returns a description of what happened."""
    def go(loop):
        async def inner():
            import zeroconf
            from unittest.mock import patch as _patch
            from zeroconf import DNSPointer
            from zeroconf.const import _TYPE_PTR, _CLASS_IN
            from aioesphomeapi.core import APIConnectionError
            from aioesphomeapi.reconnect_logic import ReconnectLogic
            from aioesphomeapi.zeroconf import ZeroconfManager
            log, engines = [], []

            class OwnedZc(FakeAioZc):
                def __init__(self, *a, **kw):
                    super().__init__(log)
                    engines.append(self)
            with _patch("aioesphomeapi.zeroconf.AsyncZeroconf", OwnedZc):
                zcm = ZeroconfManager()
                cli = StubClient(loop, log, zcm)

                async def cb(*a):
                    pass
                rl = ReconnectLogic(client=cli, on_connect=cb, on_disconnect=cb, on_connect_error=cb, name="dev")
                for _ in range(cycles + 1):
                    await rl.start()
                    await simnet.drain(loop)
                    if cli.pending is None:
                        return "no attempt after start()"
                    cli.pending[1].set_exception(APIConnectionError("nope"))
                    await simnet.drain(loop)
                    if _ < cycles:
                        await rl.stop()
                        await simnet.drain(loop)
                live = [e for e in engines if not e.closed]
                n0 = len(cli.attempt_times)
                rec = DNSPointer("_esphomelib._tcp.local.", _TYPE_PTR, _CLASS_IN, 1000, "dev._esphomelib._tcp.local.")
                for e in live:
                    for listener in list(e.zeroconf.listeners):
                        listener.async_update_records(None, 0.0, [zeroconf.RecordUpdate(rec, None)])
                await simnet.drain(loop)
                got = len(cli.attempt_times) - n0
                on_closed = sum(len(e.zeroconf.listeners) for e in engines if e.closed)
                await rl.stop()
                await simnet.drain(loop)
                for t in asyncio.all_tasks(loop):
                    if t is not asyncio.current_task():
                        t.cancel()
                return f"{got} attempt(s) at once; engines created {len(engines)}, alive while waiting {len(live)}, listeners on closed engines {on_closed}"
        return inner()
    return simnet.run(go)


def long_failure_run(n):
    """n consecutive failed attempts: after every single one the next attempt comes, min(round(1.8^k), 60) s later."""
    def go(loop):
        async def inner():
            from aioesphomeapi.core import APIConnectionError
            from aioesphomeapi.reconnect_logic import ReconnectLogic
            run = Run(loop)
            cli = run.cli
            await run.rl.start()
            await simnet.drain(loop)
            for k in range(1, n + 1):
                if cli.pending is None:
                    return k, "no attempt in flight"
                n_att = len(cli.attempt_times)
                t_fail = run.units()
                cli.pending[1].set_exception(APIConnectionError("nope"))
                await simnet.drain(loop)
                for _ in range(3):
                    if len(cli.attempt_times) != n_att:
                        break
                    nt = loop.next_timer()
                    if nt is None:
                        break
                    await simnet.advance(loop, to=nt + loop.base)
                if len(cli.attempt_times) == n_att:
                    return k, "no attempt after this failure"
                gap = cli.attempt_times[-1] - t_fail
                want = min(round(1.8 ** min(k, 10)), 60) * U
                if gap != want:
                    return k, f"next attempt after {gap / U} s, expected {want / U} s"
            for t in asyncio.all_tasks(loop):
                if t is not asyncio.current_task():
                    t.cancel()
            return None
        return inner()
    return simnet.run(go)


def run_integration_probes(rep):
    for name, address in (("dev", "10.0.0.1"), (None, "kitchen.local"), ("", "kitchen.local"), (None, "kitchen"), ("", "kitchen"), ("dev", "kitchen.local")):
        res = name_forms_probe(name, address)
        rep.case(("name-forms", name, address), True, sample={"name_forms": [name, address], "result": res})
        rep.bump("probe:name-forms")
        if not res.startswith("1 attempt(s) at once, 0 listener"):
            rep.violation("C18/record-ignored", f"ReconnectLogic(name={name!r}) for a client addressed {address!r}: one attempt failed, then a matching mDNS record for the device "
                          f"arrives while it is waiting: {res} (expected one attempt at once, listener removed by stop())",
                          {"kind": "name-forms", "name": name, "address": address})
    for ctor_name, name, address, record_for, want in ((None, "dev", "10.0.0.1", None, 1), ("old", "dev", "10.0.0.1", None, 1), ("old", "dev", "10.0.0.1", "old", 0),
                                                       (None, "dev", "kitchen.local", None, 1), ("dev", "dev", "10.0.0.1", "other", 0)):
        res = name_forms_probe(name, address, ctor_name, record_for)
        rep.case(("name-assigned", ctor_name, name, address, record_for), True, sample={"name_assigned_later": [ctor_name, name, address, record_for], "result": res})
        rep.bump("probe:name-assigned")
        if not res.startswith(f"{want} attempt(s) at once, 0 listener"):
            rep.violation("C18/record-ignored" if want else "C18/foreign-record", f"ReconnectLogic(name={ctor_name!r}) for a client addressed {address!r}, then name = {name!r} assigned before start(); one attempt "
                          f"failed, then an mDNS record for {record_for or name!r} arrives while it is waiting: {res} (expected {want} attempt(s) at once, listener removed by stop())",
                          {"kind": "name-forms", "name": name, "address": address, "ctor_name": ctor_name, "record_for": record_for})
    after, in_flight, n_at_return, events = stop_start_stop_probe()
    replay = {"kind": "stop-start-stop"}
    rep.case(("stop-start-stop",), True, sample={"probe": replay, "attempts_after_last_stop": after, "events": events})
    rep.bump("probe:stop-start-stop")
    if after or in_flight or n_at_return != 1:
        rep.violation("C18/attempt-after-stop", f"start(), session up, stop(), the session ends with a slow on_disconnect callback during which start() and then stop() are called: "
                      f"{n_at_return - 1} attempt(s) had been started when the last stop() returned and {after} after it (attempt in flight at the end: {in_flight}); events {events}", replay)
    for n_before in (0, 2, 5):
        gap, events = raising_on_connect_probe(n_before)
        replay = {"kind": "raising-on-connect", "failures_before": n_before}
        rep.case(("raising-on-connect", n_before), True, sample={"probe": replay, "gap_s": gap, "events": events[-8:]})
        rep.bump("probe:raising-on-connect")
        if gap is None:
            rep.violation("C18/no-retry", f"{n_before} failed attempt(s), then a session whose on_connect callback raises, then its unexpected end and a failed attempt: {events[-6:]}", replay)
        elif abs(gap - 2.0) > 0.01:
            rep.violation("C18/backoff", f"{n_before} failed attempt(s), then an established session (its on_connect callback raised), its unexpected end, and one failed attempt: "
                          f"the retry came {gap} s after that failure; it is the first consecutive failure, the back-off is min(round(1.8^1), 60) = 2 s", replay)
    for cycles in (0, 1, 2):
        res = owned_engine_restart_probe(cycles)
        rep.case(("owned-engine-restart", cycles), True, sample={"owned_engine_restart": cycles, "result": res})
        rep.bump("probe:owned-engine-restart")
        if not res.startswith("1 attempt(s) at once"):
            rep.violation("C18/record-ignored", f"a manager that creates its own mDNS engine, {cycles} stop()/start() round(s), one failed attempt, then a matching record "
                          f"delivered through the live engine(s): {res} (expected one attempt at once)", {"kind": "owned-engine-restart", "cycles": cycles})
        elif "listeners on closed engines 0" not in res:
            rep.violation("C18/listener-on-closed-engine", f"a manager that creates its own mDNS engine, {cycles} stop()/start() round(s): {res}",
                          {"kind": "owned-engine-restart", "cycles": cycles})
    bad = long_failure_run(1300)
    rep.case(("long-failure-run", 1300), True, sample={"long_failure_run": 1300, "problem": bad})
    rep.bump("probe:long-failure-run")
    if bad is not None:
        rep.violation("C18/no-retry" if "no attempt" in bad[1] else "C18/backoff", f"consecutive failed attempts: at failure number {bad[0]}: {bad[1]}",
                      {"kind": "long-failure-run", "failures": 1300})
    out = integration_probe("drop")
    replay = {"kind": "integration-probe", "scenario": "drop"}
    rep.case(("integration", "drop"), True, sample={"probe": replay, "result": out})
    rep.bump("probe:integration")
    if any(e.startswith("error") for e in out["events"]) or out["new_attempts_at_once"] != 1:
        rep.violation("C18/no-immediate-retry", "real APIClient + ReconnectLogic, established session reset by the peer, on_disconnect returns without suspending: "
                      f"{out['new_attempts_at_once']} new attempt(s) started at once, callbacks {out['events']} (an unexpected disconnect is retried immediately)", replay)
    for how in ("graceful", "force"):
        for slow_on, connect_pending in ((None, False), ("disconnect", False), (None, True), ("disconnect", True)):
            events, attempts, raised = app_disconnect_probe(how, slow_on, connect_pending)
            replay = {"kind": "app-disconnect", "how": how, "slow_on": slow_on, "connect_pending": connect_pending}
            rep.case(("app-disconnect", how, slow_on, connect_pending), True, sample={"probe": replay, "events": events, "attempts": attempts})
            rep.bump("probe:app-disconnect")
            where = (f"real APIClient + started ReconnectLogic, the application calls client.disconnect({'force=True' if how == 'force' else ''}) on the established session"
                     + (", on_disconnect awaits 0.25 s" if slow_on else "") + (", on_connect still running" if connect_pending else ""))
            n_begin = sum(1 for e in events if e.startswith("disconnect-begin"))
            if raised or n_begin != 1 or "disconnect-begin(True)" not in events or events.count("disconnect-end") != 1 or "disconnect-cancelled" in events:
                rep.violation("C18/on-disconnect-lost", f"{where}: callbacks {events}{' raised ' + raised if raised else ''} - on_disconnect must run once per ended session, to its end, with expected=True", replay)
            elif attempts != 1:
                rep.violation("C18/no-retry", f"{where}: {attempts} attempt(s) started within 5.5 s of the expected disconnect (callbacks {events}); the next attempt follows the 5 s cool-down", replay)
    out = integration_probe("record")
    replay = {"kind": "integration-probe", "scenario": "record"}
    rep.case(("integration", "record"), True, sample={"probe": replay, "result": out})
    rep.bump("probe:integration")
    if out["failed_attempts"] < 2:
        rep.violation("C18/no-retry", f"device addressed by name, nothing resolves: only {out['failed_attempts']} failed attempt(s) within the back-off schedule ({out['events']})", replay)
    elif out["closed_while_listening"] or out["engines_with_listener"] != 1 or out["lookups_after_record"] < 1:
        rep.violation("C18/record-ignored", "device addressed by name, two attempts failed, then a matching mDNS record arrives: "
                      f"engines still carrying the manager's listener: {out['engines_with_listener']}, closed while listening: {out['closed_while_listening']}, "
                      f"lookups started by the record: {out['lookups_after_record']} (the record must trigger an attempt at once)", replay)


def run_slow_hook_probes(rep):
    for stage in ("start", "finish"):
        for n, at in ((4, 0), (4, 1), (4, 2), (4, 3), (5, 4)):
            gaps, events, problem = slow_hook_probe(n, at, stage)
            want = [min(round(1.8 ** k), 60) * U for k in range(1, len(gaps) + 1)]
            replay = {"kind": "slow-hook-probe", "failures": n, "record_during_hook_of_failure": at, "stage": stage}
            rep.case(("slow-hook", stage, n, at), nontrivial=True, sample={"probe": replay, "gaps_s": [g / U for g in gaps]})
            rep.bump("probe:slow-hook")
            where = f"{n} consecutive {stage}-phase failures with an on_connect_error callback that awaits" + (f", a matching mDNS record while the callback of failure {at} is suspended" if at else "")
            if "Ecancelled" in events:
                rep.violation("C18/error-callback-cancelled", f"{where}: the on_connect_error callback was cancelled half-way (events {events[-8:]})", replay)
            elif problem:
                rep.violation("C18/attempt-during-callback" if "while" in problem else "C18/no-retry", f"{where}: {problem}", replay)
            elif gaps != want:
                rep.violation("C18/backoff", f"{where}: retries came {[g / U for g in gaps]} s after the failures, expected {[w / U for w in want]} s", replay)


def run(rep, tier, seed):
    rng = random.Random(seed)
    run_slow_hook_probes(rep)
    run_integration_probes(rep)
    rep.coverage["rule"] = (
        "adaptive random histories (length 10-60) over {start, stop, attempt outcomes ok / auth error / other error incl. long-hanging calls, expected / unexpected session "
        "ends, matching PTR/A and non-matching mDNS records, timer expiry, time advancing between timers} on the real ReconnectLogic with a stub client and fake zeroconf under "
        "the virtual clock; the wait function is compared for n = 0..120; non-trivial = at least one failed attempt and one established session; distinct by label sequence")
    proofs_ok = rep.proofs(VFILE)
    ok, log = common.build_driver()
    if not ok:
        raise RuntimeError("driver build failed: " + log[-2000:])
    # the wait function for every n the code can reach
    outs = common.run_driver([f"backoff {n}" for n in range(0, 121)])
    for n, mo in enumerate(outs):
        want = int(round(min(1.8 ** min(n, 10), 60.0)))
        rep.case(("backoff", n), n in range(1, 12), sample=None)
        if int(mo) != want:
            rep.violations.append(("C18/backoff-function", f"wait after {n} failures: model {mo} s, expression of reconnect_logic.py {want} s",
                                   {"kind": "no-failing-input-found", "obligation": "Reconnect.backoff_seconds ~ int(round(min(1.8**min(n,10), 60.0)))", "n": n}))
        spec = min(round(1.8 ** n), 60) if n < 300 else 60
        if n >= 1 and want != spec:
            rep.violation("C18/backoff-spec", f"after {n} consecutive failures the code waits {want} s, the specification says min(round(1.8^n), 60) = {spec} s", {"kind": "impl-case", "n": n})
    n_hist = 300 if tier == "quick" else 4000
    lines, runs = [], []
    for k in range(n_hist):
        steps, final = gen_and_run(rng, rng.choice([10, 20, 35, 60]))
        runs.append((steps, final))
        lines.append("reconnect " + " ".join(ml for _, mls, _, _, _ in steps for ml in mls))
    mout = common.run_driver(lines)
    disagreements = []
    for (steps, final), mo in zip(runs, mout):
        labels = [l for l, _, _, _, _ in steps]
        flat = [e for _, _, evs, _, _ in steps for e in evs]
        rep.case(tuple(labels), nontrivial=("E" in flat and "C" in flat), sample={"labels": labels[:30], "events": flat[:30]} if rng.random() < 0.02 else None)
        for l in labels:
            rep.bump("label:" + l.split(":")[0])
        rep.coverage["traces_validated_against_impl"] += 1
        for sig, what in predicate(steps, final):
            rep.violation(sig, what, {"kind": "impl-history", "labels": labels, "events": [evs for _, _, evs, _, _ in steps]})
        parts = mo.split("|")[1:]
        i = 0
        for label, mls, evs, state, _att in steps:
            mevs, mstate = [], None
            bad = None
            for ml in mls:
                if i >= len(parts) or parts[i].startswith("!disabled"):
                    bad = f"label {ml} not enabled in the model" if i < len(parts) else "model stopped early"
                    break
                st, _, ob = parts[i].partition("#")
                mstate = st
                mevs += [x for x in ob.split(",") if x]
                i += 1
            if "S" in mevs or "S" in evs:
                # a timer armed and cancelled again inside the same event (stop() finishing) is not visible from outside
                mevs = [x for x in mevs if not x.startswith("T")]
                evs = [x for x in evs if not x.startswith("T")]
            if bad is None and mls and (mstate != state or sorted(mevs) != sorted(evs)):
                bad = f"state/observations differ: model {mstate} {mevs}, implementation {state} {evs}"
            if bad:
                disagreements.append({"labels": labels, "at": label, "why": bad, "recorded": [(l, m) for l, m, _, _, _ in steps]})
                break
    rep.coverage["disagreements"] = len(disagreements)
    if disagreements and not rep.violations:
        rep.violations.append(("C18/correspondence", "Model/Reconnect.v and the real ReconnectLogic disagree on a history; no violation of C18 found",
                               {"kind": "no-failing-input-found", "obligation": "correspondence Reconnect.rstep ~ ReconnectLogic", "first_disagreements": disagreements[:3]}))
    if not proofs_ok and not rep.violations:
        rep.proof_broken(rep.broken[0], rep.broken[1])


def replay(path):
    d = json.loads(open(path).read())["replay"]
    if d.get("kind") == "owned-engine-restart":
        common.setup_impl_path()
        print(owned_engine_restart_probe(d["cycles"]))
        return 0
    if d.get("kind") == "stop-start-stop":
        r = stop_start_stop_probe()
        print(r)
        return 1 if (r[0] or r[1] or r[2] != 1) else 0
    if d.get("kind") == "raising-on-connect":
        r = raising_on_connect_probe(d["failures_before"])
        print(r)
        return 1 if (r[0] is None or abs(r[0] - 2.0) > 0.01) else 0
    if d.get("kind") == "app-disconnect":
        print(app_disconnect_probe(d["how"], d["slow_on"], d["connect_pending"]))
        return 0
    if d.get("kind") == "name-forms":
        print(name_forms_probe(d["name"], d["address"], d.get("ctor_name", "<same>"), d.get("record_for")))
        return 0
    if d.get("kind") == "long-failure-run":
        print(long_failure_run(d["failures"]))
        return 0
    if d.get("kind") == "integration-probe":
        print(integration_probe(d["scenario"]))
        return 0
    if d.get("kind") == "slow-hook-probe":
        common.setup_impl_path()
        print(slow_hook_probe(d["failures"], d["record_during_hook_of_failure"], d["stage"]))
        return 0
    print(json.dumps(d, indent=1)[:3000])
    return 0
