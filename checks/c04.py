"""C04 — the encrypted transport fails closed with a specific error; no forged delivery.

Proof: coq/Properties/C04.v (prefix-only deliveries for every adversarial frame sequence under an ideal AEAD hypothesis,
classification of every handshake-phase deviation, transport kill on the first frame that fails authentication, key gate).
Tie: real crypto.  Every frame of honest sessions is corrupted (each byte flipped, truncated, duplicated, swapped, dropped,
marker/protocol/name/handshake deviations, framing mismatches) under three chunkings; deliveries must be a byte-exact prefix
of what the device sent and the session must end closed with the specific class; the extracted model must agree."""
import asyncio
import binascii
import base64
import json
import random

from vlib import common, noisecases, noisesim
from vlib.noisesim import frame

VFILE = "Properties/C04.v"
MSGS = [(26, b"\x08\x01\x10\x01"), (25, b"\x0d\x00\x00\x80\x3f"), (7, b""), (300, b"xyz" * 40), (33, b"\x01")]


def honest(expected=None, name=b"dev"):
    s = noisecases.Session(expected)
    st = noisecases.Stream(name, MSGS)
    st.build(s.client_hs)
    return s, st


def tamper_variants(st, tier, rng):
    """(label, frames', first deviating frame index, allowed classes, detectable)."""
    fr = st.frames
    out = []
    n = len(fr)
    # byte flips
    for i, f in enumerate(fr):
        real = f["real"]
        positions = range(len(real)) if tier == "thorough" else sorted(set([0, 1, 2, 3, 4, len(real) - 1] + [rng.randrange(len(real)) for _ in range(3)]))
        for p in positions:
            if p >= len(real):
                continue
            for x in ((1, 0x80) if tier == "thorough" else (rng.choice([1, 0x80]),)):
                b = bytearray(real)
                b[p] ^= x
                g = noisecases.poison_frame(f, bytes(b))
                if p == 0:
                    allowed = {"bad_marker"}
                elif p in (1, 2):
                    allowed = {"invalid_key", "bad_marker", "incomplete", "empty_hello", "unknown_proto", "handshake_fail", "empty_handshake"}
                elif f["kind"] == "hello":
                    allowed = {"unknown_proto"} if p == 3 else {"undetectable", "bad_name"}
                elif f["kind"] == "hs":
                    allowed = {"handshake_fail", "invalid_key"}
                else:
                    allowed = {"invalid_key"}
                out.append((f"flip:{i}:{p}:{x:#x}", fr[:i] + [g] + fr[i + 1:], i, allowed))
    for i in range(2, n):
        out.append((f"dup:{i}", fr[:i + 1] + [fr[i]] + fr[i + 1:], i + 1, {"invalid_key"}))
        out.append((f"drop:{i}", fr[:i] + fr[i + 1:], i, {"invalid_key", "none-left"}))
        if i + 1 < n:
            out.append((f"swap:{i}", fr[:i] + [fr[i + 1], fr[i]] + fr[i + 2:], i, {"invalid_key"}))
        real = fr[i]["real"]
        for k in ([3, 4, len(real) - 1] if tier == "quick" else range(3, len(real))):
            # the frame is cut short but its header still announces the old length: the following bytes are swallowed
            g = noisecases.poison_frame(fr[i], real[:k])
            g["sym"] = list(real[:3]) + [noisesim.SYM_POISON] * (k - 3)
            # (when the swallowed bytes happen to equal the bytes cut off - one chance in 256 for a one-byte cut - this very frame still
            # is what the device sent and the stream first deviates in the next frame)
            nxt = b"".join(x["real"] for x in fr[i + 1:])
            dev = i + 1 if (nxt and real[:k] + nxt[:len(real) - k] == real) else i
            out.append((f"trunc:{i}:{k}", fr[:i] + [g] + fr[i + 1:], dev, {"invalid_key", "incomplete", "bad_marker"}))
    return out


def handshake_deviations(expected_variants=(None, "dev")):
    devs = []
    for body, cls in ((b"", "empty_hello"), (b"\x02dev\0", "unknown_proto"), (b"\x00", "unknown_proto"), (b"\x01other\0", "bad_name"),
                      (b"\x01\xff\xfe\0", "bad_name")):
        devs.append(("hello:" + body.hex(), "hello", body, cls))
    for body, cls in ((b"", "empty_handshake"), (b"\x01Handshake MAC failure", "invalid_key"), (b"\x01some other reason", "handshake_fail"),
                      (b"\x02\xff\xfe\xfd", "handshake_fail"), (b"\x01", "handshake_fail")):
        devs.append(("hs:" + body.hex(), "hs", body, cls))
    return devs


def classify_outcome(calls, info):
    flat = [e for c in calls for e in c if isinstance(e, str)]
    fatal = [e[6:] for e in flat if e.startswith("FATAL:")]
    rerr = [e[5:] for e in flat if e.startswith("RERR:")]
    deliv = [e for e in flat if e.startswith("D:")]
    return flat, fatal, rerr, deliv


def run(rep, tier, seed):
    rng = random.Random(seed)
    asyncio.set_event_loop(asyncio.new_event_loop())
    rep.coverage["rule"] = (
        "honest 7-frame sessions (hello, handshake, 5 messages) with one corruption: every byte flipped with 0x01 and 0x80 (thorough; sampled positions in quick), "
        "every truncation length, each frame duplicated / dropped / swapped with its neighbour; hello and handshake deviations (empty, other protocol, other name, "
        "undecodable name, error frames, empty handshake); a device with a different key; both framing mismatches; x {one chunk, per-frame chunks, 1-byte chunks}; "
        "key strings (valid, wrong length, bad padding, non-alphabet, empty) at the helper and through APIClient (also whitespace-only); encrypted sessions whose device name only the HelloResponse reveals; non-trivial = the stream deviates; distinct by (corruption, chunking)")
    proofs_ok = rep.proofs(VFILE)
    ok, log = common.build_driver()
    if not ok:
        raise RuntimeError("driver build failed: " + log[-2000:])
    lines, impls, metas = [], [], []
    sent = [f"D:{t:x}:{p.hex() or '-'}" for t, p in MSGS]

    def judge(label, calls, info, first_dev, allowed, replay, pending_ready_expected=None):
        flat, fatal, rerr, deliv = classify_outcome(calls, info)
        # (1) prefix only
        if deliv != sent[:len(deliv)]:
            rep.violation("C04/forged-delivery", f"{label}: delivered {deliv[:4]} which is not a prefix of what the device sent", replay)
            return
        if first_dev is not None and "undetectable" not in allowed:
            ndata_before = max(0, first_dev - 2)
            if len(deliv) > ndata_before:
                rep.violation("C04/delivery-after-deviation", f"{label}: {len(deliv)} message(s) delivered although the stream deviates at frame {first_dev}", replay)
                return
        if first_dev is None:
            return
        classes = {f.split(":")[0] for f in fatal}
        if fatal:
            first = fatal[0].split(":")[0]
            specific = {"invalid_key", "bad_name", "handshake_fail", "empty_hello", "unknown_proto", "empty_handshake", "bad_marker", "requires_encryption", "closed_frame"}
            if first not in specific:
                rep.violation("C04/unspecific-error", f"{label}: the session ended with '{fatal[0]}' instead of a specific error class", replay)
            elif first not in allowed and not ({"incomplete", "undetectable", "none-left"} & allowed and first in ("invalid_key", "bad_marker")):
                rep.violation("C04/wrong-class", f"{label}: reported {fatal[0]}, expected one of {sorted(allowed)}", replay)
            if info["state"] != "closed":
                rep.violation("C04/not-closed", f"{label}: fatal error reported but the helper is {info['state']}", replay)
            if rerr and rerr[0].split(":")[0] != first:
                rep.violation("C04/ready-error-differs", f"{label}: readiness wait received {rerr[0]}, the connection {fatal[0]}", replay)
            if "RDY" in flat and flat.index("RDY") > flat.index("FATAL:" + fatal[0]):
                rep.violation("C04/ready-after-error", f"{label}: readiness signalled after the fatal error", replay)
        elif not ({"incomplete", "undetectable", "none-left"} & allowed):
            rep.violation("C04/deviation-not-detected", f"{label}: the stream deviates at frame {first_dev} but no error was reported (state {info['state']})", replay)

    def chunk_points(frames, mode):
        total = sum(len(f["real"]) for f in frames)
        if mode == "one":
            return []
        if mode == "bytes":
            return list(range(1, total))
        pts, off = [], 0
        for f in frames[:-1]:
            off += len(f["real"])
            pts.append(off)
        return pts

    # ---- single corruptions of an honest session
    _, st0 = honest()
    variants = tamper_variants(st0, tier, rng)
    if tier == "quick":
        variants = rng.sample(variants, min(len(variants), 260))
    for label, _, first_dev, allowed in variants:
        for mode in (("one", "frames", "bytes") if tier == "thorough" else (rng.choice(["one", "frames", "bytes"]),)):
            s, st = honest()
            # rebuild the same corruption on this session's own stream (fresh ephemeral keys)
            frames = apply_variant(st, label)
            first_dev = variant_dev(st, label, first_dev)
            pts = chunk_points(frames, mode)
            ml, il, calls, info = s.feed(frames, pts)
            lines.append(ml); impls.append(il)
            replay = {"kind": "impl-case", "variant": label, "chunking": mode}
            metas.append(replay)
            rep.case((label, mode), nontrivial=True, sample={"variant": label, "chunking": mode, "impl": il[:200]})
            rep.bump("variant:" + label.split(":")[0]); rep.bump("chunking:" + mode)
            rep.coverage["traces_validated_against_impl"] += 1
            judge(f"{label} ({mode})", calls, info, first_dev, allowed, replay)
    # ---- hello / handshake deviations
    for label, kind, body, cls in handshake_deviations():
        for expected in (None, "dev"):
            for mode in ("one", "frames", "bytes"):
                s, st = honest(expected)
                frames = apply_variant(st, label)
                ml, il, calls, info = s.feed(frames, chunk_points(frames, mode))
                lines.append(ml); impls.append(il)
                replay = {"kind": "impl-case", "variant": label, "chunking": mode, "expected": expected}
                metas.append(replay)
                allowed = {cls}
                if cls == "bad_name" and expected is None:
                    allowed = {"undetectable"}
                rep.case((label, mode, expected), True, sample={"variant": label, "expected": expected, "impl": il[:160]})
                rep.bump("variant:" + kind); rep.coverage["traces_validated_against_impl"] += 1
                judge(f"{label} expected={expected} ({mode})", calls, info, 0 if kind == "hello" else 1, allowed, replay)
                if cls == "bad_name" and expected is not None:
                    flat = [e for c in calls for e in c if isinstance(e, str)]
                    want = "bad_name:" + ("<fffd>" if b"\xff" in body else body[1:body.index(b"\0", 1)].hex())
                    if f"FATAL:{want}" not in flat:
                        rep.violation("C04/bad-name-payload", f"{label}: BadName does not carry the received name ({[e for e in flat if 'bad_name' in e][:2]})", replay)
    # ---- a device holding a different key
    for mode in ("one", "frames", "bytes"):
        s = noisecases.Session(None)
        st = noisecases.Stream(b"dev", MSGS, psk=bytes(range(40, 72)))
        st.build(s.client_hs)
        ml, il, calls, info = s.feed(st.frames, chunk_points(st.frames, mode))
        lines.append(ml); impls.append(il); metas.append({"kind": "impl-case", "variant": "otherkey", "chunking": mode})
        rep.case(("otherkey", mode), True, sample={"variant": "otherkey", "impl": il[:160]}); rep.coverage["traces_validated_against_impl"] += 1
        judge(f"device with a different key ({mode})", calls, info, 1, {"invalid_key"}, metas[-1])
    # ---- framing mismatches
    from aioesphomeapi._frame_helper.plain_text import APIPlaintextFrameHelper
    from aioesphomeapi.core import RequiresEncryptionAPIError, ProtocolAPIError
    from unittest.mock import MagicMock
    for data, want in ((frame(b"\x01dev\0"), RequiresEncryptionAPIError), (b"\x02\x00\x00", ProtocolAPIError)):
        conn = noisesim.FakeConn()
        errs = []
        conn.report_fatal_error = errs.append
        h = APIPlaintextFrameHelper(connection=conn, client_info="x", log_name="x")
        conn.helper = h
        h.connection_made(MagicMock())
        h.data_received(data)
        rep.case(("mismatch-plain", data), True, sample=None); rep.bump("variant:mismatch")
        if not errs or type(errs[0]) is not want or conn.events:
            rep.violation("C04/framing-mismatch", f"plaintext helper receiving {data[:4].hex()}: reported {[type(e).__name__ for e in errs]}, expected {want.__name__}; delivered {conn.events[:2]}",
                          {"kind": "impl-case", "variant": "mismatch-plain:" + data.hex()})
        # ... and nothing that follows the deviation is delivered: in the same read, in later reads, after a lone first byte
        good = b"\x00\x00\x08" + b"\x00\x02\x19\x08\x01"      # PingResponse, SensorStateResponse(key=1)
        for reads in ([data + good], [data, good], [data, good[:3], good[3:]], [data[:1], data[1:], good], [data[:1], good], [data, good, good]):
            conn = noisesim.FakeConn()
            errs = []
            conn.report_fatal_error = errs.append
            h = APIPlaintextFrameHelper(connection=conn, client_info="x", log_name="x")
            conn.helper = h
            h.connection_made(MagicMock())
            raised = None
            for r in reads:
                try:
                    h.data_received(r)
                except Exception as e:  # noqa: BLE001
                    raised = repr(e)
                    break
            rep.case(("mismatch-plain-later", data, tuple(reads)), True, sample=None); rep.bump("variant:mismatch-later-reads")
            if conn.events or not errs or type(errs[0]) is not want:
                rep.violation("C04/framing-mismatch", f"plaintext helper, reads {[r.hex() for r in reads]}: the first byte is not the plaintext preamble, yet {conn.events[:3]} "
                              f"was delivered / errors reported {[type(e).__name__ for e in errs][:2]} (expected {want.__name__}, nothing delivered, also from later reads){' ; raised ' + raised if raised else ''}",
                              {"kind": "impl-case", "variant": "mismatch-plain-later:" + data.hex(), "reads": [r.hex() for r in reads]})
    for mode in ("one", "bytes"):
        s = noisecases.Session(None)
        plain = [{"real": b"\x00\x02\x02\x08\x01", "sym": list(b"\x00\x02\x02\x08\x01"), "kind": "raw", "msg": None}]
        ml, il, calls, info = s.feed(plain, chunk_points(plain, mode))
        lines.append(ml); impls.append(il); metas.append({"kind": "impl-case", "variant": "mismatch-noise", "chunking": mode})
        rep.case(("mismatch-noise", mode), True, sample={"variant": "plaintext device, noise client", "impl": il[:160]}); rep.coverage["traces_validated_against_impl"] += 1
        judge(f"plaintext device talking to the noise helper ({mode})", calls, info, 0, {"bad_marker"}, metas[-1])
    # ---- key strings
    from aioesphomeapi._frame_helper.noise import APINoiseFrameHelper
    from aioesphomeapi.core import InvalidEncryptionKeyAPIError
    good = base64.b64encode(bytes(32)).decode()
    keys = [(good, True), (base64.b64encode(bytes(31)).decode(), False), (base64.b64encode(bytes(33)).decode(), False), ("", False),
            (good[:-1], False), (good[:-2] + "**", False), ("not base64 at all!", False), (good + "AAAA", False), (base64.b64encode(bytes(range(32))).decode(), True),
            ("QRTIErOb/fcE9Ukd/5qA3RGYMn0Y+p06U58SCtOXvPc", False),
            # characters outside ASCII (pasted keys: non-breaking space, smart quotes, fraction slash, full-width letters)
            (good + "\u00a0", False), ("\u201c" + good + "\u201d", False), (good.replace("A", "\uff21", 1), False),
            (good[:10] + "\u2044" + good[11:], False), ("\u00e9" * 44, False), (good[:-1] + "\u2550", False)]
    n_keys = 40 if tier == "quick" else 2000
    for _ in range(n_keys):
        raw = rng.randbytes(rng.choice([0, 1, 16, 31, 32, 32, 32, 33, 48, 64]))
        k = base64.b64encode(raw).decode()
        if rng.random() < 0.3 and k:
            i = rng.randrange(len(k))
            k = k[:i] + rng.choice("!*-_ \n=\u00a0\u2044\u00fc") + k[i + 1:]
        try:
            dec = base64.b64decode(k, validate=False) if k else b""
            okk = None
        except Exception:
            okk = False
        keys.append((k, okk))
    for k, want in keys:
        conn = noisesim.FakeConn()
        tr = MagicMock()
        err = None
        try:
            h = APINoiseFrameHelper(connection=conn, noise_psk=k, expected_name=None, client_info="v", log_name="v")
            h.connection_made(tr)
        except Exception as e:  # noqa
            err = e
        wrote = tr.write.call_count
        import binascii
        try:
            decoded = binascii.a2b_base64(k)
            valid = len(decoded) == 32
        except Exception:
            valid = False
        rep.case(("key", k), not valid, sample=None); rep.bump("key:" + ("valid" if valid else "invalid"))
        replay = {"kind": "impl-case", "variant": "key", "key": k}
        if valid and (err is not None or wrote != 1):
            rep.violation("C04/key-rejected", f"a key that is base64 for exactly 32 bytes was rejected ({type(err).__name__})", replay)
        if not valid and (not isinstance(err, InvalidEncryptionKeyAPIError) or wrote):
            rep.violation("C04/key-gate", f"key {k[:20]!r} is not base64 for 32 bytes: raised {type(err).__name__}, wrote {wrote} time(s) (expected InvalidEncryptionKeyAPIError before anything is sent)", replay)

    # ---- the same gate through the public client: a configured key reaches the helper as configured (no normalisation
    # may turn a malformed key into "no key"), and a device name that only the HelloResponse can reveal is still checked
    from checks import c06 as _c06
    from vlib import conntrace, simnet
    ckeys = ["", " ", "\n", " \r\n", "\t \t", "=", "AAAA", noisesim.b64(bytes(31)), noisesim.b64(bytes(33)), noisesim.b64(bytes(32))[:-1],
             "!" * 44, noisesim.b64(bytes(range(32))), " " + noisesim.b64(bytes(range(32))) + "\n"]
    for k in ckeys:
        res = simnet.run(lambda loop: client_key_case(loop, k))
        try:
            valid = len(binascii.a2b_base64(k)) == 32
        except Exception:
            valid = False
        rep.case(("client-key", k), not valid, sample={"client_key": k, "outcome": res})
        rep.bump("client-key:" + ("valid" if valid else "none" if k == "" else "invalid"))
        replay = {"kind": "impl-case", "variant": "client-key", "key": k}
        if k == "":
            continue          # no key configured: a plaintext session is what was asked for
        if valid:
            if res["error"] is not None or not res["first_write"].startswith("010000"):
                rep.violation("C04/key-rejected", f"APIClient(noise_psk={k[:12]!r}...): a valid key did not start a Noise session ({res})", replay)
        elif res["error"] != "L.InvalidKey" or res["writes"]:
            rep.violation("C04/key-gate", f"APIClient(noise_psk={k!r}): not base64 for 32 bytes, yet the attempt ended with {res['error']} after "
                          f"{res['writes']} write(s) (first {res['first_write'][:16]}); expected InvalidEncryptionKeyAPIError before anything is sent", replay)
    for sn, nk in (("-", "o"), ("-", "p"), ("-", "q"), ("-", "c"), ("o", "x"), ("-", "x"), ("x", "x")):
        case = dict(server_name=sn, name=nk, expect=1, login=0, invalid_password=0, major=1, password=None)
        out, state, stops = simnet.run(lambda loop: _c06.noise_case(loop, case))
        exp = _c06.noise_oracle(case)
        rep.case(("conn-name", sn, nk), exp[0] != "ok", sample={"noise_case": case, "outcome": out[:2]})
        rep.bump("conn-name:" + exp[0])
        replay = {"kind": "impl-case", "variant": "conn-name", "case": case}
        if exp[0] == "err":
            if out[0] == "ok" or state != "CLOSED":
                rep.violation("C04/name-accepted", f"encrypted session, expected name 'dev', server hello name {_c06.NAMES[sn]!r}, HelloResponse name {_c06.NAMES[nk]!r}: "
                              f"finish_connection {out[:2]}, state {state} (must end closed with BadNameAPIError)", replay)
            elif out[1] != exp[1] or out[2] != exp[2]:
                rep.violation("C04/wrong-class", f"encrypted session with a mismatching device name: raised {out[1]}({out[2]!r}), expected {exp[1]}({exp[2]!r})", replay)
        elif out[0] != "ok":
            rep.violation("C04/name-rejected", f"encrypted session with the expected device name was refused: {out}", replay)
    for kind in ("noise-flip", "noise-replay", "plain-noise-frame", "plain-bad-preamble"):
        got, want, closed, late = deviation_during_disconnect_probe(kind)
        rep.case(("deviation-during-disconnect", kind), True, sample={"deviation_during_disconnect": kind, "pending_request": got, "closed": closed})
        rep.bump("probe:deviation-during-disconnect")
        replay = {"kind": "impl-case", "variant": "deviation-during-disconnect", "deviation": kind}
        if late or not closed:
            rep.violation("C04/delivery-after-deviation", f"{kind} while a graceful disconnect waits for the device: connection closed: {closed}, {late} message(s) delivered after the deviation", replay)
        elif got != want:
            rep.violation("C04/unspecific-error", f"{kind} while a graceful disconnect waits for the device: the request in flight ended with {got}, the specific error is {want}", replay)
    # ---- the expected name as configured when the device announces itself: constructor, setter before the attempt, setter between the phases
    from checks import c03 as _c03
    for names, when in ((["other"], "ctor"), (["other"], "before"), (["other"], "between"), (["other", "dev"], "between"), (["dev", "other"], "between")):
        outs = simnet.run(lambda loop: _c03.client_sessions_case(loop, names, "dev", when))
        want = ["ok" if n == "dev" else "L.BadName" for n in names]
        rep.case(("client-name", tuple(names), when), True, sample={"client_sessions": names, "expected_name": "dev", "configured": when, "outcomes": outs})
        rep.bump("client-name:" + when)
        if outs != want:
            rep.violation("C04/name-accepted", f"APIClient over Noise, expected_name 'dev' configured {when}, devices announcing {names}: attempts ended {outs}, "
                          f"a mismatching name must end the session with BadNameAPIError ({want})", {"kind": "impl-case", "variant": "client-name", "names": names, "when": when})

    mout = common.run_driver(lines)
    def comparable(m):
        # a corrupted length field makes the helper read ciphertext bytes as headers: their values are not represented in
        # the symbolic twin of the stream (an ideal ciphertext has no byte values), so these runs are judged by the oracle only
        v = m.get("variant", "")
        return not (v.startswith("trunc:") or (v.startswith("flip:") and v.split(":")[2] in ("1", "2")))
    rep.coverage["not_comparable_with_symbolic_model"] = sum(1 for m in metas if not comparable(m))
    disagreements = [{"case": m, "impl": i[:900], "model": o[:900]} for m, i, o in zip(metas, impls, mout) if i != o and comparable(m)]
    rep.coverage["disagreements"] = len(disagreements)
    if disagreements and not rep.violations:
        rep.violations.append(("C04/correspondence", "Model/NoiseFrame.v (ideal AEAD) and the real Noise frame helper disagree on a corrupted session; no violation of C04 found",
                               {"kind": "no-failing-input-found", "obligation": "correspondence NoiseFrame.run ~ APINoiseFrameHelper vs independent responder",
                                "first_disagreements": disagreements[:3]}))
    if not proofs_ok and not rep.violations:
        rep.proof_broken(rep.broken[0], rep.broken[1])


async def client_key_case(loop, key):
    """APIClient configured with `key`, connecting over SimNet: how the attempt ends and what reached the transport."""
    from aioesphomeapi.client import APIClient
    from vlib import conntrace, simnet
    net = simnet.Net(loop)
    with net.patched():
        cli = APIClient("10.0.0.1", 6053, None, noise_psk=key)
        err = None
        try:
            await cli.start_connection()
            task = asyncio.ensure_future(cli.finish_connection(login=False))
            await simnet.drain(loop)
            if task.done() and task.exception() is not None:
                err = conntrace.exc_name(task.exception())
            elif not task.done():
                task.cancel()
        except Exception as e:  # noqa: BLE001
            err = conntrace.exc_name(e)
        writes = [d for tr in net.transports for _, d in tr.writes]
        try:
            await cli.disconnect(force=True)
        except Exception:  # noqa: BLE001
            pass
        await simnet.drain(loop)
    return {"error": err, "writes": len(writes), "first_write": writes[0].hex() if writes else ""}


def variant_dev(st, label, dev):
    """First deviating frame of a variant ON THIS SESSION'S bytes (fresh ephemeral keys give fresh ciphertext): a frame cut short whose
    missing tail happens to equal the bytes that follow it is still what the device sent, the stream deviates one frame later."""
    parts = label.split(":")
    if parts[0] != "trunc":
        return dev
    i, k = int(parts[1]), int(parts[2])
    fr = st.frames
    real = fr[i]["real"]
    nxt = b"".join(x["real"] for x in fr[i + 1:])
    return i + 1 if (nxt and real[:k] + nxt[:len(real) - k] == real) else i


def apply_variant(st, label):
    fr = st.frames
    parts = label.split(":")
    k = parts[0]
    if k == "flip":
        i, p, x = int(parts[1]), int(parts[2]), int(parts[3], 16)
        b = bytearray(fr[i]["real"])
        b[p] ^= x
        return fr[:i] + [noisecases.poison_frame(fr[i], bytes(b))] + fr[i + 1:]
    if k == "dup":
        i = int(parts[1])
        return fr[:i + 1] + [fr[i]] + fr[i + 1:]
    if k == "drop":
        i = int(parts[1])
        return fr[:i] + fr[i + 1:]
    if k == "swap":
        i = int(parts[1])
        return fr[:i] + [fr[i + 1], fr[i]] + fr[i + 2:]
    if k == "trunc":
        i, n = int(parts[1]), int(parts[2])
        real = fr[i]["real"]
        g = noisecases.poison_frame(fr[i], real[:n])
        g["sym"] = list(real[:3]) + [noisesim.SYM_POISON] * (n - 3)
        return fr[:i] + [g] + fr[i + 1:]
    if k == "hello":
        body = bytes.fromhex(parts[1])
        f = frame(body)
        return [{"real": f, "sym": list(f), "kind": "hello", "msg": None}] + fr[1:]
    if k == "hs":
        body = bytes.fromhex(parts[1])
        f = frame(body)
        return [fr[0], {"real": f, "sym": list(f), "kind": "hs_err", "msg": None}] + fr[2:]
    raise ValueError(label)


def deviation_during_disconnect_probe(kind):
    """An established session with a request in flight; the application has called disconnect() and is waiting for the device's
    answer when the stream deviates (a Noise data frame with a flipped byte / a replayed frame; for a plaintext client a Noise
    frame or a wrong first byte). The session ends closed with the specific error class, which is what the request in flight and
    the waiting disconnect see - a graceful disconnect under way does not blur it. Returns (error class of the pending request,
    expected class, connection closed, messages delivered after the deviation)."""
    from vlib import simnet

    async def go(loop):
        from aioesphomeapi import api_pb2 as pb
        from aioesphomeapi.connection import APIConnection, ConnectionParams, ConnectionState as S
        from aioesphomeapi.zeroconf import ZeroconfManager
        net = simnet.Net(loop)
        psk = bytes(range(1, 33))
        noise = kind.startswith("noise")
        params = ConnectionParams(addresses=["10.0.0.1"], port=6053, password=None, client_info="v", keepalive=20.0,
                                  zeroconf_manager=ZeroconfManager(), noise_psk=noisesim.b64(psk) if noise else None, expected_name=None)
        conn = APIConnection(params, lambda e: None, False, None)
        seen = []
        with net.patched():
            await conn.start_connection()
            task = asyncio.ensure_future(conn.finish_connection(login=False))
            await simnet.drain(loop)
            tr = net.transports[-1]
            if noise:
                resp = noisesim.Responder(psk, b"dev")
                hs, _ = resp.handshake_frames(noisesim.split_frames(b"".join(d for _, d in tr.writes))[1][1:])
                tr.feed(resp.hello_frame() + hs)
                await simnet.drain(loop)
                mk = lambda i, p=b"": resp.data_frame(i, p)[0]  # noqa: E731
            else:
                mk = lambda i, p=b"": simnet.plain_frame(i, p)  # noqa: E731
            tr.feed(mk(2, pb.HelloResponse(api_version_major=1, api_version_minor=10, name="dev").SerializeToString()))
            await simnet.drain(loop)
            await task
            conn.add_message_callback(lambda m: seen.append(m.key), (pb.SensorStateResponse,))
            call = asyncio.ensure_future(conn.send_messages_await_response_complex((pb.DeviceInfoRequest(),), None, None, (pb.DeviceInfoResponse,), 30.0))
            await simnet.drain(loop)
            disc = asyncio.ensure_future(conn.disconnect())
            await simnet.drain(loop)
            good = mk(25, pb.SensorStateResponse(key=1, state=1.0).SerializeToString())
            if kind == "noise-flip":
                bad = bytearray(mk(25, pb.SensorStateResponse(key=2, state=1.0).SerializeToString()))
                bad[5] ^= 0x40
                bad, want = bytes(bad), "InvalidEncryptionKeyAPIError"
            elif kind == "noise-replay":
                bad, want = good, "InvalidEncryptionKeyAPIError"
            elif kind == "plain-noise-frame":
                bad, want = noisesim.frame(b"\x01dev\0"), "RequiresEncryptionAPIError"
            else:
                bad, want = b"\x42\x00\x00", "ProtocolAPIError"
            tr.feed(good)
            await simnet.drain(loop)
            n_before = len(seen)
            tr.feed(bad + (mk(25, pb.SensorStateResponse(key=3, state=1.0).SerializeToString()) if kind != "noise-replay" else b""))
            await simnet.drain(loop)
            got = "pending" if not call.done() else "cancelled" if call.cancelled() else type(call.exception()).__name__ if call.exception() else "result"
            closed = conn.connection_state is S.CLOSED
            late = len(seen) - n_before
            for t in (call, disc):
                if not t.done():
                    t.cancel()
            conn.force_disconnect()
            await simnet.drain(loop)
            for t in (call, disc):
                try:
                    t.exception()
                except BaseException:  # noqa: BLE001
                    pass
        return got, want, closed, late
    return simnet.run(go)


def replay(path):
    common.setup_impl_path()
    asyncio.set_event_loop(asyncio.new_event_loop())
    d = json.loads(open(path).read())["replay"]
    if d.get("variant") == "deviation-during-disconnect":
        r = deviation_during_disconnect_probe(d["deviation"])
        print(r)
        return 1 if (r[0] != r[1] or not r[2] or r[3]) else 0
    if d.get("variant") == "client-name":
        from checks import c03 as _c03
        from vlib import simnet
        outs = simnet.run(lambda loop: _c03.client_sessions_case(loop, d["names"], "dev", d["when"]))
        print("outcomes:", outs)
        return 1 if outs != ["ok" if n == "dev" else "L.BadName" for n in d["names"]] else 0
    if d.get("kind") != "impl-case" or ":" not in d.get("variant", "") and d.get("variant") not in ("otherkey",):
        print("nothing to replay:", d)
        return 0
    s, st = honest(d.get("expected"))
    frames = apply_variant(st, d["variant"]) if d["variant"] != "otherkey" else st.frames
    total = sum(len(f["real"]) for f in frames)
    pts = [] if d.get("chunking") == "one" else list(range(1, total)) if d.get("chunking") == "bytes" else None
    if pts is None:
        pts, off = [], 0
        for f in frames[:-1]:
            off += len(f["real"]); pts.append(off)
    ml, il, calls, info = s.feed(frames, pts)
    print(il[:2000])
    return 0
