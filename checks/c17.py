"""C17 — one converted callback per subscribed message; camera images reassemble per key.

Proof: coq/Properties/C17.v about Model/Subs.v (on_state_msg with the per-subscription camera buffer, the subscribe_* wrappers
with their unsubscribe closures, subscribe_voice_assistant with its start task).
Tie: the real APIClient over SimNet is subscribed (several subscriptions side by side) and fed mixed streams of all state types,
interleaved multi-chunk camera streams over several keys, log / service-call / home-assistant-state / advertisement /
connections-free / voice-assistant messages, with unsubscribe calls and handler completions at random points; per step every
handler call (with the converted values checked against an oracle built from the message's own fields) and every frame written
must equal the extracted model's, and the property's predicate (computed here from the story alone) is evaluated on the
implementation."""
from vlib.privnames import priv, has_priv
import asyncio
import dataclasses
import enum
import json
import random

from vlib import common, simnet

VFILE = "Properties/C17.v"

FLOATS = [0.0, 0.5, 1.0, -2.25, 21.25, 100.0, 0.125, 3.0]
KINDS = ["st", "lg", "sc", "ha0", "ha1", "adv", "raw", "cf", "va00", "va01", "va10", "va11"]


# ------------------------------------------------------------------------------------------------------ device messages
def state_classes():
    from aioesphomeapi import api_pb2 as pb
    from aioesphomeapi.core import MESSAGE_TYPE_TO_PROTO
    out = []
    for ty, cls in sorted(MESSAGE_TYPE_TO_PROTO.items()):
        n = cls.__name__
        if (n.endswith("StateResponse") or n == "EventResponse") and n not in ("SubscribeHomeAssistantStateResponse", "HomeAssistantStateResponse"):
            out.append((ty, cls))
    return out


def expected_model_name(pbname):
    """model class of a state message, from the names alone: X[State]Response -> X[State]; where that name is taken by an
    enum of model.py the class is X 'EntityState'"""
    from aioesphomeapi import model
    name = pbname[: -len("Response")]
    obj = getattr(model, name, None)
    if obj is not None and isinstance(obj, type) and issubclass(obj, enum.Enum):
        name = name[: -len("State")] + "EntityState"
    return name


def rand_state(rng, ty, cls, uid):
    """a state message with every scalar field set; returns (pb message, {field: value})"""
    from google.protobuf.descriptor import FieldDescriptor as FD
    msg = cls()
    vals = {}
    for f in cls.DESCRIPTOR.fields:
        rep_ = f.is_repeated if hasattr(f, 'is_repeated') else f.label == FD.LABEL_REPEATED
        if rep_ or f.type == FD.TYPE_MESSAGE:
            continue
        if f.name == "key":
            v = rng.choice([1, 2, 3, 0xFFFFFFFF])
        elif f.type == FD.TYPE_BOOL:
            v = rng.random() < 0.5
        elif f.type in (FD.TYPE_FLOAT, FD.TYPE_DOUBLE):
            v = rng.choice(FLOATS)
        elif f.type == FD.TYPE_STRING:
            v = rng.choice(["", "x", "s%d" % uid])
        elif f.type == FD.TYPE_BYTES:
            v = rng.choice([b"", b"b%d" % uid])
        elif f.type == FD.TYPE_ENUM:
            v = rng.choice([e.number for e in f.enum_type.values])
        elif f.type in (FD.TYPE_INT32, FD.TYPE_SINT32, FD.TYPE_SFIXED32):
            v = rng.choice([0, 1, -5, uid])
        else:
            v = rng.choice([0, 1, 7, uid])
        setattr(msg, f.name, v)
        vals[f.name] = v
    return msg, vals


def matches(obj, pbname, vals):
    """the callback's object is the model of that message: class by name, every field the message has by value"""
    if type(obj).__name__ != expected_model_name(pbname):
        return f"class {type(obj).__name__}, expected {expected_model_name(pbname)}"
    if not dataclasses.is_dataclass(obj):
        return "not a model object"
    names = {f.name for f in dataclasses.fields(obj)}
    for k, v in vals.items():
        if k not in names:
            continue
        got = getattr(obj, k)
        if isinstance(got, enum.Enum):
            got = int(got)
        if got != v or (isinstance(v, bool) != isinstance(got, bool)):
            return f"field {k} = {got!r}, message has {v!r}"
    if "key" in names and "key" not in vals:
        return "no key"
    return None


def build(m):
    """story message -> pb message"""
    from aioesphomeapi import api_pb2 as pb
    k = m[0]
    if k == "st":
        return m[4]
    if k == "cam":
        return pb.CameraImageResponse(key=m[1], data=bytes(m[2]), done=m[3])
    if k == "lg":
        return pb.SubscribeLogsResponse(level=3, message=b"log%d" % m[1])
    if k == "sc":
        return pb.HomeassistantServiceResponse(service="svc%d" % m[1], is_event=bool(m[1] % 2),
                                               data=[pb.HomeassistantServiceMap(key="k", value="v%d" % m[1])])
    if k == "ha":
        return pb.SubscribeHomeAssistantStateResponse(entity_id="e%d" % m[1], attribute=("a%d" % m[2]) if m[2] else "", once=m[3])
    if k == "adv":
        return pb.BluetoothLEAdvertisementResponse(address=m[1], rssi=-50, name=b"n%d" % m[1], address_type=1)
    if k == "raw":
        return pb.BluetoothLERawAdvertisementsResponse(advertisements=[pb.BluetoothLERawAdvertisement(address=m[1], rssi=-40, address_type=0, data=b"d%d" % m[1])])
    if k == "cf":
        return pb.BluetoothConnectionsFreeResponse(free=m[1], limit=m[2])
    if k == "var":
        return pb.VoiceAssistantRequest(start=m[1], conversation_id="c%d" % m[2], flags=m[3], wake_word_phrase=("w%d" % m[4]) if m[4] else "")
    if k == "vaa":
        return pb.VoiceAssistantAudio(data=b"au%d" % m[1] + (b"." * 40 if m[1] % 2 else b""), end=m[2])
    if k == "van":
        return pb.VoiceAssistantAnnounceFinished(success=bool(m[1] % 2))
    if k == "ot":
        return {0: pb.GetTimeResponse(epoch_seconds=5), 1: pb.ListEntitiesDoneResponse(), 2: pb.BluetoothGATTReadResponse(address=1, handle=2)}[m[1]]
    raise ValueError(m)


def mword(m):
    k = m[0]
    if k == "st":
        return f"M:st:{m[1]}:{m[2]}:{m[3]}"
    if k == "cam":
        return f"M:cam:{m[1]}:{bytes(m[2]).hex() or '-'}:{int(m[3])}"
    if k == "ha":
        return f"M:ha:{m[1]}:{m[2]}:{int(m[3])}"
    if k == "cf":
        return f"M:cf:{m[1]}:{m[2]}"
    if k == "var":
        return f"M:var:{int(m[1])}:{m[2]}:{m[3]}:{m[4]}"
    if k == "vaa":
        return f"M:vaa:{m[1]}:{int(m[2])}"
    return f"M:{k}:{m[1]}"


def model_words(story):
    out = []
    for st in story:
        if st[0] == "sub":
            out.append(f"S:{st[1]}:{st[2]}")
        elif st[0] == "feed":
            for m in st[1]:
                out.append(mword(m))
                if m[0] == "var" and m[1] and len(m) > 5 and m[5] is not None:
                    # handlers that return at once: completions of the tasks this message starts, per live va subscription
                    for sid, task in m[6]:
                        out.append(f"D:{sid}:{task}:{m[5]}")
        elif st[0] == "unsub":
            out.append(f"U:{st[1]}")
        elif st[0] == "done":
            out.append(f"D:{st[1]}:{st[2]}:{st[3]}")
    return out


def model_counts(story):
    """number of model events per story step"""
    out = []
    for st in story:
        if st[0] == "feed":
            n = 0
            for m in st[1]:
                n += 1
                if m[0] == "var" and m[1] and len(m) > 5 and m[5] is not None:
                    n += len(m[6])
            out.append(n)
        else:
            out.append(1)
    return out


# ----------------------------------------------------------------------------------------------------- implementation
def decode_write(ty, payload):
    from aioesphomeapi.core import MESSAGE_TYPE_TO_PROTO
    cls = MESSAGE_TYPE_TO_PROTO.get(ty)
    if cls is None:
        return "W.type%d" % ty
    msg = cls.FromString(payload)
    n = cls.__name__
    if n == "SubscribeStatesRequest":
        return "W.sub.st"
    if n == "SubscribeLogsRequest":
        return "W.sub.lg" + ("" if (msg.level, msg.dump_config) == (0, False) else f"[{msg.level},{msg.dump_config}]")
    if n == "SubscribeHomeassistantServicesRequest":
        return "W.sub.sc"
    if n == "SubscribeHomeAssistantStatesRequest":
        return "W.sub.ha"
    if n == "SubscribeBluetoothLEAdvertisementsRequest":
        return "W.sub.adv" if msg.flags == 0 else ("W.sub.raw" if msg.flags == 1 else f"W.sub.adv?flags={msg.flags}")
    if n == "SubscribeBluetoothConnectionsFreeRequest":
        return "W.sub.cf"
    if n == "UnsubscribeBluetoothLEAdvertisementsRequest":
        return "W.unsubadv"
    if n == "SubscribeVoiceAssistantRequest":
        return ("W.sub.va[flags=%d]" % msg.flags) if msg.subscribe else "W.vaunsub"
    if n == "VoiceAssistantResponse":
        return "W.varesp.err" if msg.error else "W.varesp.%d" % msg.port
    return "W." + n


def run_story(story):
    """Run on the real APIClient; per step: list of (sub id | None, text).
    Stories of even length run with debug logging on (records discarded): nothing observable may depend on it."""
    debug = len(story) % 2 == 0

    async def go(loop):
        net = simnet.Net(loop)
        log = []
        steps = []
        with net.patched(), common.debug_logging(debug):
            cli, tr = await simnet.connected_client(loop, net, keepalive=1e7)
            cli.set_debug(debug)

            class WriteLog(list):
                def append(self, item):
                    for ty, payload in simnet.decode_plain_stream(item[1]):
                        log.append((None, decode_write(ty, payload)))
                    list.append(self, item)
            tr.writes = WriteLog(tr.writes)
            unsubs = {}
            futs = {}
            counters = {}
            table = {}      # (pb class name, key, uid) -> expected values, to recognise the converted objects

            def on_state(sid, obj):
                from aioesphomeapi.model import CameraState
                if type(obj) is CameraState:
                    log.append((sid, "cam.%d.%s" % (obj.key, bytes(obj.data).hex() or "-")))
                    return
                for (ty, pbname, uid), vals in current_states.items():
                    if (sid, uid) not in consumed and matches(obj, pbname, vals) is None and obj.key == vals["key"]:
                        consumed.add((sid, uid))
                        log.append((sid, "st.%d.%d.%d" % (ty, vals["key"], uid)))
                        return
                why = [matches(obj, pbname, vals) for (ty, pbname, uid), vals in current_states.items()]
                log.append((sid, "st.BAD %r (%s)" % (obj, "; ".join(map(str, why))[:200])))

            current_states = {}
            consumed = set()

            def num(s, prefix):
                return int(s[len(prefix):]) if s else 0

            for st in story:
                del log[:]
                current_states.clear()
                if st[0] == "sub":
                    sid, kind = st[1], st[2]
                    if kind == "st":
                        cli.subscribe_states(lambda o, sid=sid: on_state(sid, o))
                    elif kind == "lg":
                        cli.subscribe_logs(lambda m, sid=sid: log.append((sid, "lg.%d" % num(m.message.decode(), "log"))))
                    elif kind == "sc":
                        def on_sc(c, sid=sid):
                            n = num(c.service, "svc")
                            ok = c.is_event == bool(n % 2) and c.data == {"k": "v%d" % n}
                            log.append((sid, "sc.%d" % n if ok else "sc.BAD %r" % (c,)))
                        cli.subscribe_service_calls(on_sc)
                    elif kind in ("ha0", "ha1"):
                        on_sub = lambda e, a, sid=sid: log.append((sid, "has.%d.%d" % (num(e, "e"), num(a, "a"))))
                        on_req = (lambda e, a, sid=sid: log.append((sid, "har.%d.%d" % (num(e, "e"), num(a, "a"))))) if kind == "ha1" else None
                        cli.subscribe_home_assistant_states(on_sub, on_req)
                    elif kind == "adv":
                        def on_adv(a, sid=sid):
                            ok = a.rssi == -50 and a.name == "n%d" % a.address and a.address_type == 1
                            log.append((sid, "adv.%d" % a.address if ok else "adv.BAD %r" % (a,)))
                        unsubs[sid] = cli.subscribe_bluetooth_le_advertisements(on_adv)
                    elif kind == "raw":
                        def on_raw(m, sid=sid):
                            a = m.advertisements[0]
                            ok = a.data == b"d%d" % a.address and a.rssi == -40
                            log.append((sid, "raw.%d" % a.address if ok else "raw.BAD"))
                        unsubs[sid] = cli.subscribe_bluetooth_le_raw_advertisements(on_raw)
                    elif kind == "cf":
                        unsubs[sid] = cli.subscribe_bluetooth_connections_free(lambda f, l, sid=sid: log.append((sid, "cf.%d.%d" % (f, l))))
                    elif kind.startswith("va"):
                        counters[sid] = 0

                        async def handle_start(conv, flags, settings, wake, sid=sid):
                            t = counters[sid]
                            counters[sid] += 1
                            log.append((sid, "vastart.%d.%d.%d.%s" % (t, num(conv, "c"), flags, "none" if wake is None else num(wake, "w"))))
                            imm = immediate.get("r")
                            if imm is not None:
                                r = imm
                            else:
                                fut = loop.create_future()
                                futs[(sid, t)] = fut
                                try:
                                    r = await fut
                                except asyncio.CancelledError:
                                    log.append((sid, "cancel.%d" % t))
                                    raise
                            if r == "x":
                                raise RuntimeError("handler failed")
                            return None if r == "n" else int(r[1:])

                        async def handle_stop(abort, sid=sid):
                            log.append((sid, "vastop.%d" % int(abort)))

                        async def handle_audio(data, sid=sid):
                            log.append((sid, "vaaudio.%d" % num(data.decode().rstrip("."), "au") if data.decode().count(".") in (0, 40) else "vaaudio.BAD %r" % (data,)))

                        async def handle_ann(fin, sid=sid):
                            log.append((sid, "vaann.%d" % int(fin.success)))
                        unsubs[sid] = cli.subscribe_voice_assistant(
                            handle_start=handle_start, handle_stop=handle_stop,
                            handle_audio=handle_audio if kind[2] == "1" else None,
                            handle_announcement_finished=handle_ann if kind[3] == "1" else None)
                    await simnet.drain(loop)
                elif st[0] == "feed":
                    data = b""
                    for m in st[1]:
                        if m[0] == "st":
                            current_states[(m[1], type(m[4]).__name__, m[3])] = m[5]
                    # handlers returning at once: one setting per chunk (the story keeps such requests in chunks of their own)
                    immediate.clear()
                    for m in st[1]:
                        if m[0] == "var" and m[1] and len(m) > 5 and m[5] is not None:
                            immediate["r"] = m[5]
                    tr.feed(b"".join(simnet.plain_msg(build(m)) for m in st[1]))
                    await simnet.drain(loop)
                    immediate.clear()
                elif st[0] == "unsub":
                    if st[1] in unsubs:
                        unsubs[st[1]]()
                    await simnet.drain(loop)
                elif st[0] == "done":
                    fut = futs.get((st[1], st[2]))
                    if fut is not None and not fut.done():
                        fut.set_result(st[3])
                    await simnet.drain(loop)
                steps.append(list(log))
            for f in futs.values():
                if not f.done():
                    f.cancel()
            await simnet.drain(loop)
        return steps
    immediate = {}
    loop_handler_errors = []
    return simnet.run(go)


# ------------------------------------------------------------------------------------------------------------ compare
def va_audio_announce_norm(text):
    return text


def parse_model(line, story):
    parts = line.split("|")[1:]
    out, i = [], 0
    for st, n in zip(story, model_counts(story)):
        writes, perid = [], {}
        for p in parts[i:i + n]:
            for o in filter(None, p.split(",")):
                sid, _, body = o.partition("=")
                if body.startswith("W."):
                    writes.append(body)
                else:
                    perid.setdefault(int(sid), []).append(body)
        i += n
        out.append((sorted(writes), perid))
    return out


def norm_write(w):
    """implementation write -> the model's abstraction of it (request parameters are checked by the predicate)"""
    if w.startswith("W.sub.va[flags="):
        return "W.sub.va"
    if w.startswith("W.sub.lg"):
        return "W.sub.lg"
    return w


def norm_model_write(w):
    if w.startswith("W.sub.va"):
        return "W.sub.va"
    if w.startswith("W.sub.ha"):
        return "W.sub.ha"
    return w


def announce_norm(perid):
    """the model carries the announce payload id, the implementation exposes success = id % 2"""
    out = {}
    for k, v in perid.items():
        out[k] = [("vaann.%d" % (int(e.split(".")[1]) % 2)) if e.startswith("vaann.") else e for e in v]
    return out


def compare(story, steps, mline):
    mv = parse_model(mline, story)
    for idx, (st, events, (mw, mper)) in enumerate(zip(story, steps, mv)):
        iw = sorted(norm_write(t) for sid, t in events if sid is None)
        mw = sorted(norm_model_write(w) for w in mw)
        if iw != mw:
            return idx, f"step {idx} {short(st)}: frames written {iw}, model {mw}"
        iper = {}
        for sid, t in events:
            if sid is not None:
                iper.setdefault(sid, []).append(t)
        mper = announce_norm(mper)
        if iper != mper:
            return idx, f"step {idx} {short(st)}: handler calls {iper}, model {mper}"
    return None


def short(st):
    if st[0] == "feed":
        return ("feed", [m[:4] if m[0] == "st" else m[:5] for m in st[1]])
    return st


# -------------------------------------------------------------------------------------- the property, from the story
def api_audio_flag():
    # the value the client puts on the wire for "send me the audio over the API" is model.py's (C17 does not constrain it;
    # api.proto's VoiceAssistantSubscribeFlag says 1, model.VoiceAssistantSubscriptionFlag says 4 - recorded in DESIGN.md)
    from aioesphomeapi.model import VoiceAssistantSubscriptionFlag
    return int(VoiceAssistantSubscriptionFlag.API_AUDIO)


def predicate(story, steps):
    subs = {}
    live = {}
    tasks = {}          # (sid, task) -> "running" | "cancelled" | result text
    ntask = {}
    latest = {}
    buffers = {}        # (sid, key) -> bytes so far
    for idx, (st, events) in enumerate(zip(story, steps)):
        got = {}
        for sid, t in events:
            if sid is not None:
                got.setdefault(sid, []).append(t)
        writes = [t for sid, t in events if sid is None]
        exp = {}
        exp_writes = []
        if st[0] == "sub":
            subs[st[1]] = st[2]
            live[st[1]] = True
            ntask[st[1]] = 0
            k = st[2]
            exp_writes.append({"st": "W.sub.st", "lg": "W.sub.lg", "sc": "W.sub.sc", "ha0": "W.sub.ha", "ha1": "W.sub.ha", "adv": "W.sub.adv",
                               "raw": "W.sub.raw", "cf": "W.sub.cf"}.get(k) or "W.sub.va[flags=%d]" % (api_audio_flag() if k[2] == "1" else 0))
        elif st[0] == "feed":
            for m in st[1]:
                for sid, k in subs.items():
                    if not live[sid]:
                        continue
                    e = exp.setdefault(sid, [])
                    if k == "st" and m[0] == "st":
                        e.append("st.%d.%d.%d" % (m[1], m[2], m[3]))
                    elif k == "st" and m[0] == "cam":
                        buf = buffers.get((sid, m[1]), b"") + bytes(m[2])
                        if m[3]:
                            e.append("cam.%d.%s" % (m[1], buf.hex() or "-"))
                            buffers.pop((sid, m[1]), None)
                        else:
                            buffers[(sid, m[1])] = buf
                    elif k == "lg" and m[0] == "lg":
                        e.append("lg.%d" % m[1])
                    elif k == "sc" and m[0] == "sc":
                        e.append("sc.%d" % m[1])
                    elif k in ("ha0", "ha1") and m[0] == "ha":
                        e.append(("har" if (k == "ha1" and m[3]) else "has") + ".%d.%d" % (m[1], m[2]))
                    elif k == "adv" and m[0] == "adv":
                        e.append("adv.%d" % m[1])
                    elif k == "raw" and m[0] == "raw":
                        e.append("raw.%d" % m[1])
                    elif k == "cf" and m[0] == "cf":
                        e.append("cf.%d.%d" % (m[1], m[2]))
                    elif k.startswith("va") and m[0] == "var":
                        if m[1]:
                            t = ntask[sid]
                            ntask[sid] += 1
                            latest[sid] = t
                            e.append("vastart.%d.%d.%d.%s" % (t, m[2], m[3], m[4] if m[4] else "none"))
                            if len(m) > 5 and m[5] is not None:
                                tasks[(sid, t)] = m[5]
                                if m[5] != "x":
                                    exp_writes.append("W.varesp.err" if m[5] == "n" else "W.varesp.%s" % m[5][1:])
                            else:
                                tasks[(sid, t)] = "running"
                        else:
                            e.append("vastop.1")
                    elif k.startswith("va") and m[0] == "vaa" and k[2] == "1":
                        e.append("vastop.0" if m[2] else "vaaudio.%d" % m[1])
                    elif k.startswith("va") and m[0] == "van" and k[3] == "1":
                        e.append("vaann.%d" % (m[1] % 2))
        elif st[0] == "unsub":
            sid = st[1]
            k = subs.get(sid)
            if k in ("adv", "raw"):
                live[sid] = False
                exp_writes.append("W.unsubadv")
            elif k == "cf":
                live[sid] = False
            elif k and k.startswith("va"):
                live[sid] = False
                exp_writes.append("W.vaunsub")
                t = latest.get(sid)
                if t is not None and tasks.get((sid, t)) == "running":
                    tasks[(sid, t)] = "cancelled"
                    exp.setdefault(sid, []).append("cancel.%d" % t)
        elif st[0] == "done":
            sid, t, r = st[1], st[2], st[3]
            if tasks.get((sid, t)) == "running":
                tasks[(sid, t)] = r
                if r != "x":
                    exp_writes.append("W.varesp.err" if r == "n" else "W.varesp.%s" % r[1:])
        exp = {k: v for k, v in exp.items() if v}
        if got != exp:
            for sid in sorted(set(got) | set(exp)):
                g, e = got.get(sid, []), exp.get(sid, [])
                if g != e:
                    kind = subs.get(sid, "?")
                    if not live.get(sid, True) and g:
                        return ("C17/delivered-after-unsubscribe", f"step {idx} {short(st)}: subscription {sid} ({kind}) was unsubscribed, yet its handler got {g}")
                    if any("BAD" in x for x in g):
                        return ("C17/wrong-values", f"step {idx} {short(st)}: subscription {sid} ({kind}) handler got {g}, expected {e}")
                    if any(x.startswith("cam.") for x in g + e) and [x for x in g if not x.startswith("cam.")] == [x for x in e if not x.startswith("cam.")]:
                        return ("C17/camera-image", f"step {idx} {short(st)}: subscription {sid} completed images {[x for x in g if x.startswith('cam.')]}, the chunks of each key since its previous completion give {[x for x in e if x.startswith('cam.')]}")
                    if len(g) != len(e):
                        return ("C17/callback-count", f"step {idx} {short(st)}: subscription {sid} ({kind}) handler calls {g}, expected exactly {e}")
                    return ("C17/callback", f"step {idx} {short(st)}: subscription {sid} ({kind}) handler calls {g}, expected {e}")
        if sorted(writes) != sorted(exp_writes):
            if any(w.startswith("W.varesp") for w in writes + exp_writes):
                return ("C17/voice-assistant-response", f"step {idx} {short(st)}: responses written {sorted(writes)}, the handlers' results give {sorted(exp_writes)}")
            return ("C17/frames", f"step {idx} {short(st)}: frames written {sorted(writes)}, expected {sorted(exp_writes)}")
    return None


# -------------------------------------------------------------------------------------------------------------- stories
def gen_story(rng, states):
    story = []
    uid = [500]
    subs = {}
    nsub = 0
    live_va = {}      # sid -> next task
    running = []      # (sid, task)
    cam_keys = [1, 2, 3]

    def new_sub(kind):
        nonlocal nsub
        nsub += 1
        subs[nsub] = kind
        if kind.startswith("va"):
            live_va[nsub] = 0
        story.append(("sub", nsub, kind))

    focus = rng.choice(["states", "states", "camera", "va", "mixed", "mixed"])
    for k in rng.sample(KINDS, rng.randrange(1, 5)):
        new_sub(k)
    if focus in ("states", "camera") and "st" not in subs.values():
        new_sub("st")
    if focus == "va" and not live_va:
        new_sub(rng.choice(["va11", "va10", "va01", "va00"]))

    def rand_msg():
        uid[0] += 1
        r = rng.random()
        if focus == "states":
            pool = ["st"] * 8 + ["cam", "lg", "ot"]
        elif focus == "camera":
            pool = ["cam"] * 8 + ["st", "st", "ot"]
        elif focus == "va":
            pool = ["var"] * 5 + ["vaa"] * 3 + ["van", "st", "lg"]
        else:
            pool = ["st", "st", "cam", "cam", "lg", "sc", "ha", "adv", "raw", "cf", "var", "vaa", "van", "ot"]
        k = rng.choice(pool)
        if k == "st":
            ty, cls = rng.choice(states)
            msg, vals = rand_state(rng, ty, cls, uid[0])
            return ("st", ty, vals["key"], uid[0], msg, vals)
        if k == "cam":
            return ("cam", rng.choice(cam_keys), list(rng.randbytes(rng.choice([0, 1, 1, 2, 3]))), rng.random() < 0.35)
        if k == "ha":
            return ("ha", uid[0], rng.choice([0, uid[0]]), rng.random() < 0.5)
        if k == "cf":
            return ("cf", rng.randrange(0, 4), 3)
        if k == "var":
            start = rng.random() < 0.7
            return ("var", start, uid[0], rng.choice([0, 1, 3]), rng.choice([0, uid[0]]))
        if k == "vaa":
            return ("vaa", uid[0], rng.random() < 0.3)
        if k == "ot":
            return ("ot", rng.randrange(3))
        return (k, uid[0])

    for _ in range(rng.randrange(3, 14)):
        r = rng.random()
        if r < 0.70:
            msgs = [rand_msg() for _ in range(rng.choice([1, 1, 2, 3, 5]))]
            # a start request whose handlers return at once travels alone
            if len(msgs) == 1 and msgs[0][0] == "var" and msgs[0][1] and rng.random() < 0.3:
                res = rng.choice(["p6000", "n", "x", "p0"])
                started = []
                for sid in live_va:
                    started.append((sid, live_va[sid]))
                msgs = [msgs[0] + (res, started)]
            for m in msgs:
                if m[0] == "var" and m[1]:
                    for sid in live_va:
                        if len(m) <= 5 or m[5] is None:
                            running.append((sid, live_va[sid]))
                        live_va[sid] += 1
            story.append(("feed", msgs))
        elif r < 0.80 and running:
            sid, t = running.pop(rng.randrange(len(running)))
            story.append(("done", sid, t, rng.choice(["p%d" % rng.choice([1, 6053, 65535]), "p7", "n", "x"])))
        elif r < 0.90 and subs:
            sid = rng.choice(list(subs))
            story.append(("unsub", sid))
            live_va.pop(sid, None)
        elif r < 0.96 and len(subs) < 7:
            new_sub(rng.choice(KINDS))
        elif running:
            # completion of a task that may have been cancelled or already answered
            sid, t = rng.choice(running)
            story.append(("done", sid, t, "p9"))
    for sid, t in running:
        if rng.random() < 0.7:
            story.append(("done", sid, t, rng.choice(["p4", "n"])))
    return story


def all_state_types_story(rng, states):
    """every state type once, twice in a row and around camera chunks: one subscription and two side by side"""
    uid = 700
    msgs = []
    for ty, cls in states:
        for _ in range(2):
            uid += 1
            msg, vals = rand_state(rng, ty, cls, uid)
            msgs.append(("st", ty, vals["key"], uid, msg, vals))
    rng.shuffle(msgs)
    story = [("sub", 1, "st")]
    for i in range(0, len(msgs), 4):
        chunk = msgs[i:i + 4]
        if i % 8 == 0:
            chunk.insert(1, ("cam", 1, [i % 256], i % 16 == 8))
        story.append(("feed", chunk))
        if i == 20:
            story.append(("sub", 2, "st"))
    return story


def camera_stories(rng, tier):
    out = []
    n = 40 if tier == "quick" else 600
    for _ in range(n):
        keys = rng.sample([1, 2, 3, 4], rng.choice([1, 2, 3]))
        msgs = []
        for _ in range(rng.randrange(2, 12)):
            msgs.append(("cam", rng.choice(keys), list(rng.randbytes(rng.choice([0, 1, 2, 2, 33, 70]))), rng.random() < 0.4))
        story = [("sub", 1, "st")]
        i = 0
        while i < len(msgs):
            c = rng.choice([1, 1, 2, 3])
            story.append(("feed", msgs[i:i + c]))
            i += c
        out.append(story)
    return out


def jsonable(story):
    out = []
    for st in story:
        if st[0] == "feed":
            ms = []
            for m in st[1]:
                if m[0] == "st":
                    ms.append(["st", m[1], m[2], m[3], type(m[4]).__name__, {k: (v.hex() if isinstance(v, bytes) else v) for k, v in m[5].items()}])
                else:
                    ms.append(list(m))
            out.append(["feed", ms])
        else:
            out.append(list(st))
    return out


def from_json(js):
    from aioesphomeapi import api_pb2 as pb
    story = []
    for st in js:
        if st[0] == "feed":
            ms = []
            for m in st[1]:
                if m[0] == "st":
                    cls = getattr(pb, m[4])
                    vals = {}
                    msg = cls()
                    from google.protobuf.descriptor import FieldDescriptor as FD
                    for f in cls.DESCRIPTOR.fields:
                        if f.name in m[5]:
                            v = m[5][f.name]
                            if f.type == FD.TYPE_BYTES:
                                v = bytes.fromhex(v)
                            setattr(msg, f.name, v)
                            vals[f.name] = v
                    ms.append(("st", m[1], m[2], m[3], msg, vals))
                elif m[0] == "var" and len(m) > 5:
                    ms.append((m[0], m[1], m[2], m[3], m[4], m[5], [tuple(x) for x in m[6]]))
                else:
                    ms.append(tuple(m))
            story.append(("feed", ms))
        else:
            story.append(tuple(st))
    return story


def shrink(story, fails):
    cur = list(story)
    changed = True
    while changed:
        changed = False
        for i in range(len(cur) - 1, -1, -1):
            if cur[i][0] == "sub":
                continue
            cand = cur[:i] + cur[i + 1:]
            if any(m[0] == "var" and m[1] for s in cur[i:i + 1] if s[0] == "feed" for m in s[1]) and any(s[0] == "done" for s in cand):
                continue
            try:
                if fails(cand):
                    cur, changed = cand, True
            except Exception:
                pass
        for i, st in enumerate(cur):
            if st[0] == "feed" and len(st[1]) > 1:
                for j in range(len(st[1])):
                    if st[1][j][0] == "var" and st[1][j][1]:
                        continue
                    cand = cur[:i] + [("feed", st[1][:j] + st[1][j + 1:])] + cur[i + 1:]
                    try:
                        if fails(cand):
                            cur, changed = cand, True
                            break
                    except Exception:
                        pass
    return cur


def self_unsub_probe(kind, who, bad_name=False):
    """Three subscriptions of the same kind; subscriber `who` unsubscribes itself from inside its own callback (the one-shot
    pattern). The message that triggers it still reaches every subscriber exactly once, the next one reaches the other two.
    With bad_name the advertisement carries a local name that is not valid UTF-8. Returns the callbacks per message."""
    async def go(loop):
        from aioesphomeapi import api_pb2 as pb
        net = simnet.Net(loop)
        per_msg = []
        with net.patched():
            cli, tr = await simnet.connected_client(loop, net)
            log, unsubs = [], {}

            def make(i):
                def cb(*a):
                    log.append(i)
                    if i == who:
                        unsubs[i]()
                return cb
            for i in range(3):
                if kind == "adv":
                    unsubs[i] = cli.subscribe_bluetooth_le_advertisements(make(i))
                elif kind == "raw":
                    unsubs[i] = cli.subscribe_bluetooth_le_raw_advertisements(make(i))
                else:
                    unsubs[i] = cli.subscribe_bluetooth_connections_free(make(i))
            await simnet.drain(loop)
            for n in range(3):
                del log[:]
                if kind == "adv":
                    m = pb.BluetoothLEAdvertisementResponse(address=7 + n, rssi=-50, name=b"Caf\xe9 tag" if bad_name else b"n", address_type=1)
                elif kind == "raw":
                    m = pb.BluetoothLERawAdvertisementsResponse(advertisements=[pb.BluetoothLERawAdvertisement(address=7 + n, rssi=-40, data=b"d")])
                else:
                    m = pb.BluetoothConnectionsFreeResponse(free=2, limit=3)
                tr.feed(simnet.plain_msg(m))
                await simnet.drain(loop)
                per_msg.append(sorted(log))
            alive = priv(cli, "_connection") is not None and priv(cli, "_connection").is_connected
            await cli.disconnect(force=True)
            await simnet.drain(loop)
        return per_msg, alive
    return simnet.run(go)


def mutating_subscriber_probe(kind):
    """A subscriber that treats what it receives as its own (appends to the lists, adds to the dicts, overwrites the attributes of the
    model it was handed - a scanner folding the previous advertisement into the new one does that); a second client of the same
    process listens too. Every later message still arrives, on both clients, as the model of THAT message's values.
    Returns a list of problems."""
    async def go(loop):
        import dataclasses
        from aioesphomeapi import api_pb2 as pb
        from aioesphomeapi import model
        from checks.c14 import plain
        net = simnet.Net(loop)
        problems = []
        if kind == "adv":
            msgs = [pb.BluetoothLEAdvertisementResponse(address=7, rssi=-50, name=b"a", address_type=1),
                    pb.BluetoothLEAdvertisementResponse(address=8, rssi=-51, name=b"b", address_type=0),
                    pb.BluetoothLEAdvertisementResponse(address=9, rssi=-52, name=b"c", address_type=1, service_uuids=["0000180f-0000-1000-8000-00805f9b34fb"]),
                    pb.BluetoothLEAdvertisementResponse(address=7, rssi=-53, name=b"a", address_type=1)]
            mdl = model.BluetoothLEAdvertisement
            sub = "subscribe_bluetooth_le_advertisements"
        else:
            msgs = [pb.HomeassistantServiceResponse(service="light.turn_on"),
                    pb.HomeassistantServiceResponse(service="light.turn_off", is_event=False),
                    pb.HomeassistantServiceResponse(service="x.y", data=[pb.HomeassistantServiceMap(key="k", value="v")]),
                    pb.HomeassistantServiceResponse(service="light.turn_on")]
            mdl = model.HomeassistantServiceCall
            sub = "subscribe_service_calls"
        want = [plain(mdl.from_pb(m)) for m in msgs]

        def spoil(obj):
            for f in dataclasses.fields(obj):
                v = getattr(obj, f.name)
                try:
                    if isinstance(v, list):
                        v.append("spoiled")
                    elif isinstance(v, dict):
                        v["spoiled"] = "spoiled"
                    elif isinstance(v, (str, bytes, int)) and not isinstance(v, bool):
                        setattr(obj, f.name, type(v)())
                except Exception:  # noqa: BLE001  (frozen models refuse: fine)
                    pass
        with net.patched():
            cli_a, tr_a = await simnet.connected_client(loop, net)
            cli_b, tr_b = await simnet.connected_client(loop, net)
            got_a, got_b = [], []

            def on_a(obj):
                got_a.append(plain(obj))
                spoil(obj)
            getattr(cli_a, sub)(on_a)
            getattr(cli_b, sub)(lambda obj: got_b.append(plain(obj)))
            await simnet.drain(loop)
            for m in msgs:
                tr_a.feed(simnet.plain_msg(m))
                await simnet.drain(loop)
                tr_b.feed(simnet.plain_msg(m))
                await simnet.drain(loop)
            for who, got in (("the mutating subscriber itself", got_a), ("a subscriber on ANOTHER client", got_b)):
                if len(got) != len(msgs):
                    problems.append(f"{who} was called {len(got)} times for {len(msgs)} messages")
                    continue
                for i, (g, w) in enumerate(zip(got, want)):
                    if g != w:
                        diff = {k: (g.get(k), w[k]) for k in w if g.get(k) != w[k]} if isinstance(g, dict) else g
                        problems.append(f"message {i} reached {who} as {str(diff)[:200]} (received, message's own values)")
                        break
            for c in (cli_a, cli_b):
                await c.disconnect(force=True)
            await simnet.drain(loop)
        return problems
    return simnet.run(go)


def foreign_loop_va_probe():
    """The client object was constructed while another event loop was current (built before asyncio.run()); on the running loop a
    voice-assistant subscription gets a start request, audio and a stop request: each handler runs once and the start is answered
    with the port. Returns a list of problems."""
    cli, other = simnet.client_built_elsewhere()

    async def go(loop):
        from aioesphomeapi import api_pb2 as pb
        net = simnet.Net(loop)
        calls, problems = [], []

        async def handle_start(conv, flags, settings, wake):
            calls.append("start")
            return 7766

        async def handle_stop(abort):
            calls.append("stop")

        async def handle_audio(data):
            calls.append("audio")
        with net.patched():
            _, tr = await simnet.connected_client(loop, net, client=cli)
            cli.subscribe_voice_assistant(handle_start=handle_start, handle_stop=handle_stop, handle_audio=handle_audio)
            await simnet.drain(loop)
            n_w = len(tr.writes)
            r = tr.feed(simnet.plain_msg(pb.VoiceAssistantRequest(start=True, conversation_id="c", flags=1)))
            await simnet.drain(loop)
            if isinstance(r, BaseException):
                problems.append(f"{type(r).__name__}({r}) escaped from data_received")
            if not tr.closing:
                tr.feed(simnet.plain_msg(pb.VoiceAssistantAudio(data=b"pcm")))
                await simnet.drain(loop)
                tr.feed(simnet.plain_msg(pb.VoiceAssistantRequest(start=False)))
                await simnet.drain(loop)
            await simnet.advance(loop, by=1.0)
            answers = []
            for _, d in tr.writes[n_w:]:
                for ty, payload in simnet.decode_plain_stream(d):
                    if ty == 91:
                        m = pb.VoiceAssistantResponse()
                        m.ParseFromString(payload)
                        answers.append((m.port, m.error))
            if calls != ["start", "audio", "stop"]:
                problems.append(f"handlers invoked: {calls}, expected ['start', 'audio', 'stop']")
            if answers != [(7766, False)]:
                problems.append(f"answers to the start request: {answers}, expected one with port 7766")
            try:
                await cli.disconnect(force=True)
            except Exception:  # noqa: BLE001
                pass
            await simnet.drain(loop)
        return problems
    try:
        return simnet.run(go)
    except Exception as e:  # noqa: BLE001
        return ["raised " + type(e).__name__ + ": " + str(e)[:80]]
    finally:
        other.close()


def repeated_subscription_probe():
    """The same public subscription made again on a live session with the SAME handler - subscribe_logs() a second and third time
    (the only way to change the log level of a running session), subscribe_states() again: the handler is invoked once per
    message. Returns a list of problems."""
    async def go(loop):
        from aioesphomeapi import api_pb2 as pb
        from aioesphomeapi.model import LogLevel
        net = simnet.Net(loop)
        problems = []
        with net.patched():
            cli, tr = await simnet.connected_client(loop, net)
            logs = []

            class App:
                def on_log(self, m):
                    logs.append(bytes(m.message))
            app = App()
            for k, level in enumerate((LogLevel.LOG_LEVEL_INFO, LogLevel.LOG_LEVEL_DEBUG, LogLevel.LOG_LEVEL_VERY_VERBOSE)):
                cli.subscribe_logs(app.on_log, log_level=level)
                await simnet.drain(loop)
                del logs[:]
                tr.feed(simnet.plain_msg(pb.SubscribeLogsResponse(level=3, message=b"line %d" % k)))
                await simnet.drain(loop)
                if logs != [b"line %d" % k]:
                    problems.append(f"subscribe_logs() called {k + 1} time(s) with the same handler: one log message reached it as {logs}")
            await cli.disconnect(force=True)
            await simnet.drain(loop)
        return problems
    return simnet.run(go)


def run(rep, tier, seed):
    rng = random.Random(seed)
    rep.coverage["rule"] = (
        "stories = 1-7 subscriptions side by side out of {states, logs, service calls, home-assistant states with/without request handler, "
        "advertisements, raw advertisements, connections-free, voice assistant with/without audio and announce handlers}, streams of all "
        "state types with every scalar field set (class and field values of each callback checked against the message), multi-chunk camera "
        "streams interleaved over up to 4 keys (empty chunks and single-chunk images included), voice-assistant start requests whose handlers "
        "return a port / None / raise at once or later or are cancelled by unsubscribe, unsubscribe calls (repeated too) at every point; "
        "non-trivial = at least two messages reach a live subscription; distinct by story")
    proofs_ok = rep.proofs(VFILE)
    ok, log = common.build_driver()
    if not ok:
        raise RuntimeError("driver build failed: " + log[-2000:])
    common.setup_impl_path()
    states = state_classes()
    rep.coverage["state_types"] = len(states)
    stories = [all_state_types_story(rng, states) for _ in range(3 if tier == "quick" else 30)] + camera_stories(rng, tier)
    for _ in range(300 if tier == "quick" else 5000):
        stories.append(gen_story(rng, states))
    mout = common.run_driver(["subs " + " ".join(model_words(s)) for s in stories])
    disagreements = []
    for story, mline in zip(stories, mout):
        steps = run_story(story)
        delivered = sum(1 for ev in steps for sid, t in ev if sid is not None)
        rep.case(json.dumps(jsonable(story)), nontrivial=delivered >= 2,
                 sample={"story": [short(s) for s in story][:6], "calls": [t for ev in steps for sid, t in ev if sid is not None][:8]} if rng.random() < 0.01 else None)
        for st in story:
            if st[0] == "sub":
                rep.bump("sub:" + st[2])
            elif st[0] == "feed":
                for m in st[1]:
                    rep.bump("msg:" + m[0])
                    if m[0] == "st":
                        rep.bump("state:" + type(m[4]).__name__)
            else:
                rep.bump("op:" + st[0])
        rep.coverage["traces_validated_against_impl"] += 1
        bad = predicate(story, steps)
        if bad is not None:
            small = shrink(story, lambda s: (predicate(s, run_story(s)) or ("",))[0] == bad[0])
            sbad = predicate(small, run_story(small)) or bad
            rep.violation(bad[0], sbad[1], {"kind": "impl-story", "story": jsonable(small)})
            continue
        diff = compare(story, steps, mline)
        if diff is not None:
            disagreements.append({"story": jsonable(story), "difference": diff[1]})
    for kind in ("cf", "adv", "raw"):
        for who in (0, 1, 2, None):
            for bad_name in ((False, True) if kind == "adv" else (False,)):
                per_msg, alive = self_unsub_probe(kind, who, bad_name)
                others = sorted(i for i in range(3) if i != who)
                want = [[0, 1, 2], others, others]
                rep.case(("self-unsub", kind, who, bad_name), True, sample={"self_unsubscribe": kind, "who": who, "callbacks_per_message": per_msg})
                rep.bump("probe:self-unsub")
                if per_msg != want or not alive:
                    rep.violation("C17/one-callback-per-message", f"three {kind} subscriptions, subscriber {who} unsubscribes itself inside its callback"
                                  f"{' (advertisement name is not valid UTF-8)' if bad_name else ''}: callbacks per message {per_msg}, expected {want}"
                                  f"{'' if alive else '; the connection was closed'}",
                                  {"kind": "self-unsub", "subscription": kind, "who": who, "bad_name": bad_name})
    problems = repeated_subscription_probe()
    rep.case(("repeated-subscription",), True, sample={"repeated_subscription": problems[:2]})
    rep.bump("probe:repeated-subscription")
    if problems:
        rep.violation("C17/callback-count", f"{problems[0]}; {len(problems)} problem(s): the matching handler is invoked once per message", {"kind": "repeated-subscription"})
    problems = foreign_loop_va_probe()
    rep.case(("foreign-loop-voice-assistant",), True, sample={"client_built_under_another_loop": "voice-assistant", "problems": problems})
    rep.bump("probe:foreign-loop")
    if problems:
        rep.violation("C17/voice-assistant", f"APIClient constructed while another event loop was current, voice-assistant subscription on the running loop: {'; '.join(problems[:3])}",
                      {"kind": "foreign-loop-va"})
    for kind in ("adv", "service-call"):
        problems = mutating_subscriber_probe(kind)
        rep.case(("mutating-subscriber", kind), True, sample={"mutating_subscriber": kind, "problems": problems[:2]})
        rep.bump("probe:mutating-subscriber")
        if problems:
            rep.violation("C17/callback-values", f"{kind} subscription whose subscriber modifies the objects it receives: {problems[0]}; {len(problems)} problem(s)",
                          {"kind": "mutating-subscriber", "subscription": kind})
    rep.coverage["disagreements"] = len(disagreements)
    if disagreements and not rep.violations:
        d = disagreements[0]
        rep.violations.append(("C17/correspondence", "Model/Subs.v and the implementation disagree: " + d["difference"],
                               {"kind": "no-failing-input-found", "obligation": "correspondence Subs.sstep ~ client.py / client_callbacks.py",
                                "story": d["story"], "disagreements": len(disagreements)}))
    if not proofs_ok and not rep.violations:
        rep.proof_broken(rep.broken[0], rep.broken[1])


def replay(path):
    common.setup_impl_path()
    d = json.loads(open(path).read())["replay"]
    if d.get("kind") == "repeated-subscription":
        problems = repeated_subscription_probe()
        print(problems)
        return 1 if problems else 0
    if d.get("kind") == "foreign-loop-va":
        problems = foreign_loop_va_probe()
        print(problems)
        return 1 if problems else 0
    if d.get("kind") == "mutating-subscriber":
        problems = mutating_subscriber_probe(d["subscription"])
        print(problems)
        return 1 if problems else 0
    if d.get("kind") == "self-unsub":
        print(self_unsub_probe(d["subscription"], d["who"], d.get("bad_name", False)))
        return 0
    story = from_json(d["story"])
    steps = run_story(story)
    for st, ev in zip(story, steps):
        print(short(st), "->", ev)
    print("predicate:", predicate(story, steps))
    return 0
