"""C05 — see checks/connfamily.py (shared engine of the connection family) and coq/Properties/C05.v."""
from checks import connfamily

VFILE = "Properties/C05.v"
RULE = ("stories = hand-picked same-turn/close-window scenarios + (thorough) every position x every single extra event of base stories "
        "+ random connect/traffic/close stories with hop-delayed injections (vlib/connstories.py); each story runs on the real APIConnection "
        "under the virtual-time loop with every event-loop callback labelled, the model must accept the label sequence with equal "
        "projections/observations, and the C05 predicate is evaluated on the implementation's trace; non-trivial = the connection closes "
        "within a story of at least 8 labelled callbacks; distinct by label sequence")


def crowd_probe(n, victim_action):
    """`n` connection objects start their (hanging) connect at the same time; the attempt of the LAST one is cancelled (or the object is
    force-disconnected) while all the others are still in flight; then the others are closed. The victim's one attempt is over:
    a second start_connection() on it must be refused, it must not move towards connected again, and after a force_disconnect it
    reads CLOSED from then on. Returns a list of problems."""
    import asyncio
    from vlib import simnet

    async def go(loop):
        from aioesphomeapi.connection import APIConnection, ConnectionParams, ConnectionState as S
        from aioesphomeapi.zeroconf import ZeroconfManager
        net = simnet.Net(loop)
        net.connect_script = ["hang"] * n
        problems = []
        with net.patched():
            conns, tasks = [], []
            for k in range(n):
                params = ConnectionParams(addresses=[f"10.0.0.{k + 1}"], port=6053, password=None, client_info="v", keepalive=20.0,
                                          zeroconf_manager=ZeroconfManager(), noise_psk=None, expected_name=None)
                c = APIConnection(params, lambda e: None, False, None)
                conns.append(c)
                tasks.append(asyncio.ensure_future(c.start_connection()))
            await simnet.drain(loop)
            victim, vtask = conns[-1], tasks[-1]
            if victim_action == "cancel":
                vtask.cancel()
            else:
                victim.force_disconnect()
            await simnet.drain(loop)
            seen = [victim.connection_state.name]
            for c, t in zip(conns[:-1], tasks[:-1]):
                c.force_disconnect()
            await simnet.drain(loop)
            seen.append(victim.connection_state.name)
            if victim_action == "force" and seen != ["CLOSED", "CLOSED"]:
                problems.append(f"force_disconnect() on a connection whose start was in flight beside {n - 1} others: state read {seen}")
            for t in tasks:
                if not t.done():
                    t.cancel()
            await simnet.drain(loop)
            # the second attempt on the used object (the network would let it through)
            del net.connect_script[:]
            try:
                await asyncio.wait_for(victim.start_connection(), 400)
                problems.append(f"{victim_action} of a start that was in flight beside {n - 1} other connections: a SECOND start_connection() on the same object "
                                f"was accepted (state now {victim.connection_state.name}; states read after the {victim_action}: {seen})")
            except BaseException as e:  # noqa: BLE001
                if isinstance(e, (KeyboardInterrupt, SystemExit)):
                    raise
            if victim_action == "force" and victim.connection_state is not S.CLOSED:
                problems.append(f"closed connection left CLOSED: {victim.connection_state.name}")
            for c in conns:
                c.force_disconnect()
            await simnet.drain(loop)
        return problems
    return simnet.run(go)


def stale_awaitable_probe(phase):
    """Two awaitables of the same connect phase are taken from one object at the same moment; the first is awaited and the session
    established; then the second is awaited. Whenever the second is looked at, the object has already been used: the second must be
    refused and the visible state must not move (CONNECTED stays CONNECTED, is_connected stays True). Also: an awaitable taken
    before force_disconnect() and run afterwards must not open a socket for the closed object. Returns a list of problems."""
    import asyncio
    from vlib import simnet

    async def go(loop):
        from aioesphomeapi import api_pb2 as pb
        from aioesphomeapi.connection import APIConnection, ConnectionParams
        from aioesphomeapi.zeroconf import ZeroconfManager
        problems = []

        def mk():
            params = ConnectionParams(addresses=["10.0.0.1"], port=6053, password=None, client_info="v", keepalive=20.0,
                                      zeroconf_manager=ZeroconfManager(), noise_psk=None, expected_name=None)
            return APIConnection(params, lambda e: None, False, None)

        async def swallow(aw):
            try:
                await aw
                return "ok"
            except BaseException as e:  # noqa: BLE001
                if isinstance(e, (KeyboardInterrupt, SystemExit)):
                    raise
                return type(e).__name__
        net = simnet.Net(loop)
        with net.patched():
            c = mk()
            stale = None
            try:
                if phase == "start":
                    first, stale = c.start_connection(), c.start_connection()
                    await first
                    fin = asyncio.ensure_future(c.finish_connection(login=False))
                else:
                    await c.start_connection()
                    first, stale = c.finish_connection(login=False), c.finish_connection(login=False)
                    fin = asyncio.ensure_future(first)
            except BaseException as e:  # noqa: BLE001  (refusing the second request on the spot is as good)
                if stale is None and not isinstance(e, RuntimeError):
                    raise
                return problems
            await simnet.drain(loop)
            net.transports[-1].feed(simnet.plain_msg(pb.HelloResponse(api_version_major=1, api_version_minor=10, name="dev")))
            await simnet.drain(loop)
            await fin
            before = (c.connection_state.name, c.is_connected, len(net.sockets), len(net.transports))
            t = asyncio.ensure_future(swallow(stale))
            seen = set()
            for _ in range(40):
                await simnet.drain(loop)
                seen.add((c.connection_state.name, c.is_connected))
                if t.done():
                    break
            if not t.done():
                t.cancel()
                await simnet.drain(loop)
            after = (c.connection_state.name, c.is_connected, len(net.sockets), len(net.transports))
            if seen != {("CONNECTED", True)} or after != before or (t.done() and not t.cancelled() and t.result() == "ok"):
                problems.append(f"second {phase}_connection() awaitable of an object, awaited after the session was established: outcome "
                                f"{t.result() if t.done() and not t.cancelled() else 'pending'}, (state, is_connected) read meanwhile {sorted(seen)}, "
                                f"(state, is_connected, sockets, transports) {before} -> {after}")
            c.force_disconnect()
            await simnet.drain(loop)
            # requested before the close, run after it
            c2 = mk()
            n_s = len(net.sockets)
            aw = c2.start_connection()
            c2.force_disconnect()
            out = await swallow(aw)
            await simnet.drain(loop)
            if out == "ok" or len(net.sockets) != n_s or c2.connection_state.name != "CLOSED":
                problems.append(f"start_connection() requested before force_disconnect() and awaited after it: outcome {out}, {len(net.sockets) - n_s} socket(s) opened "
                                f"for the closed object, state {c2.connection_state.name}")
        return problems
    return simnet.run(go)


def run(rep, tier, seed):
    connfamily.run(rep, tier, seed, "C05", VFILE, RULE)
    for phase in ("start", "finish"):
        problems = stale_awaitable_probe(phase)
        rep.case(("stale-awaitable", phase), True, sample={"stale_awaitable": phase, "problems": problems})
        rep.bump("probe:stale-awaitable")
        if problems:
            rep.violation("C05/one-attempt", problems[0], {"kind": "stale-awaitable", "phase": phase})
    for n in ((2, 9, 12) if tier == "quick" else (2, 5, 8, 9, 10, 17, 33, 70)):
        for action in ("cancel", "force"):
            problems = crowd_probe(n, action)
            rep.case(("crowd", n, action), True, sample={"crowd": n, "victim": action, "problems": problems})
            rep.bump("probe:crowd")
            if problems:
                rep.violation("C05/one-attempt", problems[0], {"kind": "crowd", "n": n, "action": action})


def replay(path):
    import json
    d = json.loads(open(path).read())["replay"]
    if d.get("kind") == "stale-awaitable":
        from vlib import common
        common.setup_impl_path()
        problems = stale_awaitable_probe(d["phase"])
        print(problems)
        return 1 if problems else 0
    if d.get("kind") == "crowd":
        from vlib import common
        common.setup_impl_path()
        problems = crowd_probe(d["n"], d["action"])
        print(problems)
        return 1 if problems else 0
    return connfamily.replay(path, "C05")
