"""C13 — message-id registry equals api.proto ids; traffic respects direction.

Proof: coq/Properties/C13.v — generic checker-soundness lemmas applied (vm_compute) to tables that
are regenerated from /repo on every run by translate/gen_registry, gen_proto, gen_clientapi.
Translator validation: ast registry == live dict; API-surface sweep in SimNet (observed sent /
subscribed types must be a subset of the translated ones and respect the direction options);
every registered id sent through process_packet selects the registered class."""
from vlib.privnames import priv, has_priv
import asyncio
import inspect
import json
import typing

from vlib import common, simnet
from translate import all as translate_all
from translate import gen_clientapi, gen_proto, gen_registry
from translate.util import TranslationError

VFILE = "Properties/C13.v"


def synth_arg(name, ann, variant):
    """A value for parameter (name, annotation). variant 0: optionals None / defaults; 1: supplied."""
    s = str(ann)
    if "Callable" in s:
        if "Coroutine" in s or "Awaitable" in s:
            async def cb(*a, **k):
                if variant == 3:
                    raise RuntimeError("the application's handler failed")
                if variant == 4:
                    await asyncio.get_running_loop().create_future()     # still busy when the subscription is dropped
                return 4242 if ("int" in s and variant != 2) else None
            return cb

        def scb(*a, **k):
            if variant == 7:
                raise RuntimeError("the application's callback failed")
            return None
        return scb
    variant = min(variant, 1) if "Callable" not in s else variant
    optional = "None" in s
    if optional and variant == 0:
        return None
    if name == "service":
        from aioesphomeapi.model import UserService, UserServiceArg, UserServiceArgType
        return UserService(name="s", key=1, args=[UserServiceArg(name="a", type=UserServiceArgType.INT),
                                                   UserServiceArg(name="b", type=UserServiceArgType.STRING_ARRAY)])
    if "dict[str, str]" in s:
        return {"k": "v"}
    if name == "data" and "dict" in s.lower():
        return {"a": 1, "b": ["x"]}
    if name == "data" and "bytes" in s:
        return b"\x01\x02"
    if "tuple[float, float, float]" in s:
        return (0.1, 0.2, 0.3)
    if "list[str]" in s:
        return ["w"]
    if "dict[str, str]" in s:
        return {"k": "v"}
    import aioesphomeapi.model as model
    for cand in s.replace("|", " ").replace("'", " ").split():
        cand = cand.strip().rsplit(".", 1)[-1].strip("<>,[]")
        obj = getattr(model, cand, None)
        if inspect.isclass(obj) and issubclass(obj, model.APIIntEnum):
            return list(obj)[-1]
    if "bool" in s:
        return True
    if "float" in s:
        return 0.5
    if "int" in s:
        return 1
    if "str" in s:
        return "x"
    if "bytes" in s:
        return b"\x01"
    raise TranslationError(f"API sweep: cannot synthesise argument {name}: {s}")


async def sweep_method(loop, net, mname, variant):
    """Call one public method on a fresh connected client; return (sent ids, subscribed class names, outcome)."""
    from aioesphomeapi import api_pb2 as pb
    # variants 5 / 6: the device answers nothing at all; the call runs into its own time-out / is cancelled by its caller
    silent = variant in (5, 6)
    cancel_it = variant in (1, 6)
    if silent:
        variant = 1
    cli, tr = await simnet.connected_client(loop, net, api=(1, 10 if variant else 0))
    variant_cb = variant
    loop.set_exception_handler(lambda l, ctx: None)      # a failing application handler is reported to the loop: not what is observed here
    conn = priv(cli, "_connection")
    before_handlers = {k: set(v) for k, v in priv(conn, "_message_handlers").items()}
    n0 = len(tr.writes)
    meth = getattr(cli, mname)
    sig = inspect.signature(meth)
    hints = typing.get_type_hints(meth.__func__, include_extras=False) if hasattr(meth, "__func__") else {}
    kwargs = {}
    for pname, p in sig.parameters.items():
        ann = hints.get(pname, p.annotation)
        if p.default is not inspect.Parameter.empty and variant == 0 and "None" not in str(ann) and "Callable" not in str(ann):
            continue
        kwargs[pname] = synth_arg(pname, ann, variant)
    subscribed = set()

    def note_handlers():
        for k, v in priv(conn, "_message_handlers").items():
            if v - before_handlers.get(k, set()):
                subscribed.add(k.__name__)

    outcome = "ok"
    result = None
    try:
        r = meth(**kwargs)
        if inspect.isawaitable(r):
            task = asyncio.ensure_future(r)
            await simnet.drain(loop)
            note_handlers()
            # feed plausible responses so that follow-up sends (closures) become reachable
            for m in (pb.BluetoothGATTNotifyResponse(address=1, handle=1), pb.BluetoothGATTReadResponse(address=1, handle=1),
                      pb.BluetoothGATTWriteResponse(address=1, handle=1),
                      pb.BluetoothDeviceConnectionResponse(address=1, connected=True, mtu=23)):
                if not task.done() and not silent:
                    tr.feed(simnet.plain_msg(m))
                    await simnet.drain(loop)
            # an unanswered request runs into its own time-out (what is sent on that path counts too); variant 1 is cancelled instead
            if not task.done() and not cancel_it:
                for _ in range(12):
                    nt = loop.next_timer()
                    if task.done() or nt is None:
                        break
                    await simnet.advance(loop, to=nt + loop.base)
            if not task.done():
                task.cancel()
                await simnet.drain(loop)
                outcome = "cancelled"
            else:
                try:
                    result = task.result()
                except BaseException as e:  # noqa
                    outcome = type(e).__name__
        else:
            result = r
            note_handlers()
    except Exception as e:  # noqa
        outcome = "raised:" + type(e).__name__
    # a subscription is exercised: one message of every class it registered for, with every boolean field set (e.g. `once`), then a
    # plain one; with variant 7 the application's synchronous callbacks raise (the first raising callback ends the session, as with
    # asyncio's transports)
    if outcome == "ok" and subscribed and not inspect.isawaitable(result):
        for cname in sorted(subscribed):
            cls = getattr(pb, cname, None)
            if cls is None:
                continue
            flags = {fd.name: True for fd in cls.DESCRIPTOR.fields if fd.type == 8 and not fd.is_repeated}
            for m in ([cls(**flags)] if flags else []) + [cls()]:
                if not tr.closing:
                    tr.feed(simnet.plain_msg(m))
                    await simnet.drain(loop)
    if mname == "subscribe_voice_assistant" and outcome == "ok":
        tr.feed(simnet.plain_msg(pb.VoiceAssistantRequest(start=True, conversation_id="c")))
        await simnet.drain(loop)
    # returned closures (unsubscribe functions, stop_notify coroutine functions)
    closures = result if isinstance(result, tuple) else (result,)
    for c in closures:
        if callable(c):
            try:
                rr = c()
                if inspect.isawaitable(rr):
                    await rr
            except Exception:
                pass
    await simnet.drain(loop)
    sent = set()
    for _, data in tr.writes[n0:]:
        for ty, _payload in simnet.decode_plain_stream(data):
            sent.add(ty)
    await cli.disconnect(force=True)
    await simnet.drain(loop)
    return sent, subscribed, outcome


def run(rep, tier, seed):
    rep.coverage["rule"] = (
        "complete finite tables regenerated from the source: every registry entry, every api.proto message/enum, "
        "every compiled descriptor, every public APIClient entry point (x 2 argument variants: optionals omitted / supplied "
        "with API 1.0 / 1.10) and every registered id dispatched once; non-trivial = an entry point that sent or subscribed something, "
        "or a registry id; distinct by (entry point, variant) / id")
    rep.coverage["exhaustive"] = True
    # 1. regenerate + proofs
    try:
        changed = translate_all.run_all()
        rep.coverage["regenerated"] = changed
        proofs_ok = rep.proofs(VFILE)
    except TranslationError as e:
        proofs_ok = False
        rep.broken = ("translator", str(e))
        rep.coverage["obligations"] = len(common.count_obligations(VFILE))
        rep.coverage["checker_cmd"] = "translate/*.py (fail-closed) then make Properties/C13.vo"

    # 2. direct evaluation on the implementation (needs no model agreement)
    from aioesphomeapi import api_options_pb2 as opt
    from aioesphomeapi import api_pb2 as pb
    from aioesphomeapi.connection import MESSAGE_NUMBER_TO_PROTO, PROTO_TO_MESSAGE_TYPE
    from aioesphomeapi.core import MESSAGE_TYPE_TO_PROTO

    live = {k: v.DESCRIPTOR.name for k, v in MESSAGE_TYPE_TO_PROTO.items()}
    try:
        ast_reg = dict(gen_registry.extract())
        if ast_reg != live or list(ast_reg) != list(live):
            rep.violations.append(("C13/translator/registry", "ast-derived registry differs from the live dict",
                                   {"kind": "no-failing-input-found", "obligation": "translator gen_registry ~ core.MESSAGE_TYPE_TO_PROTO",
                                    "ast": sorted(set(ast_reg.items()) ^ set(live.items()))[:10]}))
    except TranslationError:
        pass
    # ids declared in the proto text (own parser) vs the live registry, and positional lookup
    try:
        msgs, _ = gen_proto.extract_proto()
        proto_ids = {mid: name for name, mid, src, _f in msgs if mid != 0}
        source = {name: src for name, mid, src, _f in msgs}
    except TranslationError:
        proto_ids = {md.GetOptions().Extensions[opt.id]: n for n, md in pb.DESCRIPTOR.message_types_by_name.items()
                     if md.GetOptions().Extensions[opt.id]}
        source = {n: md.GetOptions().Extensions[opt.source] for n, md in pb.DESCRIPTOR.message_types_by_name.items()}
    for i in sorted(set(proto_ids) | set(live)):
        rep.case(("id", i), True, sample={"id": i, "registry": live.get(i), "proto": proto_ids.get(i)} if i in (1, 123) else None)
        if live.get(i) != proto_ids.get(i):
            rep.violation(f"C13/registry/id{i}", f"id {i}: registry has {live.get(i)}, api.proto declares {proto_ids.get(i)}",
                          {"kind": "table", "id": i, "registry": live.get(i), "proto": proto_ids.get(i),
                           "how": "feed a frame of this id to process_packet / compare core.MESSAGE_TYPE_TO_PROTO with api.proto"})
    # positional lookup: every id selects its class through the real process_packet
    got = {}

    class Probe:
        pass
    asyncio.set_event_loop(asyncio.new_event_loop())
    from aioesphomeapi.connection import APIConnection, ConnectionParams, ConnectionState
    for i, name in sorted(proto_ids.items()):
        params = ConnectionParams(addresses=["x"], port=1, password=None, client_info="x", keepalive=20.0,
                                  zeroconf_manager=None, noise_psk=None, expected_name=None)
        conn = APIConnection(params, None, False, None)
        priv(conn, "_set_connection_state")(ConnectionState.CONNECTED)
        seen = []
        for cls in set(MESSAGE_TYPE_TO_PROTO.values()):
            conn.add_message_callback(lambda m, seen=seen: seen.append(type(m).DESCRIPTOR.name), (cls,))
        try:
            conn.process_packet(i, b"")
        except Exception as e:  # noqa
            seen.append("raised:" + type(e).__name__)
        rep.coverage["traces_validated_against_impl"] += 1
        if seen != [name]:
            rep.violation(f"C13/lookup/id{i}", f"a frame with id {i} is delivered as {seen}, api.proto says {name}",
                          {"kind": "impl-trace", "id": i, "delivered": seen, "expected": name})
        klass = getattr(pb, name, None)
        if klass is None or PROTO_TO_MESSAGE_TYPE.get(klass) != i:
            rep.violation(f"C13/inverse/id{i}", f"sending {name} uses id {PROTO_TO_MESSAGE_TYPE.get(klass)} instead of {i}",
                          {"kind": "impl-trace", "id": i, "name": name})

    # the lookup is a function of the id alone: histories of ids on one connection (a registered id, then ids outside the table
    # - once and repeated - then registered ids again) must deliver exactly the registered ones, each as its own class
    import random as _random
    hrng = _random.Random(seed)
    top = max(proto_ids)
    outside = [0, top + 1, top + 2, 200, 255, 256, 65535, 70000]
    histories = []
    for u in outside:
        for k in (1, 7, top):
            histories.append([k, u, u, k])
            histories.append([u, u, k, u])
            histories.append([k, u, k, u, u])
    for _ in range(60 if tier == "quick" else 1500):
        histories.append([hrng.choice(outside) if hrng.random() < 0.45 else hrng.choice(sorted(proto_ids)) for _ in range(hrng.randrange(2, 9))])
    for hist in histories:
        params = ConnectionParams(addresses=["x"], port=1, password=None, client_info="x", keepalive=20.0,
                                  zeroconf_manager=None, noise_psk=None, expected_name=None)
        conn = APIConnection(params, None, False, None)
        priv(conn, "_set_connection_state")(ConnectionState.CONNECTED)
        seen = []
        for cls in set(MESSAGE_TYPE_TO_PROTO.values()):
            conn.add_message_callback(lambda m, seen=seen: seen.append(type(m).DESCRIPTOR.name), (cls,))
        for i in hist:
            try:
                conn.process_packet(i, b"")
            except Exception as e:  # noqa
                seen.append("raised:" + type(e).__name__)
        want = [proto_ids[i] for i in hist if i in proto_ids]
        rep.case(("history", tuple(hist)), True, sample=None)
        rep.bump("lookup-history")
        if seen != want:
            rep.violation("C13/lookup/history", f"frames with ids {hist} on one connection were delivered as {seen}, api.proto says {want} (ids outside the table are ignored)",
                          {"kind": "impl-trace", "ids": hist, "delivered": seen, "expected": want})
            break

    # the id that selects the class is the id the device put on the wire: both frame helpers must hand it to the lookup unaltered
    # (ids whose low byte / low 14 bits coincide with a declared id included)
    from checks import c01 as _c01
    from vlib import noisesim
    wire_ids = sorted(set(list(proto_ids)[::9] + [top, 0, top + 1, 255, 256, 256 + 1, 256 + 5, 256 + 7, 256 + 25, 256 + top, 512 + 5, 0x1000 + 7, 16384 + 7, 65535, 65536 - 256 + 5]))
    for helper in ("plaintext", "noise"):
        if helper == "plaintext":
            per_call, _, _ = _c01.run_impl([b"".join(_c01.enc_frame(i, b"") for i in wire_ids)], [0])
            got = [int(e.split(":")[1], 16) for c in per_call for e in c if e.startswith("D:")]
        else:
            psk = bytes(range(1, 33))
            resp = noisesim.Responder(psk, b"dev")
            sess = noisesim.ImplSession(noisesim.b64(psk), None)
            sess.op("made")
            hs_frame, _ = resp.handshake_frames(noisesim.split_frames(sess.writes[0])[1][1:])
            sess.op("data", resp.hello_frame() + hs_frame)
            evs = sess.op("data", b"".join(resp.data_frame(i, b"")[0] for i in wire_ids))
            got = [int(e.split(":")[1], 16) for e in evs if isinstance(e, str) and e.startswith("D:")]
        rep.case(("wire-id", helper), True, sample={"helper": helper, "ids": wire_ids[:12]})
        rep.bump("wire-id:" + helper)
        if got != wire_ids:
            diff = [(a, b) for a, b in zip(wire_ids, got) if a != b][:5]
            rep.violation("C13/lookup/wire-id", f"{helper} frames with ids {wire_ids} reach the class lookup as {got} (first differences sent/looked-up: {diff}): "
                          "an undeclared id would select a declared class",
                          {"kind": "impl-trace", "helper": helper, "ids": wire_ids, "looked_up": got})

    # ... and on the way out: the id on the wire is the declared id of the class sent, whatever its payload size and whatever was
    # written before (sizes a byte, two bytes and more than two bytes of length apart: n, 256 + n, 16384 + n, 65536 + n)
    from unittest.mock import MagicMock
    from aioesphomeapi._frame_helper.plain_text import APIPlaintextFrameHelper
    from vlib import simnet as _simnet
    h = APIPlaintextFrameHelper(connection=MagicMock(), client_info="x", log_name="x")
    tr = MagicMock()
    out_writes = []
    tr.write.side_effect = lambda d: out_writes.append(bytes(d))
    h.connection_made(tr)
    seq = []
    for t in sorted(proto_ids)[::11] + [top - 1]:
        for n in (0, 7, 200):
            for big in (256, 16384, 65536):
                seq += [(t + 1, n), (t, big + n), (t, n), (t + 1, big + n), (t, big + n)]
    bad = None
    for ty, n in seq:
        del out_writes[:]
        payload = bytes([ty & 255]) * n
        h.write_packets([(ty, payload)], False)
        try:
            fr = _simnet.decode_plain_stream(b"".join(out_writes))
        except Exception as e:  # noqa: BLE001
            fr = [("undecodable", str(e))]
        if fr != [(ty, payload)]:
            bad = (ty, n, [(a, len(b) if isinstance(b, bytes) else b) for a, b in fr][:3])
            break
    rep.case(("sent-wire-id",), True, sample={"sent_wire_ids": len(seq)})
    rep.bump("sent-wire-id")
    if bad:
        rep.violation("C13/sent-wire-id", f"a message with declared id {bad[0]} and a {bad[1]}-byte payload, written after other messages, went out as (id, length) {bad[2]}: "
                      "the wire id is not the declared id of the class sent", {"kind": "impl-trace", "sequence": seq[:40], "first_bad": [bad[0], bad[1]]})

    # 3. API sweep (validates gen_clientapi and checks direction on what is really sent / subscribed)
    try:
        entries, _unacc = gen_clientapi.extract()
        static = {n: (set(s), set(t)) for n, s, t in entries}
    except TranslationError as e:
        static = None
        if proofs_ok:
            proofs_ok = False
            rep.broken = ("translator gen_clientapi", str(e))
    from aioesphomeapi.client import APIClient
    public = [m for m, f in inspect.getmembers(APIClient, predicate=inspect.isfunction) if not m.startswith("_")]
    skip = {"connect", "start_connection", "finish_connection", "disconnect", "set_debug", "set_cached_name_if_unset"}
    conn_sent_ok = {"HelloRequest", "ConnectRequest", "DisconnectRequest", "DisconnectResponse", "PingRequest", "PingResponse", "GetTimeResponse"}
    for mname in public:
        if mname in skip:
            continue
        has_coro_cb = "Coroutine" in str(inspect.signature(getattr(APIClient, mname)))
        is_async = inspect.iscoroutinefunction(getattr(APIClient, mname))
        # 2 / 3 / 4: asynchronous handlers return nothing / raise / are still running at unsubscribe; 5 / 6: a silent device (time-out / cancelled)
        has_cb = "Callable" in str(inspect.signature(getattr(APIClient, mname)))
        for variant in ((0, 1, 2, 3, 4) if has_coro_cb else (0, 1)) + ((5, 6) if is_async else ()) + ((7,) if has_cb else ()):    # 7: synchronous callbacks raise
            def go(loop, mname=mname, variant=variant):
                net = simnet.Net(loop)

                async def inner():
                    with net.patched():
                        return await sweep_method(loop, net, mname, variant)
                return inner()
            sent_ids, subscribed, outcome = simnet.run(go)
            sent = {live.get(i, f"<unregistered {i}>") for i in sent_ids}
            rep.bump("sweep_outcome:" + outcome.split(":")[0])
            rep.case((mname, variant), bool(sent or subscribed),
                     sample={"entry": mname, "variant": variant, "sent": sorted(sent), "subscribed": sorted(subscribed), "outcome": outcome}
                     if mname in ("subscribe_states", "bluetooth_gatt_start_notify", "cover_command") else None)
            rep.coverage["traces_validated_against_impl"] += 1
            for c in sent - {"DisconnectRequest"}:   # the closing force-disconnect of the sweep itself
                if source.get(c, 0) == 1:
                    rep.violation(f"C13/direction/{mname}/sends/{c}", f"APIClient.{mname} sends server-originated {c}",
                                  {"kind": "impl-trace", "entry": mname, "variant": variant, "sent": sorted(sent)})
            for c in subscribed:
                if source.get(c, 0) == 2:
                    rep.violation(f"C13/direction/{mname}/subscribes/{c}", f"APIClient.{mname} subscribes to client-originated {c}",
                                  {"kind": "impl-trace", "entry": mname, "variant": variant, "subscribed": sorted(subscribed)})
            if static is not None:
                st_s, st_t = static.get(f"APIClient.{mname}", (set(), set()))
                extra_s = sent - st_s - {"DisconnectRequest", "PingRequest"}      # the sweep's own closing disconnect; keep-alive pings while time passes
                extra_t = subscribed - st_t
                if (extra_s or extra_t) and not rep.violations:
                    rep.violations.append((f"C13/translator/clientapi/{mname}",
                                           f"API sweep observed traffic of APIClient.{mname} that the static translator did not predict",
                                           {"kind": "no-failing-input-found", "obligation": "translator gen_clientapi over-approximates the real traffic",
                                            "entry": mname, "unpredicted_sent": sorted(extra_s), "unpredicted_subscribed": sorted(extra_t)}))
    if not proofs_ok and not rep.violations:
        # the Coq obligation broke: the 'explain' twins name the entry; no concrete failing input was found above
        rep.proof_broken(rep.broken[0], rep.broken[1])


def replay(path):
    d = json.loads(open(path).read())
    print(json.dumps(d, indent=1)[:3000])
    return 1
