"""C19 — the client never wedges and refuses work unless a session is alive.

Proof: coq/Properties/C19.v about Model/Client.v (APIClient bookkeeping over a sequence of Model/Conn.v connections).
Tie: trace validation of the composite model against the real APIClient over several consecutive sessions, and the
property predicate evaluated on the implementation after every callback, at every quiescent point and by a final probe."""
import asyncio
import json
import random

from checks import connfamily
from vlib import clienttrace, common, connstories, simnet
from vlib.connstories import H, HELLO, CONNECT, DISC_REQ, SWITCH_STATE, PING_REQ

VFILE = "Properties/C19.v"


def gen_story(rng):
    sc = []
    expect = rng.random() < 0.3

    def md(p=0.7):
        if rng.random() < p:
            sc.append(("drain",))

    def probe(p=0.35):
        if rng.random() < p:
            sc.append(rng.choice([("cmd",), ("start",), ("cmd",), ("req",)]))
            md(0.5)

    def maybe_hop(a, p=0.3):
        if a[0] != "adv_next" and rng.random() < p:
            sc.append(("hop", rng.randrange(0, 3), a))
        else:
            sc.append(a)

    for session in range(rng.choice([1, 2, 2, 3, 4])):
        login = rng.random() < 0.4
        sc.append(("start",)); md(0.9); probe()
        fate = rng.random()
        if fate < 0.12:
            sc.append(("resolved", rng.choice(["L.Resolve", "R.OSError", "L.Conn"]), 1)); md(0.9); probe(); continue
        if fate < 0.17:
            sc.append(("adv_next",)); md(0.9); probe(); continue
        if fate < 0.25:
            maybe_hop(rng.choice([("force",), ("disc",), ("cancel", "S")])); md(0.9); probe()
            if rng.random() < 0.5:
                sc.append(("resolved", None, 1)); md()
            continue
        sc.append(("resolved", None, rng.choice([1, 1, 2]))); md(0.9)
        if fate < 0.33:
            sc.append(("tcp", rng.choice(["R.OSError", "R.Reset"]))); md(0.9); sc.append(("adv_next",)); md(); probe(); 
            if rng.random() < 0.5:
                continue
        if fate < 0.40:
            maybe_hop(("tcp", None)); maybe_hop(rng.choice([("force",), ("disc",)])); md(0.9); probe(); continue
        sc.append(("tcp", None)); md(0.9); probe()
        if fate < 0.48:
            maybe_hop(rng.choice([("force",), ("disc",)])); md(0.9); probe(); continue   # between the two phases
        sc.append(("finish", int(login))); md(0.9); probe()
        if fate < 0.56:
            maybe_hop(rng.choice([("force",), ("disc",), ("eof",), ("lost", "R.Reset"), ("cancel", "F"), ("data", [("bp", 1)]), ("adv_next",)]))
            md(0.9); probe(); sc.append(("adv_next",)); md(); continue
        hello = H(HELLO, major=rng.choice([1, 1, 1, 3]), nk=rng.choice(["x", "x", "e", "o"]))
        frames = [hello] + ([H(CONNECT, ip=(rng.random() < 0.25))] if login else [])
        if rng.random() < 0.3:
            frames += rng.choice([[H(DISC_REQ)], [H(SWITCH_STATE, valid=0)], [H(DISC_REQ), H(PING_REQ)]])
        maybe_hop(("data", frames))
        if rng.random() < 0.2:
            maybe_hop(rng.choice([("force",), ("disc",), ("eof",)]))
        md(0.9); probe(0.6)
        # established (or failed): traffic, commands, an ending
        for _ in range(rng.randrange(0, 4)):
            sc.append(rng.choice([("cmd",), ("req",), ("req",), ("data", [H(SWITCH_STATE, tag=1)]), ("data", [H(10)]), ("data", [H(PING_REQ)]), ("adv_next",), ("finish", 0), ("start",)])); md(0.6)
        end = rng.choice([("data", [H(DISC_REQ)]), ("eof",), ("lost", "R.Reset"), ("force",), ("disc",), ("wfail", 1), ("data", [("bp", 0)]), None])
        if end:
            maybe_hop(end); md(0.7)
            if end == ("disc",):
                sc.append(rng.choice([("data", [H(6)]), ("adv_next",), ("eof",)])); md()
            if end == ("wfail", 1):
                sc.append(("cmd",)); md(); sc.append(("wfail", 0))
        probe(0.7)
        for _ in range(rng.randrange(0, 3)):
            sc.append(("adv_next",)); md()
    sc.append(("drain",))
    for _ in range(3):
        sc += [("adv_next",), ("drain",)]
    return {"scenario": sc, "expect": expect, "scripts": {}, "keepalive": rng.choice([20480, 10240]), "login": False}


def windows():
    out = []

    def story(sc):
        out.append({"scenario": list(sc) + [("drain",), ("adv_next",), ("drain",)], "expect": False, "scripts": {}, "keepalive": 20480, "login": False})
    pre = [("start",), ("drain",), ("resolved", None, 1), ("drain",), ("tcp", None), ("drain",)]
    est = pre + [("finish", 0), ("drain",), ("data", [H(HELLO)]), ("drain",)]
    again = [("start",), ("drain",), ("cmd",)]
    for mid in ([("force",)], [("disc",)], [("disc",), ("drain",), ("adv_next",)], [("cancel", "S")]):
        story([("start",), ("drain",)] + mid + [("drain",)] + again)
        story(pre + mid + [("drain",)] + again)                                   # between start and finish (F4)
        story(pre + [("finish", 0), ("drain",)] + mid + [("drain",)] + again)
        story(est + mid + [("drain",), ("data", [H(6)]), ("drain",)] + again)
    for tail in ([H(DISC_REQ)], [H(SWITCH_STATE, valid=0)]):
        story(pre + [("finish", 0), ("drain",), ("data", [H(HELLO)] + tail), ("drain",)] + again)    # F1 window
        story(est + [("data", tail), ("drain",)] + again)
    for cause in (("eof",), ("lost", "R.Reset"), ("lost", None), ("data", [("bp", 1)])):
        story(est + [cause, ("drain",)] + again + [("resolved", None, 1), ("drain",), ("tcp", None), ("drain",), ("finish", 0), ("drain",), ("data", [H(HELLO)]), ("drain",), ("cmd",)])
        for hops in (0, 1):
            story(est + [("hop", hops, ("data", [H(SWITCH_STATE, tag=1)])), ("hop", hops, cause), ("hop", hops, ("cmd",))] + [("drain",)] + again)
    # the device says goodbye: a command or a new attempt in the very same turn (and one turn later) sees the session as ended
    for hops in (0, 1):
        story(est + [("hop", hops, ("data", [H(DISC_REQ)])), ("hop", hops, ("cmd",)), ("hop", hops, ("start",)), ("drain",)] + again)
        story(est + [("hop", hops, ("data", [H(DISC_REQ), H(SWITCH_STATE, tag=1)])), ("hop", hops, ("cmd",)), ("drain",)] + again)
    story(est + [("cmd",), ("start",), ("finish", 0), ("drain",), ("cmd",), ("start",)])
    for cause in (("eof",), ("lost", "R.Reset"), ("data", [H(DISC_REQ)]), ("force",)):
        story(est + [("req",), ("drain",), ("data", [H(10)]), cause, ("drain",)] + again)                      # response and loss in one turn
        story(est + [("req",), ("req",), ("drain",), ("hop", 0, ("data", [H(10)])), ("hop", 0, cause), ("drain",)] + again)
        story(est + [("req",), ("drain",), cause, ("drain",), ("req",)] + again)
    story([("cmd",), ("finish", 0), ("disc",), ("force",), ("drain",)] + again)
    # the story ends while disconnect() is still waiting for the device: the final probe must be refused
    story(est + [("disc",), ("drain",)])
    story(pre + [("finish", 0), ("drain",), ("disc",), ("drain",)])
    story(est + [("req",), ("drain",), ("disc",), ("drain",)])
    # the caller gave no on_stop hook: endings of every kind still clear the client
    for d in list(out):
        out.append(dict(d, hook=False))
    return out


def model_line(story, steps):
    return "client 0 %d %d %s %s" % (int(story["expect"]), story["keepalive"], connstories.scripts_text(story["scripts"]),
                                      " ".join(l for l, _, _ in steps))


def run_impl(story):
    def go(loop):
        return clienttrace.run_scenario(loop, story["scenario"], expected_name="dev" if story["expect"] else None,
                                        keepalive_units=story["keepalive"], scripts={}, user_hook=story.get("hook", True))
    return simnet.run(go)


def split_cl(proj):
    base, _, cl = proj.rpartition(",cl=")
    return connfamily.parse_proj(base), int(cl)


def predicate(tr, story):
    v = []
    rejected = login_now = ended_by_peer = False
    steps = [(l, *split_cl(p), list(o)) for l, p, o in tr.steps]
    for i, (label, p, cl, obs) in enumerate(steps):
        pj, clj = (steps[i - 1][1], steps[i - 1][2]) if i else (connfamily.parse_proj(clienttrace.INIT_PROJ), 0)
        if label.startswith("call:") and not (clj == 1 and pj["cs"] == "CONN"):
            if not any(o in ("XNC", "XNR") or o.startswith("TC") for o in obs):
                v.append(("C19/request-not-refused", f"request issued in state {pj['cs']} (client has connection: {clj}) was not refused", i))
            if any(o.startswith("W") for o in obs):
                v.append(("C19/request-wrote", "request issued with no live session wrote to the device", i))
        if label == "cstart" and ended_by_peer and "XALREADY" in obs:
            v.append(("C19/refused-after-peer-disconnect", "the device ended the session with a DisconnectRequest, yet start_connection answers 'Already connected'", i))
        if label == "cstart" and "XALREADY" not in obs:
            rejected = False
            login_now = False
            ended_by_peer = False
        if label.startswith("cfinish:") and "XRT" not in obs:
            login_now = label.endswith(":1")
        if label.startswith("data:"):
            for it in label[5:].split(";"):
                f = it.split(".")
                if f[0] == "f" and f[1] == "4" and f[2] == "1" and f[6] == "1" and login_now:
                    rejected = True       # the device answered the login with invalid_password: this attempt never yields an authenticated session
        if label == "ccmd" and rejected and (any(o.startswith("W") for o in obs) or not any(o.startswith("X") for o in obs)):
            v.append(("C19/command-after-rejected-login", "the device rejected the login of this attempt (invalid password), yet a later command was accepted and written", i))
        if label.startswith("data:") and clj == 1 and pj["cs"] == "CONN":
            if any(it.startswith("f.5.1.") for it in label[5:].split(";")[:1]) or \
                    (any(it.startswith("f.5.1.") for it in label[5:].split(";")) and not any(it.startswith(("bp.", "f.5.0")) for it in label[5:].split(";"))):
                ended_by_peer = True      # a valid DisconnectRequest was dispatched: the session is over from this callback on
        if label == "ccmd":
            alive = clj == 1 and pj["cs"] == "CONN" and not ended_by_peer
            wrote = [o for o in obs if o.startswith("W")]
            errs = [o for o in obs if o.startswith("X")]
            if not alive:
                if not errs:
                    v.append(("C19/command-not-refused", f"command issued in state {pj['cs']} (client has connection: {clj}) raised nothing", i))
                elif not all(e in ("XNC", "XNR") or e.startswith("XL.") for e in errs):
                    v.append(("C19/command-raw-error", f"command issued with no live session raised {errs}", i))
                if wrote:
                    v.append(("C19/command-wrote", f"command issued with no live session wrote {wrote}", i))
    # quiescent points: nothing alive, nothing in progress  =>  the client holds no connection
    for at, closed, timers, pending, has in tr.audits:
        if closed and not pending and has:
            v.append(("C19/wedged", "no attempt in progress and no session alive, yet the client still holds a connection: every later start_connection is refused", max(at - 1, 0)))
            break
    for at, closed, timers, pending, has in tr.audits:
        if not closed and not has:
            v.append(("C19/reference-dropped-while-open", "the client no longer refers to its connection although that connection is still open: a new attempt would be accepted next to it", max(at - 1, 0)))
            break
    # every start_connection call: refused iff something is alive or in progress
    for i, (label, p, cl, obs) in enumerate(steps):
        if label != "cstart":
            continue
        pj, clj = (steps[i - 1][1], steps[i - 1][2]) if i else (connfamily.parse_proj(clienttrace.INIT_PROJ), 0)
        refused = "XALREADY" in obs
        if refused and clj == 0:
            v.append(("C19/refused-when-free", "start_connection refused although the client holds no connection", i))
    fp = tr.final_probe
    if not fp["busy"] and fp["probe"] != "accepted":
        v.append(("C19/final-probe", f"after the story nothing is alive or in progress, but start_connection answers {fp['probe']}", len(steps) - 1))
    if fp.get("open_unreferenced") and fp["probe"] == "accepted":
        v.append(("C19/accepted-while-alive", "start_connection was accepted although the previous connection of this client is still open (session alive or attempt in progress)", len(steps) - 1))
    if not fp["alive"] and (fp["cmd"] != "refused" or fp["wrote"]):
        v.append(("C19/final-command", f"command with no live session: {fp['cmd']}, wrote {fp['wrote']} frame(s)", len(steps) - 1))
    return v


def restart_from_hook_probe(ending):
    """The application's stop callback asks for a new connection at once (before it first suspends): the session has ended, so the
    attempt must be accepted. Returns 'accepted' | 'already' | 'not-called' | other text."""
    async def go(loop):
        from aioesphomeapi import api_pb2 as pb
        from aioesphomeapi.client import APIClient
        from aioesphomeapi.core import APIConnectionError
        net = simnet.Net(loop)
        out = {"r": "not-called"}
        with net.patched():
            cli = APIClient("10.0.0.1", 6053, None)

            async def on_stop(expected):
                coro = cli.start_connection(on_stop=on_stop)
                net.resolve_script = ["hang"]
                try:
                    coro.send(None)            # up to its first suspension
                    out["r"] = "accepted"
                except StopIteration:
                    out["r"] = "accepted"
                except APIConnectionError as e:
                    out["r"] = "already" if str(e).startswith("Already connected") else "error:" + str(e)[:60]
                except Exception as e:  # noqa
                    out["r"] = "raw:" + type(e).__name__
                finally:
                    coro.close()
            await cli.start_connection(on_stop=on_stop)
            task = asyncio.ensure_future(cli.finish_connection(login=False))
            await simnet.drain(loop)
            tr = net.transports[-1]
            tr.feed(simnet.plain_msg(pb.HelloResponse(api_version_major=1, api_version_minor=10, name="dev")))
            await simnet.drain(loop)
            await task
            if ending == "request":
                tr.feed(simnet.plain_msg(pb.DisconnectRequest()))
            elif ending == "eof":
                tr.feed_eof()
            elif ending == "reset":
                tr.lose(ConnectionResetError("reset"))
            elif ending == "bad-frame":
                tr.feed(b"\x01\x00\x00")
            await simnet.drain(loop)
            for t in asyncio.all_tasks(loop):
                if t is not asyncio.current_task():
                    t.cancel()
        return out["r"]
    return simnet.run(go)


def no_session_sweep(stage):
    """Every public entry point of APIClient that talks to the device, called with all its arguments supplied while no session is
    alive (never connected / after the device ended the session / between the two connect phases): a connection error, nothing written.
    Returns [(method, outcome, frames written)] for the entry points that did not refuse properly."""
    import inspect
    import typing
    from checks import c13

    async def go(loop):
        from aioesphomeapi import api_pb2 as pb
        from aioesphomeapi.client import APIClient
        from aioesphomeapi.core import APIConnectionError
        net = simnet.Net(loop)
        bad = []
        with net.patched():
            cli = APIClient("10.0.0.1", 6053, None)
            tr = None
            if stage == "finishing":
                # the second connect phase is under way: the hello has been written, the device has not answered yet
                await cli.start_connection()
                pending_finish = asyncio.ensure_future(cli.finish_connection(login=True))
                await simnet.drain(loop)
            if stage in ("ended", "ended-after-use", "between"):
                await cli.start_connection()
                if stage in ("ended", "ended-after-use"):
                    task = asyncio.ensure_future(cli.finish_connection(login=False))
                    await simnet.drain(loop)
                    tr = net.transports[-1]
                    tr.feed(simnet.plain_msg(pb.HelloResponse(api_version_major=1, api_version_minor=10, name="dev")))
                    await simnet.drain(loop)
                    await task
                    if stage == "ended-after-use":
                        # the session has been used: what was asked and answered then is no answer now
                        t1 = asyncio.ensure_future(cli.device_info())
                        await simnet.drain(loop)
                        tr.feed(simnet.plain_msg(pb.DeviceInfoResponse(name="dev", mac_address="AA:BB:CC:DD:EE:FF", esphome_version="2024.1.0")))
                        await simnet.drain(loop)
                        await t1
                        t2 = asyncio.ensure_future(cli.list_entities_services())
                        await simnet.drain(loop)
                        tr.feed(simnet.plain_msg(pb.ListEntitiesSwitchResponse(key=5, name="s", object_id="s")) + simnet.plain_msg(pb.ListEntitiesDoneResponse()))
                        await simnet.drain(loop)
                        await t2
                    tr.feed(simnet.plain_msg(pb.DisconnectRequest()))
                    await simnet.drain(loop)
            skip = {"connect", "start_connection", "finish_connection", "disconnect", "set_debug", "set_cached_name_if_unset"}
            for mname, _ in inspect.getmembers(APIClient, predicate=inspect.isfunction):
                if mname.startswith("_") or mname in skip:
                    continue
                meth = getattr(cli, mname)
                hints = typing.get_type_hints(meth.__func__, include_extras=False)
                kwargs = {pn: c13.synth_arg(pn, hints.get(pn, p.annotation), 1) for pn, p in inspect.signature(meth).parameters.items()}
                n0 = sum(len(t.writes) for t in net.transports)
                out = "returned"
                try:
                    r = meth(**kwargs)
                    if inspect.isawaitable(r):
                        task = asyncio.ensure_future(r)
                        await simnet.drain(loop)
                        if not task.done():
                            task.cancel()
                            await simnet.drain(loop)
                            out = "pending"
                        elif task.exception() is not None:
                            out = "L" if isinstance(task.exception(), APIConnectionError) else "raw:" + type(task.exception()).__name__
                except APIConnectionError:
                    out = "L"
                except Exception as e:  # noqa: BLE001
                    out = "raw:" + type(e).__name__
                wrote = sum(len(t.writes) for t in net.transports) - n0
                if out != "L" or wrote:
                    bad.append((mname, out, wrote))
            if stage == "finishing":
                pending_finish.cancel()
                await simnet.drain(loop)
            try:
                await cli.disconnect(force=True)
            except Exception:  # noqa: BLE001
                pass
            await simnet.drain(loop)
        return bad
    return simnet.run(go)


def fault_forms_probe(fault, pending_call, hook):
    """An established session dies of `fault` - the transport is lost with an exception of some class (a socket error, or whatever
    escaped from data_received: ValueError, IndexError, a bare Exception), or the transport refuses a write (OSError, or the
    RuntimeError a closing transport raises) - with or without a request in flight, with or without a stop hook. Afterwards no
    session is alive: a command is refused with a connection error and writes nothing, the request in flight has ended with a
    connection error, the stop hook (if any) ran once, and a new attempt is accepted. Returns a list of problems."""
    async def go(loop):
        from aioesphomeapi import api_pb2 as pb
        from aioesphomeapi.core import APIConnectionError
        net = simnet.Net(loop)
        problems = []
        stops = []

        async def on_stop(expected):
            stops.append(bool(expected))
        with net.patched():
            cli, tr = await simnet.connected_client(loop, net, on_stop=on_stop if hook else None)
            call = None
            if pending_call:
                call = asyncio.ensure_future(cli.device_info())
                await simnet.drain(loop)
            excs = {"lost:reset": ConnectionResetError(104, "reset"), "lost:value": ValueError("bad state value"), "lost:index": IndexError("index out of range"),
                    "lost:plain": Exception("boom"), "lost:none": None, "lost:timeout": TimeoutError(110, "timed out")}
            cmd_out = None
            if fault.startswith("lost:"):
                tr.lose(excs[fault])
            else:
                tr.write_raises = OSError(32, "broken pipe") if fault == "write:oserror" else RuntimeError("unable to perform operation on <TCPTransport closed=True>; the handler is closed")
                try:
                    cli.switch_command(5, True)
                    cmd_out = "returned"
                except APIConnectionError:
                    cmd_out = "L"
                except Exception as e:  # noqa: BLE001
                    cmd_out = "raw:" + type(e).__name__
            await simnet.drain(loop)
            if cmd_out not in (None, "L"):
                problems.append(f"the command whose write the transport refused {cmd_out}")
            if call is not None:
                if not call.done():
                    problems.append("the request in flight is still pending")
                    call.cancel()
                elif call.cancelled() or not isinstance(call.exception(), APIConnectionError):
                    problems.append(f"the request in flight ended with {'cancellation' if call.cancelled() else type(call.exception()).__name__}")
            if hook and stops != [False]:
                problems.append(f"stop hook calls: {stops} (expected one, unexpected)")
            tr.write_raises = None
            n_w = sum(len(t.writes) for t in net.transports)
            try:
                cli.switch_command(5, False)
                problems.append("a command after the session died was accepted")
            except APIConnectionError:
                pass
            except Exception as e:  # noqa: BLE001
                problems.append(f"a command after the session died raised {type(e).__name__}")
            if sum(len(t.writes) for t in net.transports) != n_w:
                problems.append("a command after the session died wrote to the device")
            try:
                await asyncio.wait_for(cli.start_connection(), 100)
            except Exception as e:  # noqa: BLE001
                problems.append(f"a new attempt was refused: {type(e).__name__}: {str(e)[:50]}")
            try:
                await cli.disconnect(force=True)
            except Exception as e:  # noqa: BLE001
                problems.append(f"disconnect(force=True) raised {type(e).__name__}")
            await simnet.drain(loop)
        return problems
    return simnet.run(go)


def peer_forms_probe(address, peer, names):
    """Sessions of one client configured with `address`, whose sockets report `peer` as the remote end, against devices
    announcing `names` in turn: after every attempt - whatever its outcome - a new attempt must be accepted (never
    'Already connected' with nothing alive). Returns the outcome per attempt."""
    async def go(loop):
        from aioesphomeapi import api_pb2 as pb
        from aioesphomeapi.client import APIClient
        net = simnet.Net(loop)
        orig_start = net._start_connection

        async def start(addr_infos, **kw):
            sock = await orig_start(addr_infos, **kw)
            sock.peer = peer
            return sock
        net._start_connection = start
        outs = []
        with net.patched():
            cli = APIClient(address, 6053, None)
            for name in names:
                try:
                    await cli.start_connection()
                    task = asyncio.ensure_future(cli.finish_connection(login=False))
                    await simnet.drain(loop)
                    tr = net.transports[-1]
                    tr.feed(simnet.plain_msg(pb.HelloResponse(api_version_major=1, api_version_minor=10, name=name)))
                    await simnet.drain(loop)
                    await task
                    outs.append("ok")
                except Exception as e:  # noqa: BLE001
                    from vlib import conntrace
                    outs.append(conntrace.exc_name(e) + ("/already" if "Already connected" in str(e) else ""))
                if outs[-1] == "ok":
                    await cli.disconnect(force=True)
                    await simnet.drain(loop)
            try:
                await cli.disconnect(force=True)
            except Exception:  # noqa: BLE001
                pass
            await simnet.drain(loop)
        return outs
    return simnet.run(go)


def run(rep, tier, seed):
    connfamily.N_REG = connfamily.n_registered()
    rng = random.Random(seed)
    rep.coverage["rule"] = (
        "multi-session stories on the real APIClient (1-4 consecutive connect attempts: resolve/connect/handshake failures, disconnect()/disconnect(force) "
        "at every stage, peer/EOF/reset/protocol endings, same-turn injections) with start_connection and command probes sprinkled at every stage and after the story; "
        "trace-validated against Model/Client.v; non-trivial = at least two start_connection calls and one ending; distinct by label sequence")
    proofs_ok = rep.proofs(VFILE)
    ok, log = common.build_driver()
    if not ok:
        raise RuntimeError("driver build failed: " + log[-2000:])
    stories = [("window", s) for s in windows()]
    n = 500 if tier == "quick" else 6000
    stories += [("random", gen_story(rng)) for _ in range(n)]
    for kind, st in stories:
        if kind == "random" and rng.random() < 0.3:
            st["hook"] = False
    trs = []
    lines = []
    for kind, st in stories:
        tr = run_impl(st)
        steps, problems = connstories.impl_steps(tr)
        trs.append((tr, steps, problems))
        lines.append(model_line(st, steps))
    mout = common.run_driver(lines)
    disagreements = []
    for (kind, st), (tr, steps, problems), mo in zip(stories, trs, mout):
        labels = [l for l, _, _ in steps]
        rep.bump("kind:" + kind)
        rep.bump("sessions:%d" % labels.count("cstart"))
        rep.case(tuple(labels), nontrivial=labels.count("cstart") >= 2 and any("CLOSED" in p for _, p, _ in steps),
                 sample={"kind": kind, "labels": labels[:50], "final_probe": tr.final_probe})
        rep.coverage["traces_validated_against_impl"] += 1
        for sig, what, at in predicate(tr, st):
            def still(s2, sig=sig):
                return any(s == sig for s, _, _ in predicate(run_impl(s2), s2))
            small = connfamily.shrink(st, still) if not any(s == sig for s, _, _ in rep.violations) else st
            tr3 = run_impl(small)
            rep.violation(sig, what, {"kind": "impl-trace", "story": connfamily.story_text(small),
                                      "callbacks": [(l, p, o) for l, p, o in tr3.steps if l != "silent"][-40:], "final_probe": tr3.final_probe})
        dis = connstories.compare(steps, mo)
        if dis or problems:
            disagreements.append({"story": connfamily.story_text(st), "disagreement": dis, "problems": [list(map(str, p)) for p in problems[:2]]})
    for ending in ("request", "eof", "reset", "bad-frame"):
        r = restart_from_hook_probe(ending)
        rep.case(("restart-from-hook", ending), True, sample={"probe": "restart-from-hook", "ending": ending, "answer": r})
        rep.bump("probe:restart-from-hook")
        if r != "accepted":
            rep.violation("C19/refused-in-stop-callback", f"the session was ended by {ending}; start_connection() called from the stop callback (before it first suspends) "
                          f"answered {r!r} although no session is alive and no attempt is in progress", {"kind": "restart-from-hook", "ending": ending})
    for stage in ("never", "between", "finishing", "ended", "ended-after-use"):
        bad = no_session_sweep(stage)
        rep.case(("no-session-sweep", stage), True, sample={"no_session_sweep": stage, "not_refused": bad[:5]})
        rep.bump("probe:no-session-sweep")
        if bad:
            rep.violation("C19/not-refused-without-session", f"client with no live session ({stage}): entry point(s) that did not raise a connection error / wrote to the device "
                          f"(method, outcome, frames written): {bad[:6]}", {"kind": "no-session-sweep", "stage": stage})
    for fault in ("lost:reset", "lost:timeout", "lost:value", "lost:index", "lost:plain", "lost:none", "write:oserror", "write:runtime"):
        for pending_call in (False, True):
            for hook in (True, False):
                problems = fault_forms_probe(fault, pending_call, hook)
                replay = {"kind": "fault-forms", "fault": fault, "pending_call": pending_call, "hook": hook}
                rep.case(("fault-forms", fault, pending_call, hook), True, sample={"probe": replay, "problems": problems[:3]})
                rep.bump("probe:fault-forms")
                if problems:
                    rep.violation("C19/wedged-after-fault", f"established session{', a request in flight' if pending_call else ''}{'' if hook else ', no stop hook'}, then {fault}: "
                                  f"{'; '.join(problems[:4])}", replay)
    for address, peer in (("10.0.0.1", ("10.0.0.1", 6053)), ("fd00::7", ("fd00::7", 6053, 0, 0)), ("kitchen.local", ("fd00::7", 6053, 0, 0)),
                          ("kitchen", ("10.0.0.9", 6053)), ("kitchen.local", ("10.0.0.9", 6053)), ("fe80::1%eth0", ("fe80::1%eth0", 6053, 0, 3))):
        for names in (["kitchen", "kitchen", "kitchen"], ["dev", "kitchen", "dev"], ["", "kitchen", ""]):
            outs = peer_forms_probe(address, peer, names)
            rep.case(("peer-forms", address, peer[0], tuple(names)), True, sample={"address": address, "peer": peer[0], "device_names": names, "attempts": outs})
            rep.bump("probe:peer-forms")
            if any("already" in o for o in outs) or any(o != "ok" and not o.startswith("L.") for o in outs):
                rep.violation("C19/refused-after-failed-attempt", f"client for {address!r} (peer address {peer[0]!r}), consecutive sessions with devices named {names}: "
                              f"attempts ended {outs}; a raw error / 'Already connected' with no session alive",
                              {"kind": "peer-forms", "address": address, "peer": list(peer), "names": names})
    rep.coverage["disagreements"] = len(disagreements)
    if disagreements and not rep.violations:
        rep.violations.append(("C19/correspondence", "Model/Client.v and the real APIClient disagree on a trace; no violation of C19 found among the explored stories",
                               {"kind": "no-failing-input-found", "obligation": "trace validation Client.cstep ~ APIClient (vlib/clienttrace.py)",
                                "first_disagreements": disagreements[:3]}))
    if not proofs_ok and not rep.violations:
        rep.proof_broken(rep.broken[0], rep.broken[1])


def replay(path):
    common.setup_impl_path()
    connfamily.N_REG = connfamily.n_registered()
    d = json.loads(open(path).read())["replay"]
    if d.get("kind") == "restart-from-hook":
        print(restart_from_hook_probe(d["ending"]))
        return 0
    if d.get("kind") == "no-session-sweep":
        print(no_session_sweep(d["stage"]))
        return 0
    if d.get("kind") == "fault-forms":
        problems = fault_forms_probe(d["fault"], d["pending_call"], d["hook"])
        print(problems)
        return 1 if problems else 0
    if d.get("kind") == "peer-forms":
        print(peer_forms_probe(d["address"], tuple(d["peer"]), d["names"]))
        return 0
    if "story" not in d:
        print("nothing to replay:", d.get("kind"))
        return 0
    st = connfamily.story_from_json(d["story"])
    tr = run_impl(st)
    for l, p, o in tr.steps:
        if l != "silent":
            print(l, "|", p, "|", ",".join(o))
    print("final probe:", tr.final_probe)
    vs = predicate(tr, st)
    for sig, what, at in vs:
        print("VIOLATED:", sig, what)
    return 1 if vs else 0
