"""C12 — see checks/connfamily.py (shared engine of the connection family) and coq/Properties/C12.v."""
from checks import connfamily

VFILE = "Properties/C12.v"
RULE = ("stories = hand-picked same-turn/close-window scenarios + (thorough) every position x every single extra event of base stories "
        "+ random connect/traffic/close stories with hop-delayed injections (vlib/connstories.py); each story runs on the real APIConnection "
        "under the virtual-time loop with every event-loop callback labelled, the model must accept the label sequence with equal "
        "projections/observations, and the C12 predicate is evaluated on the implementation's trace; non-trivial = the connection closes "
        "within a story of at least 8 labelled callbacks; distinct by label sequence")


def dispatch_by_declared_id(helper):
    """A frame of every message type api.proto declares (id taken from the (id) option of the compiled descriptor, not from the
    library's table), plus ids nothing declares, travels through the real frame helper into a real connected APIConnection on
    which every declared class has one subscriber: each frame reaches exactly the subscriber of the class declared under its id,
    undeclared ids reach nobody and change nothing. Returns the list of deviations."""
    import asyncio
    from vlib import noisesim, simnet

    async def go(loop):
        from aioesphomeapi import api_options_pb2 as opt
        from aioesphomeapi import api_pb2 as pb
        from aioesphomeapi.connection import APIConnection, ConnectionParams, ConnectionState as S
        from aioesphomeapi.zeroconf import ZeroconfManager
        declared = {md.GetOptions().Extensions[opt.id]: getattr(pb, n) for n, md in pb.DESCRIPTOR.message_types_by_name.items()
                    if md.GetOptions().Extensions[opt.id] and md.GetOptions().Extensions[opt.source] != 2}
        net = simnet.Net(loop)
        psk = bytes(range(1, 33))
        params = ConnectionParams(addresses=["10.0.0.1"], port=6053, password=None, client_info="v", keepalive=20.0,
                                  zeroconf_manager=ZeroconfManager(), noise_psk=noisesim.b64(psk) if helper == "noise" else None, expected_name=None)
        conn = APIConnection(params, lambda e: None, False, None)
        seen = []
        bad = []
        with net.patched():
            await conn.start_connection()
            task = asyncio.ensure_future(conn.finish_connection(login=False))
            await simnet.drain(loop)
            tr = net.transports[-1]
            if helper == "noise":
                resp = noisesim.Responder(psk, b"dev")
                hs, _ = resp.handshake_frames(noisesim.split_frames(b"".join(d for _, d in tr.writes))[1][1:])
                tr.feed(resp.hello_frame() + hs)
                await simnet.drain(loop)
                frame = lambda i, p: resp.data_frame(i, p)[0]  # noqa: E731
            else:
                frame = simnet.plain_frame
            tr.feed(frame(2, pb.HelloResponse(api_version_major=1, api_version_minor=10, name="dev").SerializeToString()))
            await simnet.drain(loop)
            await task
            for i, cls in declared.items():
                conn.add_message_callback(lambda m, cls=cls: seen.append(cls.DESCRIPTOR.name), (cls,))
            top = max(declared)
            skip = {5, 7, 36}            # peer requests: answered / closing; covered by the stories
            ids = [i for i in sorted(declared) if i not in skip] + [0, top + 1, 255, 256 + 10, 256 + 25, 512 + 33, 0x1000 + 26, 65535]
            for i in ids:
                del seen[:]
                n_w = len(tr.writes)
                tr.feed(frame(i, b""))
                await simnet.drain(loop)
                want = [declared[i].DESCRIPTOR.name] if i in declared else []
                if seen != want or len(tr.writes) != n_w or conn.connection_state is not S.CONNECTED:
                    bad.append((i, list(seen), want, len(tr.writes) - n_w, conn.connection_state.name))
                    if conn.connection_state is not S.CONNECTED:
                        break
            conn.force_disconnect()
            await simnet.drain(loop)
        return bad
    return simnet.run(go)


def recycled_buffer_probe(helper, mode):
    """The reads of a connected session arrive in a receive buffer the transport refills for its next read (mode 1: one bytearray
    object, 2: memoryview slices of one pool) and the stream [state 1, state 2, PingRequest, state 3] is cut at every byte position:
    the subscriber sees the three states once each in order, exactly one PingResponse is written, the session stays connected,
    nothing escapes data_received. Returns the list of deviations."""
    import asyncio
    from vlib import noisesim, simnet

    async def go(loop):
        from aioesphomeapi import api_pb2 as pb
        from aioesphomeapi.connection import APIConnection, ConnectionParams, ConnectionState as S
        from aioesphomeapi.zeroconf import ZeroconfManager
        bad = []
        psk = bytes(range(1, 33))
        msgs = [(25, pb.SensorStateResponse(key=1, state=1.0).SerializeToString()), (25, pb.SensorStateResponse(key=2, state=2.0).SerializeToString()),
                (7, b""), (25, pb.SensorStateResponse(key=3, state=3.0).SerializeToString())]
        n_stream = None
        cutpos = 0
        while n_stream is None or cutpos < n_stream:
            net = simnet.Net(loop)
            params = ConnectionParams(addresses=["10.0.0.1"], port=6053, password=None, client_info="v", keepalive=20.0,
                                      zeroconf_manager=ZeroconfManager(), noise_psk=noisesim.b64(psk) if helper == "noise" else None, expected_name=None)
            conn = APIConnection(params, lambda e: None, False, None)
            seen = []
            simnet.FEED_MODE[0] = 0
            try:
                with net.patched():
                    await conn.start_connection()
                    task = asyncio.ensure_future(conn.finish_connection(login=False))
                    await simnet.drain(loop)
                    tr = net.transports[-1]
                    if helper == "noise":
                        resp = noisesim.Responder(psk, b"dev")
                        hs, _ = resp.handshake_frames(noisesim.split_frames(b"".join(d for _, d in tr.writes))[1][1:])
                        tr.feed(resp.hello_frame() + hs)
                        await simnet.drain(loop)
                        frame = lambda i, p: resp.data_frame(i, p)[0]  # noqa: E731
                    else:
                        frame = simnet.plain_frame
                    tr.feed(frame(2, pb.HelloResponse(api_version_major=1, api_version_minor=10, name="dev").SerializeToString()))
                    await simnet.drain(loop)
                    await task
                    conn.add_message_callback(lambda m: seen.append(m.key), (pb.SensorStateResponse,))
                    stream = b"".join(frame(i, p) for i, p in msgs)
                    n_stream = len(stream)
                    cutpos += 1
                    n_w = len(tr.writes)
                    simnet.FEED_MODE[0] = mode
                    r = [tr.feed(stream[:cutpos]), tr.feed(stream[cutpos:]) if cutpos < n_stream else None]
                    simnet.FEED_MODE[0] = 0
                    await simnet.drain(loop)
                    wrote = len(tr.writes) - n_w
                    if seen != [1, 2, 3] or wrote != 1 or conn.connection_state is not S.CONNECTED or any(isinstance(x, BaseException) for x in r):
                        bad.append((cutpos, list(seen), wrote, conn.connection_state.name, [repr(x) for x in r if x is not None]))
                    conn.force_disconnect()
                    await simnet.drain(loop)
            finally:
                simnet.FEED_MODE[0] = 0
        return bad, n_stream
    return simnet.run(go)


def neighbour_answer_probe(request_id):
    """Two plaintext sessions in one process. The device of session A pings it, and A's transport refuses the answer (the write
    raises, A closes). Then the device of session B sends a request (ping 7 / time 36 / disconnect 5): B's answer is exactly the
    matching response, in one write, nothing else. Returns (frames B wrote as (id, length), problem or None)."""
    import asyncio
    from vlib import simnet

    async def go(loop):
        net = simnet.Net(loop)
        with net.patched():
            cli_a, tr_a = await simnet.connected_client(loop, net)
            cli_b, tr_b = await simnet.connected_client(loop, net)
            tr_a.write_raises = BrokenPipeError(32, "broken pipe")
            tr_a.feed(simnet.plain_frame(7))
            await simnet.drain(loop)
            n_w = len(tr_b.writes)
            tr_b.feed(simnet.plain_frame(request_id))
            await simnet.drain(loop)
            new = [d for _, d in tr_b.writes[n_w:]]
            try:
                frames = [(t, len(pl)) for d in new for t, pl in simnet.decode_plain_stream(d)]
            except (ValueError, IndexError) as e:
                frames = None
                problem = f"what session B wrote does not decode ({e})"
            else:
                want = {7: 8, 36: 37, 5: 6}[request_id]
                problem = None
                if len(new) != 1 or [t for t, _ in frames] != [want]:
                    problem = f"session B wrote {len(new)} time(s), frames {frames}; expected one frame with id {want}"
            for c in (cli_a, cli_b):
                try:
                    await c.disconnect(force=True)
                except Exception:  # noqa: BLE001
                    pass
            await simnet.drain(loop)
        return frames, problem
    return simnet.run(go)


def multi_type_subscription_probe():
    """Subscriber A registers for several message types at once (none of them used before), subscriber B later for ONE of them,
    then A unsubscribes: every message reaches exactly the subscribers registered for ITS type at that moment.
    Returns a list of problems."""
    import asyncio
    from vlib import simnet
    from vlib.privnames import priv

    async def go(loop):
        from aioesphomeapi import api_pb2 as pb
        net = simnet.Net(loop)
        problems = []
        with net.patched():
            cli, tr = await simnet.connected_client(loop, net)
            conn = priv(cli, "_connection")
            seen = []
            types = (pb.SensorStateResponse, pb.SwitchStateResponse, pb.TextSensorStateResponse)
            rm_a = conn.add_message_callback(lambda m: seen.append(("A", type(m).__name__)), types)
            rm_b = conn.add_message_callback(lambda m: seen.append(("B", type(m).__name__)), (pb.SwitchStateResponse,))

            async def feed_all(tag, want):
                del seen[:]
                for cls in types:
                    tr.feed(simnet.plain_msg(cls(key=1)))
                await simnet.drain(loop)
                if sorted(seen) != sorted(want):
                    problems.append(f"{tag}: one message of each of {[c.__name__ for c in types]} reached {sorted(seen)}, expected {sorted(want)}")
            await feed_all("A on three types, B on SwitchStateResponse", [("A", c.__name__) for c in types] + [("B", "SwitchStateResponse")])
            rm_a()
            await feed_all("after A unsubscribed", [("B", "SwitchStateResponse")])
            rm_b()
            await feed_all("after both unsubscribed", [])
            # the only subscriber of a type subscribes another one from inside its callback: the newcomer was not registered when the
            # message was dispatched, so it sees the next message, not this one; then the first removes itself from inside its callback
            box = {}

            def first(m):
                seen.append(("first", m.key))
                if "second" not in box:
                    box["second"] = conn.add_message_callback(lambda m2: seen.append(("second", m2.key)), (pb.SensorStateResponse,))
                elif m.key == 3:
                    box["rm_first"]()
            box["rm_first"] = conn.add_message_callback(first, (pb.SensorStateResponse,))
            for key, want in ((1, [("first", 1)]), (2, [("first", 2), ("second", 2)]), (3, [("first", 3), ("second", 3)]), (4, [("second", 4)])):
                del seen[:]
                r = tr.feed(simnet.plain_msg(pb.SensorStateResponse(key=key)))
                await simnet.drain(loop)
                if isinstance(r, BaseException) or sorted(seen) != sorted(want):
                    problems.append(f"sole subscriber that subscribes another one / removes itself inside its callback, message {key}: callbacks {sorted(seen)}, expected {sorted(want)}"
                                    + (f"; {type(r).__name__} escaped from data_received" if isinstance(r, BaseException) else ""))
                    break
            if "second" in box:
                box["second"]()
            await cli.disconnect(force=True)
            await simnet.drain(loop)
        return problems
    return simnet.run(go)


def run(rep, tier, seed):
    connfamily.run(rep, tier, seed, "C12", VFILE, RULE)
    for helper in ("plaintext", "noise"):
        bad = dispatch_by_declared_id(helper)
        rep.case(("dispatch-by-declared-id", helper), True, sample={"dispatch_by_declared_id": helper, "deviations": bad[:3]})
        rep.bump("probe:dispatch-by-declared-id")
        if bad:
            i, seen, want, wrote, state = bad[0]
            rep.violation("C12/deliveries", f"{helper} connection, one subscriber per declared message class: a frame with id {i} reached {seen}, api.proto says {want} "
                          f"({wrote} frame(s) written in response, state {state}); {len(bad)} id(s) deviate", {"kind": "dispatch-by-declared-id", "helper": helper})
    problems = multi_type_subscription_probe()
    rep.case(("multi-type-subscription",), True, sample={"multi_type_subscription": problems[:2]})
    rep.bump("probe:multi-type-subscription")
    if problems:
        rep.violation("C12/deliveries", f"{problems[0]}; {len(problems)} problem(s)", {"kind": "multi-type-subscription"})
    for rid in (7, 36, 5):
        frames, problem = neighbour_answer_probe(rid)
        rep.case(("neighbour-answer", rid), True, sample={"neighbour_answer": rid, "frames_written": frames})
        rep.bump("probe:neighbour-answer")
        if problem:
            rep.violation("C12/peer-request-answer", f"two sessions in one process; A's answer to a ping was refused by its transport (A closed); then B's device sent request id {rid}: {problem}",
                          {"kind": "neighbour-answer", "request": rid})
    for helper in ("plaintext", "noise"):
        for mode in (1, 2):
            bad, n = recycled_buffer_probe(helper, mode)
            what = "one bytearray refilled for every read" if mode == 1 else "memoryview slices of one pool"
            rep.case(("recycled-buffer", helper, mode), True, sample={"recycled_buffer": helper, "mode": mode, "cut_positions": n, "deviations": bad[:3]})
            rep.bump("probe:recycled-buffer", n)
            if bad:
                cutpos, seen, wrote, state, raised = bad[0]
                rep.violation("C12/deliveries", f"{helper} connection, reads arrive in {what}; stream [state 1, state 2, PingRequest, state 3] ({n} bytes) cut after byte {cutpos}: "
                              f"subscriber saw {seen} (must be [1, 2, 3]), {wrote} frame(s) written (must be the one PingResponse), state {state}, raised {raised}; "
                              f"{len(bad)} of {n} cut positions deviate", {"kind": "recycled-buffer", "helper": helper, "mode": mode})


def replay(path):
    import json
    d = json.loads(open(path).read())["replay"]
    if d.get("kind") == "dispatch-by-declared-id":
        from vlib import common
        common.setup_impl_path()
        print(dispatch_by_declared_id(d["helper"]))
        return 0
    if d.get("kind") == "multi-type-subscription":
        from vlib import common
        common.setup_impl_path()
        problems = multi_type_subscription_probe()
        print(problems)
        return 1 if problems else 0
    if d.get("kind") == "neighbour-answer":
        from vlib import common
        common.setup_impl_path()
        frames, problem = neighbour_answer_probe(d["request"])
        print(frames, problem)
        return 1 if problem else 0
    if d.get("kind") == "recycled-buffer":
        from vlib import common
        common.setup_impl_path()
        bad, n = recycled_buffer_probe(d["helper"], d["mode"])
        print(bad[:5])
        return 1 if bad else 0
    return connfamily.replay(path, "C12")
