"""C20 — address resolution order and fall-backs; zeroconf instances are owned correctly.

Proof: coq/Properties/C20.v about Model/Resolver.v.
Tie: the real async_resolve_host and ZeroconfManager with fake mDNS (AsyncServiceInfo / AsyncZeroconf) and a fake
getaddrinfo, on host lists x oracle outcomes and on operation sequences; compared with the extracted model and with an
oracle written from the property text."""
from vlib.privnames import priv_func
import asyncio
import ipaddress
import itertools
import json
import random
import socket
from unittest.mock import patch

from vlib import common

VFILE = "Properties/C20.v"


def v4(n):
    return f"10.1.{n // 256}.{n % 256}"


def v6(n):
    return f"fd00::{n:x}"


HOST_FORMS = [
    ("lit4", "192.168.7.9", 201), ("lit6", "fd12::9", 202), ("lit6scope", "fe80::5%7", 203),
    ("bare", "kitchen", None), ("local", "kitchen.local", None), ("localdot", "kitchen.local.", None), ("sublocal", "a.b.local", None),
    ("fqdn", "dev.example.com", None), ("fqdndot", "dev.example.com.", None), ("upper", "Garage", None),
]
MDNS = [("v4", [], [11]), ("v6", [12], []), ("both", [13, 14], [15]), ("none", [], []), ("err", None, None)]
OS = [("res", [21, 22]), ("one6", [23]), ("empty", []), ("err", None)]


class FakeInfo:
    table = {}
    calls = []

    def __init__(self, type_, name, server=None):
        self.name = name

    async def async_request(self, zc, timeout):
        FakeInfo.calls.append(("M", self.name.split(".")[0]))
        out = FakeInfo.table.get(self.name.split(".")[0])
        if out is None or out[0] is None:
            raise OSError("mdns failure")
        return True

    def ip_addresses_by_version(self, version):
        from zeroconf import IPVersion
        out = FakeInfo.table.get(self.name.split(".")[0]) or ([], [])
        if version == IPVersion.V6Only:
            return [ipaddress.ip_address(v6(n)) for n in out[0]]
        return [ipaddress.ip_address(v4(n)) for n in out[1]]


class FakeZeroconf:
    pass


class FakeAsyncZeroconf:
    log = []

    def __init__(self, zc=None, origin="Lib"):
        self.zeroconf = zc or FakeZeroconf()
        self.origin = origin
        if origin == "Lib":
            FakeAsyncZeroconf.log.append("created")

    async def async_close(self):
        FakeAsyncZeroconf.log.append("closed" + self.origin)


def addr_id(ai, lits):
    a = ai.sockaddr.address
    for form, txt, n in HOST_FORMS:
        if n is not None and txt.split("%")[0] == a:
            return n
    if a.startswith("10.1."):
        p = a.split(".")
        return int(p[2]) * 256 + int(p[3])
    if a.startswith("fd00::"):
        return int(a[6:], 16)
    return -1


def run_resolve(hosts):
    """hosts: list of (form, text, lit, mdns(v6,v4)|None-for-error, os list|None-for-error)."""
    from aioesphomeapi import host_resolver as hr
    from aioesphomeapi.core import APIConnectionError, ResolveAPIError
    from aioesphomeapi.zeroconf import ZeroconfManager
    FakeInfo.table = {}
    FakeInfo.calls = []
    os_table = {}
    for form, text, lit, md, os_ in hosts:
        name = text.partition(".")[0]
        FakeInfo.table[name] = md if md is not None else (None, None)
        os_table[text] = os_

    async def fake_getaddrinfo(host, port, **kw):
        FakeInfo.calls.append(("O", host))
        r = os_table.get(host)
        if r is None:
            raise OSError("getaddrinfo failure")
        out = []
        for n in r:
            if n % 2:
                out.append((socket.AF_INET6, socket.SOCK_STREAM, socket.IPPROTO_TCP, "", (v6(n), port, 0, 0)))
            else:
                out.append((socket.AF_INET, socket.SOCK_STREAM, socket.IPPROTO_TCP, "", (v4(n), port)))
        return out

    async def go():
        loop = asyncio.get_event_loop()
        FakeAsyncZeroconf.log = []
        with patch.object(hr, "AsyncServiceInfo", FakeInfo), patch("aioesphomeapi.zeroconf.AsyncZeroconf", FakeAsyncZeroconf), \
                patch.object(loop, "getaddrinfo", fake_getaddrinfo):
            try:
                res = await hr.async_resolve_host([h[1] for h in hosts], 6053, ZeroconfManager())
                return ("OK", res)
            except ResolveAPIError as e:
                return ("ERR", "mdns" if "mDNS" in str(e) else "none")
            except APIConnectionError:
                return ("ERR", "os")
            except Exception as e:  # noqa
                return ("RAW", type(e).__name__ + ": " + str(e))
    loop = asyncio.new_event_loop()
    try:
        r = loop.run_until_complete(go())
    finally:
        loop.close()
    return r, list(FakeInfo.calls), list(FakeAsyncZeroconf.log)


def oracle(hosts):
    """From the property text."""
    out, calls, zerr = [], [], False
    for form, text, lit, md, os_ in hosts:
        got = []
        if lit is not None:
            got = [lit]
        else:
            stripped = text[:-1] if text.endswith(".") else text
            local = ("." not in text and ":" not in text) or stripped.endswith(".local")
            if local:
                calls.append(("M", text.partition(".")[0]))
                if md is None:
                    zerr = True
                else:
                    got = list(md[0]) + list(md[1])
        if not got:
            calls.append(("O", text))
            if os_ is None:
                return ("ERR", "os"), calls
            got = list(os_)
        out += got
    if not out:
        return ("ERR", "mdns" if zerr else "none"), calls
    return ("OK", out), calls


def model_line(hosts):
    parts = []
    for form, text, lit, md, os_ in hosts:
        m = "E" if md is None else ".".join(map(str, md[0])) + "/" + ".".join(map(str, md[1]))
        o = "E" if os_ is None else ".".join(map(str, os_))
        parts.append(f"{text},{lit if lit is not None else '-'},{m},{o}")
    return "resolve " + " ".join(parts)


def run_manager(ops):
    from aioesphomeapi import host_resolver as hr
    from aioesphomeapi.zeroconf import ZeroconfManager

    async def go():
        FakeAsyncZeroconf.log = []
        events = []
        no_sockets = {"on": False}

        class MaybeFailingZeroconf(FakeAsyncZeroconf):
            # a host without a multicast-capable interface: the engine cannot be created
            def __init__(self, zc=None, origin="Lib"):
                if no_sockets["on"] and zc is None and origin == "Lib":
                    raise OSError(19, "No such device")
                super().__init__(zc, origin)
        with patch.object(hr, "AsyncServiceInfo", FakeInfo), patch("aioesphomeapi.zeroconf.AsyncZeroconf", MaybeFailingZeroconf):
            app = MaybeFailingZeroconf(origin="App")
            mgr = ZeroconfManager()
            for op in ops:
                n0 = len(FakeAsyncZeroconf.log)
                no_sockets["on"] = op in ("getfail", "infofail")
                try:
                    if op == "set":
                        mgr.set_instance(app)
                    elif op == "get":
                        mgr.get_async_zeroconf()
                    elif op == "getfail":
                        n_before = len(FakeAsyncZeroconf.log)
                        try:
                            mgr.get_async_zeroconf()
                        except OSError:
                            FakeAsyncZeroconf.log.append("raise")
                    elif op == "infofail":
                        FakeInfo.table = {"dev": ([1], [])}
                        try:
                            await priv_func(hr, "_async_zeroconf_get_service_info")(mgr, "_esphomelib._tcp.local.", "dev._esphomelib._tcp.local.", "dev.local.", 3.0)
                        except Exception:  # noqa: BLE001  (the resolver reports "Cannot start mDNS sockets" as a ResolveAPIError)
                            FakeAsyncZeroconf.log.append("raise")
                    elif op in ("infoOK", "infoERR"):
                        FakeInfo.table = {"dev": ([1], []) if op == "infoOK" else (None, None)}
                        try:
                            await priv_func(hr, "_async_zeroconf_get_service_info")(mgr, "_esphomelib._tcp.local.", "dev._esphomelib._tcp.local.", "dev.local.", 3.0)
                        except Exception:  # the lookup's own failure is not what is observed here
                            pass
                    elif op == "close":
                        await mgr.async_close()
                except RuntimeError:
                    FakeAsyncZeroconf.log.append("raise")
                events.append(list(FakeAsyncZeroconf.log[n0:]))
        return events
    loop = asyncio.new_event_loop()
    try:
        return loop.run_until_complete(go())
    finally:
        loop.close()


def manager_overlap_probe(scenario):
    """ZeroconfManager operations that overlap a close which is still awaiting the engine's own shutdown (or whose shutdown
    fails): in the end every engine the library created has been closed exactly once and the application's engine never."""
    async def go():
        from aioesphomeapi.zeroconf import ZeroconfManager
        made = []

        class SlowZc:
            def __init__(self, zc=None, origin="Lib"):
                self.zeroconf = zc or FakeZeroconf()
                self.origin = origin
                self.closed = 0
                self.gate = asyncio.get_running_loop().create_future()
                self.fail = False
                made.append(self)

            async def async_close(self):
                await self.gate
                if self.fail:
                    raise OSError("shutdown failed")
                self.closed += 1
        if scenario == "create-fails-then-app":
            # the engine cannot be created (no multicast-capable interface: AsyncZeroconf() raises OSError); the application then
            # supplies its own engine; the manager is closed: the application's engine is still not the library's to close
            boom = {"n": 1}

            class FailingZc(SlowZc):
                def __init__(self, zc=None, origin="Lib"):
                    if zc is None and origin == "Lib" and boom["n"]:
                        boom["n"] -= 1
                        raise OSError(19, "No such device")
                    super().__init__(zc, origin)
            with patch("aioesphomeapi.zeroconf.AsyncZeroconf", FailingZc):
                app = FailingZc(origin="App")
                app.gate.set_result(None)
                mgr = ZeroconfManager()
                notes = []
                try:
                    mgr.get_async_zeroconf()
                    notes.append("created")
                except OSError:
                    notes.append("creation raised")
                try:
                    mgr.set_instance(app)
                    notes.append("app accepted")
                except RuntimeError:
                    notes.append("app refused")
                for z in made:
                    if not z.gate.done():
                        z.gate.set_result(None)
                for _ in range(2):
                    try:
                        await mgr.async_close()
                    except Exception as e:  # noqa: BLE001
                        notes.append("final close raised " + type(e).__name__)
            return notes, [(z.origin, z.closed) for z in made]
        with patch("aioesphomeapi.zeroconf.AsyncZeroconf", SlowZc):
            app = SlowZc(origin="App")
            app.gate.set_result(None)
            mgr = ZeroconfManager()
            first = mgr.get_async_zeroconf()
            closing = asyncio.ensure_future(mgr.async_close())
            await asyncio.sleep(0)
            notes = []
            if scenario == "get-during-close":
                second = mgr.get_async_zeroconf()
                notes.append("same" if second is first else "new")
                first.gate.set_result(None)
                await closing
            elif scenario == "failed-close-then-app":
                first.fail = True
                first.gate.set_result(None)
                try:
                    await closing
                except OSError:
                    notes.append("close raised")
                try:
                    mgr.set_instance(app)
                    notes.append("app accepted")
                except RuntimeError:
                    notes.append("app refused")
                first.fail = False
            else:
                closing.cancel()
                try:
                    await closing
                except asyncio.CancelledError:
                    notes.append("close cancelled")
                try:
                    mgr.set_instance(app)
                    notes.append("app accepted")
                except RuntimeError:
                    notes.append("app refused")
                first.gate = asyncio.get_running_loop().create_future()
                first.gate.set_result(None)
            for z in made:
                if not z.gate.done():
                    z.gate.set_result(None)
            for _ in range(2):
                try:
                    await mgr.async_close()
                except Exception as e:  # noqa: BLE001
                    notes.append("final close raised " + type(e).__name__)
        return notes, [(z.origin, z.closed) for z in made]
    loop = asyncio.new_event_loop()
    try:
        return loop.run_until_complete(go())
    finally:
        loop.close()


def overlapping_resolves_probe(order):
    """Two lookups of .local names alive at once, neither given a manager; the mDNS answers arrive in `order` ('ab': the first
    lookup's answer first, 'ba': the second's first). Each engine the library created is closed exactly once and not while a
    query that uses it is still unanswered, and both names resolve through mDNS. Returns (results, engine report, problems)."""
    async def go():
        from aioesphomeapi import host_resolver as hr
        loop = asyncio.get_running_loop()
        engines, problems = [], []
        gates = {"a": loop.create_future(), "b": loop.create_future()}
        table = {"a": [11], "b": [12]}
        outstanding = {}

        class Zc:
            def __init__(self, zc=None, origin="Lib"):
                self.zeroconf = zc or FakeZeroconf()
                self.closed = 0
                engines.append(self)

            async def async_close(self):
                self.closed += 1
                busy = [n for n, z in outstanding.items() if z is self.zeroconf]
                if busy:
                    problems.append(f"an engine the library created was closed while the query for {busy} that uses it was still unanswered")

        class Info:
            def __init__(self, type_, name, server=None):
                self.short = name.split(".")[0]

            async def async_request(self, zc, timeout):
                outstanding[self.short] = zc
                try:
                    await gates[self.short]
                finally:
                    outstanding.pop(self.short, None)
                for e in engines:
                    if e.zeroconf is zc and e.closed:
                        return False           # a closed engine never hears the answer
                return True

            def ip_addresses_by_version(self, version):
                from zeroconf import IPVersion
                return [] if version == IPVersion.V6Only else [ipaddress.ip_address(v4(n)) for n in table[self.short]]

        async def no_getaddrinfo(*a, **k):
            raise OSError("getaddrinfo failure")

        async def one(name):
            try:
                res = await hr.async_resolve_host([name + ".local"], 6053)
                return sorted(ai.sockaddr.address for ai in res)
            except Exception as e:  # noqa: BLE001
                return type(e).__name__
        with patch.object(hr, "AsyncServiceInfo", Info), patch("aioesphomeapi.zeroconf.AsyncZeroconf", Zc), patch.object(loop, "getaddrinfo", no_getaddrinfo):
            ta = asyncio.ensure_future(one("a"))
            await asyncio.sleep(0)
            tb = asyncio.ensure_future(one("b"))
            for _ in range(5):
                await asyncio.sleep(0)
            for k in order:
                gates[k].set_result(None)
                for _ in range(8):
                    await asyncio.sleep(0)
            ra, rb = await ta, await tb
        for name, r, n in (("a.local", ra, 11), ("b.local", rb, 12)):
            if r != [v4(n)]:
                problems.append(f"{name} (mDNS answers {v4(n)}) resolved to {r}")
        report = [e.closed for e in engines]
        if any(c != 1 for c in report):
            problems.append(f"engines created by the library were closed {report} time(s) (each exactly once)")
        return (ra, rb), report, problems
    loop = asyncio.new_event_loop()
    try:
        return loop.run_until_complete(go())
    finally:
        loop.close()


def stop_during_attempt_probe(how):
    """A reconnect manager that owns its mDNS engine (none supplied by the application) is stopped while it is 'not yet connected':
    from inside the application's on_connect_error callback (stop_callback(), how='from-callback'), or from outside while an
    attempt is in flight and the client turns the cancellation into a connection error (how='outside'). When everything has
    settled, every engine the library created has been closed, none carries a listener, and no attempt follows.
    Returns (engines as (closed, listeners), attempts after stop, problems)."""
    async def go():
        from aioesphomeapi.core import APIConnectionError
        from aioesphomeapi.reconnect_logic import ReconnectLogic
        from aioesphomeapi.zeroconf import ZeroconfManager
        loop = asyncio.get_running_loop()
        engines = []

        class Zc:
            def __init__(self):
                self.listeners = []

            def async_add_listener(self, listener, question):
                self.listeners.append(listener)

            def async_remove_listener(self, listener):
                if listener in self.listeners:
                    self.listeners.remove(listener)

        class Engine:
            def __init__(self, zc=None):
                self.zeroconf = zc or Zc()
                self.closed = 0
                engines.append(self)

            async def async_close(self):
                self.closed += 1

        class Client:
            def __init__(self):
                self.address = "10.0.0.1"
                self.log_name = "dev @ 10.0.0.1"
                self.zeroconf_manager = ZeroconfManager()
                self.attempts = 0
                self.gate = None

            def set_cached_name_if_unset(self, name):
                pass

            async def start_connection(self, on_stop=None):
                self.attempts += 1
                self.gate = loop.create_future()
                try:
                    await self.gate
                except asyncio.CancelledError:
                    # what APIConnection.start_connection does with a cancellation
                    raise APIConnectionError("Starting connection cancelled") from None

            async def finish_connection(self, login=False):
                pass
        with patch("aioesphomeapi.zeroconf.AsyncZeroconf", Engine):
            cli = Client()
            box = {}

            async def on_connect():
                pass

            async def on_disconnect(expected):
                pass

            async def on_connect_error(err):
                if how == "from-callback":
                    box["rl"].stop_callback()
            rl = ReconnectLogic(client=cli, on_connect=on_connect, on_disconnect=on_disconnect, on_connect_error=on_connect_error, name="dev")
            box["rl"] = rl
            await rl.start()
            for _ in range(5):
                await asyncio.sleep(0)
            if how == "from-callback":
                cli.gate.set_exception(APIConnectionError("nope"))
            else:
                await rl.stop()
            for _ in range(30):
                await asyncio.sleep(0)
            n_after = cli.attempts
            await asyncio.sleep(0.05)
            for _ in range(10):
                await asyncio.sleep(0)
            problems = []
            for k, e in enumerate(engines):
                if e.zeroconf.listeners:
                    problems.append(f"engine {k} the library created still carries the manager's listener")
                if e.closed != 1:
                    problems.append(f"engine {k} the library created was closed {e.closed} time(s)")
            if cli.attempts != n_after or (cli.gate is not None and not cli.gate.done()):
                problems.append("an attempt is in flight / was started after the stop")
            report = [(e.closed, len(e.zeroconf.listeners)) for e in engines]
            for t in asyncio.all_tasks(loop):
                if t is not asyncio.current_task():
                    t.cancel()
            try:
                await rl.stop()
            except Exception:  # noqa: BLE001
                pass
        return report, cli.attempts, problems
    loop = asyncio.new_event_loop()
    try:
        return loop.run_until_complete(go())
    finally:
        loop.close()


def second_session_probe(host, second):
    """One APIClient, two sessions. In the first the name resolves; in the second nothing resolves (mDNS `second[0]`, OS resolver
    `second[1]`): the attempt must fail with a connection error and must not reach the socket layer with addresses of its own."""
    from vlib import conntrace, simnet

    async def go(loop):
        from aioesphomeapi import host_resolver as hr
        from aioesphomeapi.client import APIClient
        name = host.partition(".")[0]
        FakeInfo.table = {name: ([], [3])}
        FakeInfo.calls = []
        os_state = {"r": [4]}

        async def fake_getaddrinfo(h, port, **kw):
            r = os_state["r"]
            if r is None:
                raise OSError("getaddrinfo failure")
            return [(socket.AF_INET, socket.SOCK_STREAM, socket.IPPROTO_TCP, "", (v4(n), port)) for n in r]
        net = simnet.Net(loop)
        outs = []
        with net.patched(resolver=False), patch.object(hr, "AsyncServiceInfo", FakeInfo), \
                patch("aioesphomeapi.zeroconf.AsyncZeroconf", FakeAsyncZeroconf), patch.object(loop, "getaddrinfo", fake_getaddrinfo):
            cli = APIClient(host, 6053, None)
            for k in range(2):
                if k == 1:
                    FakeInfo.table = {name: (None, None) if second[0] == "err" else ([], [])}
                    os_state["r"] = None if second[1] == "err" else []
                n_sock = len(net.sockets)
                try:
                    await cli.start_connection()
                    outs.append(("ok", len(net.sockets) - n_sock))
                except Exception as e:  # noqa: BLE001
                    outs.append((conntrace.exc_name(e), len(net.sockets) - n_sock))
                try:
                    await cli.disconnect(force=True)
                except Exception:  # noqa: BLE001
                    pass
                await simnet.drain(loop)
        return outs
    return simnet.run(go)


def run(rep, tier, seed):
    rng = random.Random(seed)
    rep.coverage["rule"] = (
        "host lists of 1-4 hosts from {IPv4, IPv6, IPv6%scope literals, bare, .local, .local., a.b.local, FQDN, FQDN., mixed case} x mDNS {v4, v6, both, none, error} x "
        "OS resolver {results, one, empty, error} (exhaustive for 1 host and all pairs in thorough; sampled otherwise) and manager operation sequences over "
        "{set application instance, get, lookup ok, lookup failing, close} (all sequences up to length 4 in quick, 6 in thorough); non-trivial = an mDNS or OS fall-back happens "
        "or an instance is created; distinct by case")
    proofs_ok = rep.proofs(VFILE)
    ok, log = common.build_driver()
    if not ok:
        raise RuntimeError("driver build failed: " + log[-2000:])
    single = []
    for form, text, lit in HOST_FORMS:
        for mk, m6, m4 in MDNS:
            for ok_, ol in OS:
                single.append((form, text, lit, None if mk == "err" else (m6, m4), ol))
    cases = [[h] for h in single]
    if tier == "thorough":
        cases += [[a, b] for a in rng.sample(single, 60) for b in rng.sample(single, 60)
                  if a[1] != b[1] and a[1].partition(".")[0] != b[1].partition(".")[0]]
    # the same name configured in two forms (bare and .local, .local and .local.): one mDNS answer for the name, but each form has its
    # own OS-resolver answer; every form is looked up on its own account, results in the order of the configured addresses
    forms = {f: (f, t, l) for f, t, l in HOST_FORMS}
    for fa, fb in (("bare", "local"), ("local", "bare"), ("local", "localdot"), ("bare", "localdot")):
        for mk, m6, m4 in MDNS:
            md = None if mk == "err" else (m6, m4)
            for _oa, ola in OS:
                for _ob, olb in OS:
                    olb2 = [x + 4 for x in olb] if olb else olb      # other addresses than the first form's
                    cases.append([forms[fa] + (md, ola), forms[fb] + (md, olb2)])
    n = 300 if tier == "quick" else 3000
    for _ in range(n):
        k = rng.choice([2, 2, 3, 4])
        hs = []
        used = set()
        while len(hs) < k:
            h = rng.choice(single)
            if h[1].partition(".")[0] in used or h[1] in used:
                continue
            used.add(h[1].partition(".")[0]); used.add(h[1])
            hs.append(h)
        cases.append(hs)
    mout = common.run_driver([model_line(c) for c in cases])
    disagreements = []
    for hosts, mo in zip(cases, mout):
        (kind, val), calls, zlog = run_resolve(hosts)
        exp, exp_calls = oracle(hosts)
        got = (kind, [addr_id(a, None) for a in val]) if kind == "OK" else (kind, val)
        replay = {"kind": "impl-case", "hosts": [(h[1], h[2], h[3], h[4]) for h in hosts]}
        fallback = any(c[0] == "O" for c in exp_calls) and any(c[0] == "M" for c in exp_calls)
        rep.case(tuple((h[1], str(h[3]), str(h[4])) for h in hosts), nontrivial=fallback or len(hosts) > 1,
                 sample={"hosts": [h[1] for h in hosts], "result": str(got)[:120], "calls": calls[:8]})
        rep.bump("hosts:%d" % len(hosts))
        for h in hosts:
            rep.bump("form:" + h[0])
        rep.coverage["traces_validated_against_impl"] += 1
        where = " + ".join(f"{h[1]}[mdns={'err' if h[3] is None else h[3]},os={'err' if h[4] is None else h[4]}]" for h in hosts)
        if kind == "RAW":
            rep.violation("C20/raw-error", f"{where}: raised {val} instead of a connection error", replay)
        elif got != exp:
            if kind == "OK" and not got[1]:
                rep.violation("C20/empty-result", f"{where}: returned an empty list instead of raising", replay)
            else:
                rep.violation("C20/result", f"{where}: resolved to {got}, expected {exp} (literals verbatim, mDNS first with IPv6 before IPv4, OS fall-back, configured order)", replay)
        elif calls != exp_calls:
            rep.violation("C20/lookups", f"{where}: lookups made {calls}, expected {exp_calls}", replay)
        if zlog.count("created") != zlog.count("closedLib") or "closedApp" in zlog:
            rep.violation("C20/temporary-instance", f"{where}: zeroconf instances created/closed during the call: {zlog}", replay)
        il = ("OK " + ",".join(map(str, got[1])) if kind == "OK" else f"ERR {val}") + " calls=" + ";".join(f"{k}:{v}" for k, v in calls)
        if il != mo:
            disagreements.append({"case": replay, "impl": il, "model": mo})
    # ---- manager histories
    ops = ["set", "get", "infoOK", "infoERR", "close", "getfail", "infofail"]
    L = 4 if tier == "quick" else 5
    seqs = [list(s) for n_ in range(1, L + 1) for s in itertools.product(ops, repeat=n_)]
    if tier != "quick":
        seqs += [list(s) for s in itertools.product(ops[:5], repeat=6)]
    zm = common.run_driver(["zc " + " ".join(s) for s in seqs])
    for s, mo in zip(seqs, zm):
        evs = run_manager(s)
        flat = [e for ev in evs for e in ev]
        replay = {"kind": "impl-case", "manager_ops": s}
        rep.case(("zc", tuple(s)), nontrivial="created" in flat, sample={"ops": s, "events": flat} if len(s) == 4 and "created" in flat and rng.random() < 0.01 else None)
        rep.bump("zc:len=%d" % len(s))
        if "closedApp" in flat:
            rep.violation("C20/closed-application-instance", f"manager ops {s}: the application's zeroconf instance was closed by the library", replay)
        for op, ev in zip(s, evs):
            if op.startswith("info") and ev.count("created") != ev.count("closedLib"):
                rep.violation("C20/lookup-leaks-instance", f"manager ops {s}: a lookup created an instance and did not close it ({ev})", replay)
        if s[-1] == "close":
            held_lib = flat.count("created") - flat.count("closedLib")
            if held_lib:
                rep.violation("C20/stop-keeps-library-instance", f"manager ops {s}: a library-created instance is still open after close()", replay)
        if ",".join(flat) != mo:
            disagreements.append({"case": replay, "impl": ",".join(flat), "model": mo})
    rep.coverage["disagreements"] = len(disagreements)
    if disagreements and not rep.violations:
        rep.violations.append(("C20/correspondence", "Model/Resolver.v and the implementation disagree; no violation of C20 found",
                               {"kind": "no-failing-input-found", "obligation": "correspondence Resolver.resolve / zrun ~ host_resolver.py, zeroconf.py", "first_disagreements": disagreements[:4]}))
    for scenario in ("get-during-close", "failed-close-then-app", "cancelled-close-then-app", "create-fails-then-app"):
        notes, engines = manager_overlap_probe(scenario)
        rep.case(("manager-overlap", scenario), True, sample={"manager_overlap": scenario, "notes": notes, "engines": engines})
        rep.bump("probe:manager-overlap")
        lib_bad = [e for e in engines if e[0] == "Lib" and e[1] != 1]
        app_bad = [e for e in engines if e[0] == "App" and e[1] != 0]
        if app_bad:
            rep.violation("C20/closed-application-instance", f"manager operations overlapping a close ({scenario}: {notes}): the application's zeroconf was closed {app_bad[0][1]} time(s)",
                          {"kind": "manager-overlap", "scenario": scenario})
        elif lib_bad:
            rep.violation("C20/library-instance-not-closed", f"manager operations overlapping a close ({scenario}: {notes}): engines created by the library and how often each was closed: "
                          f"{[e for e in engines if e[0] == 'Lib']} (each exactly once)", {"kind": "manager-overlap", "scenario": scenario})
    for how in ("from-callback", "outside"):
        report, attempts, problems = stop_during_attempt_probe(how)
        rep.case(("stop-during-attempt", how), True, sample={"stop_during_attempt": how, "engines": report, "attempts": attempts})
        rep.bump("probe:stop-during-attempt")
        if problems:
            rep.violation("C20/library-instance-not-closed", f"reconnect manager owning its mDNS engine, stopped {how} while an attempt fails: {'; '.join(problems[:3])} "
                          f"(engines as (times closed, listeners): {report})", {"kind": "stop-during-attempt", "how": how})
    for order in ("ab", "ba"):
        results, report, problems = overlapping_resolves_probe(order)
        rep.case(("overlapping-resolves", order), True, sample={"overlapping_resolves": order, "results": results, "engines_closed": report})
        rep.bump("probe:overlapping-resolves")
        if problems:
            rep.violation("C20/library-instance-not-closed" if "closed" in problems[0] else "C20/mdns-first", f"two lookups without a manager alive at once (answers in order {order}): {problems[0]}; "
                          f"{len(problems)} problem(s)", {"kind": "overlapping-resolves", "order": order})
    for host in ("dev.local", "dev", "printer.example.com"):
        for second in (("none", "empty"), ("err", "empty"), ("none", "err"), ("err", "err")):
            outs = second_session_probe(host, second)
            rep.case(("second-session", host, second), True, sample={"second_session": host, "second_lookup": second, "outcomes": outs})
            rep.bump("probe:second-session")
            replay = {"kind": "second-session", "host": host, "second": list(second)}
            if outs[0] != ("ok", 1):
                rep.violation("C20/second-session-setup", f"{host}: the first session (name resolves) ended {outs[0]}", replay)
            elif outs[1][0] == "ok" or outs[1][1] != 0 or not outs[1][0].startswith("L."):
                rep.violation("C20/nothing-resolves", f"{host}: second session of the same client, mDNS {second[0]} / OS resolver {second[1]}: start_connection() "
                              f"ended {outs[1][0]} after {outs[1][1]} TCP connect attempt(s); nothing resolved, a connection error is due and no address may reach the socket layer", replay)
    if not proofs_ok and not rep.violations:
        rep.proof_broken(rep.broken[0], rep.broken[1])


def replay(path):
    d0 = json.loads(open(path).read()).get("replay", {})
    if d0.get("kind") == "stop-during-attempt":
        common.setup_impl_path()
        r = stop_during_attempt_probe(d0["how"])
        print(r)
        return 1 if r[2] else 0
    if d0.get("kind") == "overlapping-resolves":
        common.setup_impl_path()
        r = overlapping_resolves_probe(d0["order"])
        print(r)
        return 1 if r[2] else 0
    if d0.get("kind") == "manager-overlap":
        common.setup_impl_path()
        print(manager_overlap_probe(d0["scenario"]))
        return 0
    if d0.get("kind") == "second-session":
        common.setup_impl_path()
        print(second_session_probe(d0["host"], tuple(d0["second"])))
        return 0
    common.setup_impl_path()
    d = json.loads(open(path).read())["replay"]
    if "manager_ops" in d:
        print(run_manager(d["manager_ops"]))
    elif "hosts" in d:
        hosts = [("?", h[0], h[1], tuple(h[2]) if h[2] is not None else None, h[3]) for h in d["hosts"]]
        print(run_resolve(hosts)[:2], oracle(hosts))
    return 0
