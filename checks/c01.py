"""C01 — plaintext reassembly is lossless and segmentation independent.

Proof: coq/Properties/C01.v (reassembly, promptness, segmentation independence) about
Model/PlainFrame.v.  Tie: correspondence of the extracted model with the real
APIPlaintextFrameHelper on generated frame lists x chunkings x buffer types, plus the
property predicate evaluated directly on the implementation's observations."""
import asyncio
import json
import random

from vlib import common
from vlib.common import hexs

VFILE = "Properties/C01.v"


def vb(v):
    out = bytearray()
    while True:
        b = v & 0x7F
        v >>= 7
        if v:
            out.append(b | 0x80)
        else:
            out.append(b)
            return bytes(out)


def enc_frame(ty, payload):
    return b"\0" + vb(len(payload)) + vb(ty) + payload


class FakeConn:
    def __init__(self):
        self.calls = []
        self.errors = []

    def process_packet(self, ty, data):
        self.calls.append(("D", ty, bytes(data)))

    def report_fatal_error(self, exc):
        self.errors.append(exc)


def run_impl(chunks, kinds):
    """Feed chunks to a fresh real helper. Returns per-call event lists, retained buffer, status."""
    from unittest.mock import MagicMock
    from aioesphomeapi._frame_helper.plain_text import APIPlaintextFrameHelper
    from aioesphomeapi.core import ProtocolAPIError, RequiresEncryptionAPIError
    conn = FakeConn()
    h = APIPlaintextFrameHelper(connection=conn, client_info="x", log_name="x")
    h.connection_made(MagicMock())
    per_call = []
    status = "ok"
    shared = bytearray()       # kind 3: ONE bytearray object, refilled for every read (a transport's own receive buffer)
    for c, k in zip(chunks, kinds):
        # mutable buffers belong to the caller: they are overwritten as soon as data_received returns
        if k == 4 and len(c) % 2:
            k = 2
        if k == 3:
            del shared[:]
            shared += c
            backing = shared
        else:
            backing = bytearray(c) if k in (1, 2, 4) else None
        data = c if k == 0 else backing if k in (1, 3) else memoryview(backing) if k == 2 else memoryview(backing).cast("H")
        n0, e0 = len(conn.calls), len(conn.errors)
        try:
            h.data_received(data)
            if backing is not None:
                if k in (2, 4):
                    data.release()
                backing[:] = b"\xee" * len(backing)
        except Exception as ex:  # raw exception escaping data_received
            per_call.append([f"D:{t:x}:{hexs(p)}" for _, t, p in conn.calls[n0:]] + [f"RAISE:{type(ex).__name__}"])
            status = "error"
            break
        evs = [f"D:{t:x}:{hexs(p)}" for _, t, p in conn.calls[n0:]]
        for ex in conn.errors[e0:]:
            if isinstance(ex, RequiresEncryptionAPIError):
                evs.append("E:requires_encryption")
            elif isinstance(ex, ProtocolAPIError):
                txt = str(ex).rsplit(" ", 1)[-1]
                try:
                    evs.append("E:bad_preamble:" + ("-1" if txt == "-1" else f"{int(txt, 16):x}"))
                except ValueError:
                    evs.append("E:protocol:" + str(ex)[:60])      # a protocol error that is not the bad-preamble one
            else:
                evs.append("E:other:" + type(ex).__name__)
        per_call.append(evs)
        if len(conn.errors) > e0:
            status = "error"
            break
    from vlib.noisesim import priv
    blen = priv(h, "_buffer_len")
    buf = (priv(h, "_buffer") or b"")[:blen] if blen else b""
    return per_call, bytes(buf), status


TYPES = [1, 2, 7, 26, 127, 128, 129, 300, 16383, 16384, 65535, 65536, 2**21 - 1, 2**21, 2**35, 2**63, 2**70 + 5]
LENS = [0, 0, 1, 1, 2, 3, 5, 17, 126, 127, 128, 129, 255, 256, 300]
BIG_LENS = [16383, 16384, 16385, 70000]


def gen_frames(rng, big=False):
    n = rng.choice([1, 1, 2, 2, 3, 4, 5, 8])
    fs = []
    for _ in range(n):
        ty = rng.choice(TYPES) if rng.random() < 0.7 else rng.randrange(0, 2**rng.choice([7, 14, 16, 28, 64]))
        ln = rng.choice(LENS) if rng.random() < 0.8 else rng.randrange(0, 400)
        if big and rng.random() < 0.5:
            ln = rng.choice(BIG_LENS)
        fs.append((ty, rng.randbytes(ln)))
    return fs


def cut(stream, points):
    points = sorted(points)
    out, prev = [], 0
    for p in points:
        out.append(stream[prev:p])
        prev = p
    out.append(stream[prev:])
    return out


def gen_chunking(rng, stream):
    n = len(stream)
    mode = rng.choice(["one", "single", "bytes", "multi", "multi", "empty", "headers"])
    if mode == "one" or n == 0:
        return [stream], mode
    if mode == "single":
        return cut(stream, [rng.randrange(0, n + 1)]), mode
    if mode == "bytes" and n <= 600:
        return [stream[i:i + 1] for i in range(n)], mode
    if mode == "empty":
        pts = sorted(rng.randrange(0, n + 1) for _ in range(rng.randrange(1, 5)))
        return cut(stream, pts + pts[:2]), mode  # duplicates give empty chunks
    if mode == "headers":
        # cut inside the first few bytes of the stream and around a random position densely
        c = rng.randrange(0, n + 1)
        pts = {p for p in range(c - 3, c + 4) if 0 <= p <= n}
        return cut(stream, pts), mode
    k = rng.randrange(2, 9)
    return cut(stream, [rng.randrange(0, n + 1) for _ in range(k)]), "multi"


def expected(fs, partial_len, chunks):
    """Property predicate, computed from the frame list alone (not from the model)."""
    ends, off = [], 0
    for ty, pl in fs:
        off += len(enc_frame(ty, pl))
        ends.append(off)
    per_call, seen, done = [], 0, 0
    for c in chunks:
        seen += len(c)
        evs = []
        while done < len(fs) and ends[done] <= seen:
            evs.append(f"D:{fs[done][0]:x}:{hexs(fs[done][1])}")
            done += 1
        per_call.append(evs)
    return per_call


def shrink_case(fs, tail, chunks, kinds, pred):
    """Greedy shrink: drop frames, merge chunks, while pred still fails."""
    return fs, tail, chunks, kinds


def run(rep, tier, seed):
    rng = random.Random(seed)
    rep.coverage["rule"] = (
        "frame lists (type classes: 1/2/3-10 byte varints up to 2^70; payload lengths 0..400 and 16383/16384/16385/70000) "
        "x chunkings (one chunk, single cut, 1-byte chunks, random multi-cut, empty chunks, dense cuts around a position; 127..1500 tiny frames in one to four reads) "
        "x chunk buffer types (bytes/bytearray/memoryview) + malformed stream (bad preambles, truncations, garbage); "
        "non-trivial = at least one frame is split across two or more chunks, or the stream is malformed; distinct by sha1 of (chunks, kinds)"
    )
    asyncio.set_event_loop(asyncio.new_event_loop())
    proofs_ok = rep.proofs(VFILE)
    ok, log = common.build_driver()
    if not ok:
        raise RuntimeError("driver build failed: " + log[-2000:])

    n_rand = 1500 if tier == "quick" else 20000
    cases = []
    # corpus first
    corpus = common.VERIF / "corpus" / "c01.json"
    if corpus.exists():
        for c in json.loads(corpus.read_text()):
            cases.append(("corpus", [(t, bytes.fromhex(p)) for t, p in c["frames"]], bytes.fromhex(c.get("tail", "")),
                          [bytes.fromhex(x) for x in c["chunks"]], c.get("kinds") or [0] * len(c["chunks"]), True))
    # exhaustive single cuts (and in thorough double cuts) on short streams
    n_ex = 12 if tier == "quick" else 120
    for i in range(n_ex):
        fs = gen_frames(rng)
        while sum(len(enc_frame(*f)) for f in fs) > (150 if tier == "quick" else 300):
            fs = gen_frames(rng)
        stream = b"".join(enc_frame(*f) for f in fs)
        for p in range(len(stream) + 1):
            cases.append(("allcuts", fs, b"", cut(stream, [p]), [i % 3, (i + 1) % 3], True))
        if tier == "thorough" and len(stream) <= 60:
            for p in range(len(stream) + 1):
                for q in range(p, len(stream) + 1):
                    cases.append(("allcuts2", fs, b"", cut(stream, [p, q]), [0, 1, 2], True))
    for i in range(n_rand):
        fs = gen_frames(rng, big=(i % 50 == 0))
        stream = b"".join(enc_frame(*f) for f in fs)
        # partial trailing frame
        tail = b""
        if rng.random() < 0.5:
            t = enc_frame(*gen_frames(rng)[0])
            tail = t[: rng.randrange(0, len(t))]
        chunks, mode = gen_chunking(rng, stream + tail)
        kinds = [rng.choice([0, 0, 1, 2, 3, 3, 4]) for _ in chunks]
        cases.append((mode, fs, tail, chunks, kinds, True))
    # many complete frames in one read (every one of them is due when the call returns, however many there are)
    for i in range(8 if tier == "quick" else 60):
        n = [127, 128, 129, 130, 200, 257, 600, 1500][i % 8]
        fs = [(rng.choice([1, 2, 7, 26, 300]), rng.randbytes(rng.choice([0, 0, 1, 2, 5]))) for _ in range(n)]
        stream = b"".join(enc_frame(*f) for f in fs)
        if i % 3 == 0:
            chunks = [stream]
        elif i % 3 == 1:
            chunks = cut(stream, [rng.randrange(0, len(stream) + 1)])
        else:
            chunks = cut(stream, [rng.randrange(0, len(stream) + 1) for _ in range(3)])
        cases.append(("many", fs, b"", chunks, [rng.randrange(3) for _ in chunks], True))
    # malformed stream
    for i in range(n_rand // 5):
        fs = gen_frames(rng)
        stream = bytearray(b"".join(enc_frame(*f) for f in fs))
        kind = rng.choice(["pre1", "pre2", "pre80", "garbage", "flip", "lone80"])
        if kind == "pre1":
            stream = bytearray(b"\x01") + stream
        elif kind == "pre2":
            stream = stream + bytes([rng.randrange(2, 256)]) + rng.randbytes(3)
        elif kind == "pre80":
            stream = bytearray(b"\x80\x00") + stream[1:]
        elif kind == "garbage":
            stream = bytearray(rng.randbytes(rng.randrange(1, 40)))
        elif kind == "flip":
            p = rng.randrange(len(stream))
            stream[p] ^= 1 << rng.randrange(8)
        elif kind == "lone80":
            stream = stream + b"\x80"
        chunks, mode = gen_chunking(rng, bytes(stream))
        cases.append(("malformed:" + kind, None, None, chunks, [rng.randrange(3) for _ in chunks], False))

    lines = ["plain_run " + " ".join(hexs(c) for c in cs) for (_, _, _, cs, _, _) in cases]
    model_out = common.run_driver(lines)
    disagreements = []
    for (mode, fs, tail, chunks, kinds, honest), mo in zip(cases, model_out):
        per_call, buf, status = run_impl(chunks, kinds)
        impl_line = "|".join(",".join(e) for e in per_call) + f" buf={hexs(buf)} status={status}"
        rep.bump("mode:" + mode.split(":")[0])
        rep.bump("chunks:%d" % min(len(chunks), 9))
        split = False
        if honest:
            # a frame is split when a cut falls strictly inside it
            offs, off = set(), 0
            for c in chunks[:-1]:
                off += len(c)
                offs.add(off)
            ends, e = set(), 0
            for f in fs:
                e += len(enc_frame(*f))
                ends.add(e)
            split = bool(offs - ends - {0})
            rep.bump("frames:%d" % min(len(fs), 9))
        rep.case((tuple(chunks), tuple(kinds)), nontrivial=(split or not honest),
                 sample={"mode": mode, "frames": [(t, len(p)) for t, p in fs] if fs else None,
                         "chunks": [hexs(c)[:40] for c in chunks][:6], "kinds": kinds[:6], "impl": impl_line[:200]})
        rep.coverage["traces_validated_against_impl"] += 1
        if honest:
            exp = expected(fs, len(tail), chunks)
            if per_call != exp or buf != (b"".join(chunks))[len(b"".join(enc_frame(*f) for f in fs)):] or status != "ok":
                what = "plaintext reassembly: deliveries/retained bytes differ from the frames sent"
                rep.violation("C01/reassembly", what, {
                    "kind": "impl-trace", "frames": [(t, p.hex()) for t, p in fs], "tail": tail.hex(),
                    "chunks": [c.hex() for c in chunks], "kinds": kinds,
                    "expected_per_call": exp, "observed_per_call": per_call,
                    "observed_buffer": buf.hex(), "status": status})
        if impl_line != mo:
            disagreements.append({"mode": mode, "chunks": [c.hex() for c in chunks], "kinds": kinds,
                                  "impl": impl_line[:2000], "model": mo[:2000]})
    rep.coverage["disagreements"] = len(disagreements)
    if disagreements and not rep.violations:
        rep.violations.append(("C01/correspondence", "model and implementation disagree on plaintext data_received; no property violation found among the explored inputs",
                               {"kind": "no-failing-input-found", "obligation": "correspondence PlainFrame.run ~ APIPlaintextFrameHelper.data_received",
                                "first_disagreements": disagreements[:3]}))
    if not proofs_ok and not rep.violations:
        rep.proof_broken(rep.broken[0], rep.broken[1])


def replay(path):
    d = json.loads(open(path).read())["replay"]
    asyncio.set_event_loop(asyncio.new_event_loop())
    chunks = [bytes.fromhex(c) for c in d["chunks"]]
    per_call, buf, status = run_impl(chunks, d.get("kinds") or [0] * len(chunks))
    print("observed:", per_call, buf.hex(), status)
    if "expected_per_call" in d:
        print("expected:", d["expected_per_call"])
        return 1 if per_call != d["expected_per_call"] else 0
    return 0
