"""C07 — see checks/connfamily.py (shared engine of the connection family) and coq/Properties/C07.v.

The callback "given at connect time" is the one the user passes to APIClient.start_connection(on_stop=...): besides the
connection-level stories (where the hook of APIConnection is observed), multi-session stories are run on the real APIClient
(vlib/clienttrace.py) and the user's callback must be invoked exactly for the connection-level stop calls, with the same
argument, in the same order - in particular never for an attempt that did not reach the connected state, whatever the client
is asked to do with it."""
import json
import random

from checks import connfamily

VFILE = "Properties/C07.v"
RULE = ("stories = hand-picked same-turn/close-window scenarios + (thorough) every position x every single extra event of base stories "
        "+ random connect/traffic/close stories with hop-delayed injections (vlib/connstories.py); each story runs on the real APIConnection "
        "under the virtual-time loop with every event-loop callback labelled, the model must accept the label sequence with equal "
        "projections/observations, and the C07 predicate is evaluated on the implementation's trace; plus multi-session stories on the "
        "real APIClient where the user's stop callback is compared with the connection-level stop calls; non-trivial = the connection "
        "closes within a story of at least 8 labelled callbacks; distinct by label sequence")


def client_predicate(tr):
    """the user's callback calls = the established sessions' stop calls (argument and order)"""
    from aioesphomeapi.connection import ConnectionState as S
    conn_stops = [int(o[4:]) for _, _, obs in tr.steps for o in obs if o.startswith("STOP")]
    user = [int(bool(x)) for x in tr.user_stops]
    ended = [cn for cn in tr.conns if id(cn) in tr.established and cn.connection_state is S.CLOSED]
    if len(user) > len(ended):
        return ("C07/user-callback-extra", f"the stop callback given at connect time was invoked {len(user)} time(s) {user}, but only {len(ended)} of the "
                f"{len(tr.conns)} connection(s) of this client ever reached the connected state and ended")
    if user == conn_stops:
        return None
    if len(user) > len(conn_stops):
        return ("C07/user-callback-extra", f"the stop callback given at connect time was invoked {len(user)} time(s) {user}, but only {len(conn_stops)} "
                f"session(s) that had reached the connected state ended {conn_stops}")
    if len(user) < len(conn_stops):
        return ("C07/user-callback-missing", f"{len(conn_stops)} established session(s) ended {conn_stops}, the stop callback given at connect time was invoked {len(user)} time(s) {user}")
    return ("C07/user-callback-argument", f"the stop callback was invoked with {user}, the sessions ended with {conn_stops}")


def run(rep, tier, seed):
    connfamily.run(rep, tier, seed, "C07", VFILE, RULE)
    from checks import c19
    rng = random.Random(seed + 7)
    stories = [s for s in c19.windows() if s.get("hook", True)]
    stories += [c19.gen_story(rng) for _ in range(150 if tier == "quick" else 2000)]
    for st in stories:
        st = dict(st, hook=True)
        tr = c19.run_impl(st)
        labels = [l for l, _, _ in tr.steps if l != "silent"]
        rep.case(("client",) + tuple(labels), nontrivial=bool(tr.user_stops), sample=None)
        rep.bump("client-story")
        bad = client_predicate(tr)
        if bad is not None:
            def still(s2, sig=bad[0]):
                b2 = client_predicate(c19.run_impl(s2))
                return b2 is not None and b2[0] == sig
            small = connfamily.shrink(st, still) if not any(s == bad[0] for s, _, _ in rep.violations) else st
            tr3 = c19.run_impl(small)
            b3 = client_predicate(tr3) or bad
            rep.violation(bad[0], b3[1], {"kind": "client-story", "story": connfamily.story_text(small),
                                          "callbacks": [(l, p, o) for l, p, o in tr3.steps if l != "silent"][-30:], "user_stops": [bool(x) for x in tr3.user_stops]})
    for ending in ("request", "eof", "reset", "bad-frame"):
        calls, errs = reconnect_from_hook_probe(ending)
        want = [("first", ending == "request"), ("second", False)]
        rep.case(("reconnect-from-hook", ending), True, sample={"reconnect_from_hook": ending, "callbacks": calls, "errors": errs})
        rep.bump("probe:reconnect-from-hook")
        if calls != want or errs:
            rep.violation("C07/callback-of-next-session", f"session ended by {ending}; its stop callback reconnects at once with a callback for the new session, which is "
                          f"established and then reset: callbacks invoked {calls}{' errors ' + str(errs) if errs else ''}, expected {want}",
                          {"kind": "reconnect-from-hook", "ending": ending})
    for first in ("request", "disconnect", "force", "eof", "bad-frame", "ping"):
        for second in ("reset", "eof", "bad-frame", "request", "force"):
            calls, want = siblings_probe(first, second)
            rep.case(("siblings", first, second), True, sample={"siblings": [first, second], "callbacks": calls})
            rep.bump("probe:siblings")
            if calls != want:
                rep.violation("C07/sibling-session", f"two sessions with the same device address in one process; A: {first}, then B: {second} (then both forced): stop callbacks "
                              f"invoked {calls}, expected {want} (each callback once, True iff a graceful disconnect was initiated on that connection)",
                              {"kind": "siblings", "first": first, "second": second})
    for ending in ("request", "reset", "force"):
        calls = foreign_loop_probe(ending)
        want = [ending != "reset"]
        rep.case(("foreign-loop", ending), True, sample={"client_built_under_another_loop": ending, "callbacks": calls})
        rep.bump("probe:foreign-loop")
        if calls != want:
            rep.violation("C07/stop-callback-lost", f"APIClient constructed while another event loop was current, session established on the running loop and ended by {ending}: "
                          f"stop callback invocations {calls}, expected {want}", {"kind": "foreign-loop", "ending": ending})
    for how in ("returns", "raises", "cancelled"):
        calls = stop_callback_chain_probe(how)
        want = [(1, False), (2, True), (3, False)]
        rep.case(("stop-callback-chain", how), True, sample={"stop_callback_chain": how, "callbacks": calls})
        rep.bump("probe:stop-callback-chain")
        if sorted(calls) != want:
            rep.violation("C07/stop-callback-lost", f"three consecutive sessions of one client; the first session's slow stop callback {how} after the second session has ended: "
                          f"stop callback invocations (session, reason) {calls}, expected {want}", {"kind": "stop-callback-chain", "how": how})


def siblings_probe(first_event, second_event):
    """Two clients of one process hold a session with the SAME device address at the same time. `first_event` ends (or does not end)
    session A; afterwards `second_event` ends session B. Each stop callback is for its own session only: it is invoked once, and
    its argument says whether a graceful disconnect had been initiated on THAT connection. Returns (callbacks, expected)."""
    import asyncio
    from vlib import simnet

    async def go(loop):
        from aioesphomeapi import api_pb2 as pb
        net = simnet.Net(loop)
        calls = []
        with net.patched():
            async def stop_a(expected):
                calls.append(("A", bool(expected)))

            async def stop_b(expected):
                calls.append(("B", bool(expected)))
            cli_a, tr_a = await simnet.connected_client(loop, net, on_stop=stop_a)
            cli_b, tr_b = await simnet.connected_client(loop, net, on_stop=stop_b)
            want = []

            async def end(name, cli, tr, ev):
                if ev == "request":
                    tr.feed(simnet.plain_msg(pb.DisconnectRequest()))
                    want.append((name, True))
                elif ev == "disconnect":
                    t = asyncio.ensure_future(cli.disconnect())
                    await simnet.drain(loop)
                    tr.feed(simnet.plain_msg(pb.DisconnectResponse()))
                    await simnet.drain(loop)
                    await t
                    want.append((name, True))
                elif ev == "force":
                    await cli.disconnect(force=True)
                    want.append((name, True))
                elif ev == "eof":
                    tr.feed_eof()
                    want.append((name, False))
                elif ev == "reset":
                    tr.lose(ConnectionResetError("reset"))
                    want.append((name, False))
                elif ev == "bad-frame":
                    tr.feed(b"\x01\x00\x00")
                    want.append((name, False))
                elif ev == "ping":       # nothing ends: the device merely pings this session
                    tr.feed(simnet.plain_msg(pb.PingRequest()))
                await simnet.drain(loop)
            await end("A", cli_a, tr_a, first_event)
            # B goes on working meanwhile
            tr_b.feed(simnet.plain_msg(pb.PingRequest()))
            await simnet.drain(loop)
            await end("B", cli_b, tr_b, second_event)
            for c in (cli_a, cli_b):
                try:
                    await c.disconnect(force=True)
                except Exception:  # noqa: BLE001
                    pass
            await simnet.drain(loop)
            if first_event == "ping":
                want.append(("A", True))
        return calls, want
    return simnet.run(go)


def foreign_loop_probe(ending):
    """The client object was constructed while another event loop was current (built before asyncio.run()); the session runs on
    the running loop and ends by `ending`: the stop callback given at connect time still runs exactly once, with the right reason."""
    import asyncio
    from vlib import simnet
    cli, other = simnet.client_built_elsewhere()

    async def go(loop):
        from aioesphomeapi import api_pb2 as pb
        net = simnet.Net(loop)
        calls = []

        async def on_stop(expected):
            calls.append(bool(expected))
        with net.patched():
            _, tr = await simnet.connected_client(loop, net, on_stop=on_stop, client=cli)
            if ending == "request":
                tr.feed(simnet.plain_msg(pb.DisconnectRequest()))
            elif ending == "reset":
                tr.lose(ConnectionResetError("reset"))
            else:
                await cli.disconnect(force=True)
            await simnet.drain(loop)
            await simnet.advance(loop, by=1.0)
            try:
                await cli.disconnect(force=True)
            except Exception:  # noqa: BLE001
                pass
            await simnet.drain(loop)
        return calls
    try:
        return simnet.run(go)
    except Exception as e:  # noqa: BLE001
        return "raised " + type(e).__name__ + ": " + str(e)[:80]
    finally:
        other.close()


def stop_callback_chain_probe(how_first_ends):
    """Three consecutive sessions of one client, each with its own (asynchronous) stop callback. The callback of the first session is
    slow and ends by raising / being cancelled / returning while the second session has already ended. Every established
    session's callback is still invoked exactly once, with its own reason. Returns the list of (session, reason) invocations."""
    import asyncio
    from vlib import simnet

    async def go(loop):
        from aioesphomeapi import api_pb2 as pb
        from aioesphomeapi.client import APIClient
        net = simnet.Net(loop)
        calls = []
        slow_tasks = []
        loop.set_exception_handler(lambda l, ctx: None)      # the application's failing callback is reported to the loop: not what is observed here
        with net.patched():
            cli = APIClient("10.0.0.1", 6053, None)

            def mk(k):
                async def on_stop(expected):
                    calls.append((k, bool(expected)))
                    if k == 1:
                        slow_tasks.append(asyncio.current_task())
                        await asyncio.sleep(2.0)
                        if how_first_ends == "raises":
                            raise ValueError("application bug in the stop callback")
                return on_stop
            for k in (1, 2, 3):
                await cli.start_connection(on_stop=mk(k))
                t = asyncio.ensure_future(cli.finish_connection(login=False))
                await simnet.drain(loop)
                tr = net.transports[-1]
                tr.feed(simnet.plain_msg(pb.HelloResponse(api_version_major=1, api_version_minor=10, name="dev")))
                await simnet.drain(loop)
                await t
                if k == 2:
                    tr.feed(simnet.plain_msg(pb.DisconnectRequest()))      # expected
                else:
                    tr.lose(ConnectionResetError("reset"))               # unexpected
                await simnet.drain(loop)
                await simnet.advance(loop, by=0.5)
                if k == 2 and how_first_ends == "cancelled" and slow_tasks:
                    slow_tasks[0].cancel()
                    await simnet.drain(loop)
            await simnet.advance(loop, by=5.0)
            try:
                await cli.disconnect(force=True)
            except Exception:  # noqa: BLE001
                pass
            await simnet.drain(loop)
        return calls
    return simnet.run(go)


def reconnect_from_hook_probe(ending):
    """The application's stop callback reconnects at once (as ReconnectLogic does after an unexpected drop), handing over the
    callback for the NEW session; that session is established and ends: its callback fires exactly once too."""
    import asyncio
    from vlib import simnet

    async def go(loop):
        from aioesphomeapi import api_pb2 as pb
        from aioesphomeapi.client import APIClient
        net = simnet.Net(loop)
        calls, errs = [], []
        with net.patched():
            cli = APIClient("10.0.0.1", 6053, None)

            async def on_stop2(expected):
                calls.append(("second", bool(expected)))

            async def on_stop1(expected):
                calls.append(("first", bool(expected)))
                try:
                    await cli.start_connection(on_stop=on_stop2)
                except Exception as e:  # noqa: BLE001
                    errs.append(type(e).__name__ + ": " + str(e)[:60])

            async def establish():
                task = asyncio.ensure_future(cli.finish_connection(login=False))
                await simnet.drain(loop)
                tr = net.transports[-1]
                tr.feed(simnet.plain_msg(pb.HelloResponse(api_version_major=1, api_version_minor=10, name="dev")))
                await simnet.drain(loop)
                await task
                return tr
            await cli.start_connection(on_stop=on_stop1)
            tr = await establish()
            if ending == "request":
                tr.feed(simnet.plain_msg(pb.DisconnectRequest()))
            elif ending == "eof":
                tr.feed_eof()
            elif ending == "reset":
                tr.lose(ConnectionResetError("reset"))
            else:
                tr.feed(b"\x01\x00\x00")
            await simnet.drain(loop)
            if not errs and len(net.transports) >= 1 and calls:
                try:
                    tr2 = await establish()
                    tr2.lose(ConnectionResetError("reset"))
                    await simnet.drain(loop)
                except Exception as e:  # noqa: BLE001
                    errs.append("second session: " + type(e).__name__ + ": " + str(e)[:60])
            for t in asyncio.all_tasks(loop):
                if t is not asyncio.current_task():
                    t.cancel()
        return calls, errs
    return simnet.run(go)


def replay(path):
    d = json.loads(open(path).read())["replay"]
    if d.get("kind") == "stop-callback-chain":
        from vlib import common
        common.setup_impl_path()
        calls = stop_callback_chain_probe(d["how"])
        print(calls)
        return 1 if sorted(calls) != [(1, False), (2, True), (3, False)] else 0
    if d.get("kind") == "foreign-loop":
        from vlib import common
        common.setup_impl_path()
        calls = foreign_loop_probe(d["ending"])
        print(calls)
        return 1 if calls != [d["ending"] != "reset"] else 0
    if d.get("kind") == "siblings":
        from vlib import common
        common.setup_impl_path()
        calls, want = siblings_probe(d["first"], d["second"])
        print("callbacks:", calls, "expected:", want)
        return 1 if calls != want else 0
    if d.get("kind") == "reconnect-from-hook":
        from vlib import common
        common.setup_impl_path()
        print(reconnect_from_hook_probe(d["ending"]))
        return 0
    if d.get("kind") == "client-story":
        from checks import c19
        from vlib import common
        common.setup_impl_path()
        connfamily.N_REG = connfamily.n_registered()
        st = connfamily.story_from_json(d["story"])
        tr = c19.run_impl(st)
        for l, p, o in tr.steps:
            if l != "silent":
                print(l, "|", p, "|", ",".join(o))
        print("user stop callback calls:", tr.user_stops, "->", client_predicate(tr))
        return 0
    return connfamily.replay(path, "C07")
