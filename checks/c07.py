"""C07 — see checks/connfamily.py (shared engine of the connection family) and coq/Properties/C07.v.

The callback "given at connect time" is the one the user passes to APIClient.start_connection(on_stop=...): besides the
connection-level stories (where the hook of APIConnection is observed), multi-session stories are run on the real APIClient
(vlib/clienttrace.py) and the user's callback must be invoked exactly for the connection-level stop calls, with the same
argument, in the same order - in particular never for an attempt that did not reach the connected state, whatever the client
is asked to do with it."""
import json
import random

from checks import connfamily

VFILE = "Properties/C07.v"
RULE = ("stories = hand-picked same-turn/close-window scenarios + (thorough) every position x every single extra event of base stories "
        "+ random connect/traffic/close stories with hop-delayed injections (vlib/connstories.py); each story runs on the real APIConnection "
        "under the virtual-time loop with every event-loop callback labelled, the model must accept the label sequence with equal "
        "projections/observations, and the C07 predicate is evaluated on the implementation's trace; plus multi-session stories on the "
        "real APIClient where the user's stop callback is compared with the connection-level stop calls; non-trivial = the connection "
        "closes within a story of at least 8 labelled callbacks; distinct by label sequence")


def client_predicate(tr):
    """the user's callback calls = the established sessions' stop calls (argument and order)"""
    from aioesphomeapi.connection import ConnectionState as S
    conn_stops = [int(o[4:]) for _, _, obs in tr.steps for o in obs if o.startswith("STOP")]
    user = [int(bool(x)) for x in tr.user_stops]
    ended = [cn for cn in tr.conns if id(cn) in tr.established and cn.connection_state is S.CLOSED]
    if len(user) > len(ended):
        return ("C07/user-callback-extra", f"the stop callback given at connect time was invoked {len(user)} time(s) {user}, but only {len(ended)} of the "
                f"{len(tr.conns)} connection(s) of this client ever reached the connected state and ended")
    if user == conn_stops:
        return None
    if len(user) > len(conn_stops):
        return ("C07/user-callback-extra", f"the stop callback given at connect time was invoked {len(user)} time(s) {user}, but only {len(conn_stops)} "
                f"session(s) that had reached the connected state ended {conn_stops}")
    if len(user) < len(conn_stops):
        return ("C07/user-callback-missing", f"{len(conn_stops)} established session(s) ended {conn_stops}, the stop callback given at connect time was invoked {len(user)} time(s) {user}")
    return ("C07/user-callback-argument", f"the stop callback was invoked with {user}, the sessions ended with {conn_stops}")


def run(rep, tier, seed):
    connfamily.run(rep, tier, seed, "C07", VFILE, RULE)
    from checks import c19
    rng = random.Random(seed + 7)
    stories = [s for s in c19.windows() if s.get("hook", True)]
    stories += [c19.gen_story(rng) for _ in range(150 if tier == "quick" else 2000)]
    for st in stories:
        st = dict(st, hook=True)
        tr = c19.run_impl(st)
        labels = [l for l, _, _ in tr.steps if l != "silent"]
        rep.case(("client",) + tuple(labels), nontrivial=bool(tr.user_stops), sample=None)
        rep.bump("client-story")
        bad = client_predicate(tr)
        if bad is not None:
            def still(s2, sig=bad[0]):
                b2 = client_predicate(c19.run_impl(s2))
                return b2 is not None and b2[0] == sig
            small = connfamily.shrink(st, still) if not any(s == bad[0] for s, _, _ in rep.violations) else st
            tr3 = c19.run_impl(small)
            b3 = client_predicate(tr3) or bad
            rep.violation(bad[0], b3[1], {"kind": "client-story", "story": connfamily.story_text(small),
                                          "callbacks": [(l, p, o) for l, p, o in tr3.steps if l != "silent"][-30:], "user_stops": [bool(x) for x in tr3.user_stops]})


def replay(path):
    d = json.loads(open(path).read())["replay"]
    if d.get("kind") == "client-story":
        from checks import c19
        from vlib import common
        common.setup_impl_path()
        connfamily.N_REG = connfamily.n_registered()
        st = connfamily.story_from_json(d["story"])
        tr = c19.run_impl(st)
        for l, p, o in tr.steps:
            if l != "silent":
                print(l, "|", p, "|", ",".join(o))
        print("user stop callback calls:", tr.user_stops, "->", client_predicate(tr))
        return 0
    return connfamily.replay(path, "C07")
