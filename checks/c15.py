"""C15 — commands carry exactly the arguments the caller supplied.

Proof: coq/Properties/C15.v — a fail-closed ast translator regenerates the command IR from client.py on every run; a static
checker (soundness proved for all commands, all environments) is run on it by vm_compute; legacy encodings as tables.
Tie (validates the translator): every command x every subset of optional arguments x value classes {falsy, typical,
extreme} x API versions around each threshold is called on the real APIClient over SimNet; the frame written is decoded
with api_pb2 and compared field by field with exec of the generated IR (extracted) and with an oracle from the property."""
import itertools
import asyncio
import json
import math
import random
import struct
from fractions import Fraction

from vlib import common, simnet

VFILE = "Properties/C15.v"
VERSIONS = [(1, 0), (1, 1), (1, 2), (1, 3), (1, 4), (1, 5), (1, 10), (0, 9), (2, 0), (2, 3)]


def f32r(x):
    return struct.unpack("<f", struct.pack("<f", x))[0]


def decomp(x):
    if x == 0:
        return (math.copysign(1, x) < 0, 0, 0)
    m, e = math.frexp(abs(x))
    m = int(m * (1 << 53)); e -= 53
    while m % 2 == 0:
        m //= 2; e += 1
    return (x < 0, m, e)


def enc(v):
    import enum
    if isinstance(v, bool):
        return "B%d" % v
    if isinstance(v, enum.Enum):
        return f"E{type(v).__name__}.{v.name}"
    if isinstance(v, int):
        return "I%d" % v
    if isinstance(v, float):
        n, m, e = decomp(v)
        return f"F{int(n)}:{m}:{e}"
    if isinstance(v, str):
        return "S" + v.encode().hex()
    if isinstance(v, tuple):
        return "T" + "|".join(enc(x) for x in v)
    raise TypeError(type(v))


def values_for(annotation, rng):
    """falsy, typical, extreme values for a parameter annotation (text)."""
    from aioesphomeapi import model
    a = annotation.replace(" | None", "").strip()
    if a == "bool":
        return [False, True]
    if a == "int":
        return [0, 1, 2 ** 31 - 1]
    if a == "float":
        return [0.0, 0.5, f32r(21.3), 1.0, 100.0]
    if a == "str":
        # (long values too: payloads of 256 and of 65 536 bytes and more - what is written is a function of this call alone)
        return ["", "x", "zwölf é", "y" * 249, "q" * 300, "w" * 65543]
    if a.startswith("tuple"):
        # components are carried as given, also outside the unit interval
        return [(0.0, 0.0, 0.0), (1.0, 0.5, 0.25), (1.5, 0.5, 0.25), (255.0, 128.0, 0.0)]
    if hasattr(model, a):
        ms = list(getattr(model, a))
        return [ms[0], ms[-1], ms[len(ms) // 2]]
    raise ValueError(annotation)


DURATIONS = [0.0, 0.0006, 0.001, 0.0015, 0.0025, 0.1, 1.001, 0.57, 2.5, 8.2, 4294967.0, 0.0004999]


def pb_value(msg, fd):
    from google.protobuf.descriptor import FieldDescriptor as FD
    v = getattr(msg, fd.name)
    if fd.type == FD.TYPE_ENUM:
        return ("enum", int(v))
    if fd.type == FD.TYPE_FLOAT:
        return ("float", Fraction(v))
    if fd.type == FD.TYPE_BOOL:
        return ("bool", bool(v))
    if fd.type in (FD.TYPE_STRING,):
        return ("str", v)
    return ("int", int(v))


def model_value(txt, fd):
    """IR value text -> comparable (as the wire would carry it)."""
    from google.protobuf.descriptor import FieldDescriptor as FD
    from aioesphomeapi import model
    k, r = txt[0], txt[1:]
    if k == "B":
        b = r == "1"
        return ("bool", b) if fd.type == FD.TYPE_BOOL else ("int", int(b))
    if k == "I":
        return ("int", int(r)) if fd.type != FD.TYPE_ENUM else ("enum", int(r))
    if k == "E":
        e, m = r.split(".")
        return ("enum", int(getattr(model, e)[m]))
    if k == "S":
        return ("str", bytes.fromhex(r).decode())
    if k == "F":
        s, m, e = r.split(":")
        v = float(Fraction(int(m)) * Fraction(2) ** int(e)) * (-1 if s == "1" else 1)
        if fd.type == FD.TYPE_FLOAT:
            return ("float", Fraction(f32r(v)))
        return ("int", int(v))
    raise ValueError(txt)


def run(rep, tier, seed):
    rng = random.Random(seed)
    rep.coverage["rule"] = (
        "every *_command method x every subset of its optional arguments (light 4096, climate 1024, fan 64, ...; exhaustive in thorough, all subsets of size <= 2 plus "
        "random larger ones in quick) x values {falsy, typical, extreme} x negotiated API versions {0.9,1.0,1.1,1.2,1.3,1.4,1.5,1.10,2.0,2.3} x debug flag on/off; durations at rounding boundaries; "
        "execute_service over all argument types x API versions; the written frame is decoded with api_pb2; non-trivial = some optional argument supplied with a falsy value "
        "or a legacy API version; distinct by (method, arguments, version)")
    from translate import gen_commands
    from translate.util import TranslationError
    proofs_ok = rep.proofs(VFILE)
    ok, log = common.build_driver()
    if not ok:
        raise RuntimeError("driver build failed: " + log[-2000:])
    import inspect
    from aioesphomeapi import api_pb2 as pb, model
    from aioesphomeapi.client import APIClient
    from aioesphomeapi.core import MESSAGE_TYPE_TO_PROTO
    try:
        cmds = gen_commands.extract()
    except TranslationError as e:
        rep.notes.append("translator: " + str(e))
        cmds = []
    names = [n for n in dir(APIClient) if n.endswith("_command") and not n.startswith("_")]
    calls = []
    for name in names:
        sig = inspect.signature(getattr(APIClient, name))
        params = [p for p in sig.parameters.values() if p.name != "self"]
        required = [p for p in params if p.default is inspect.Parameter.empty]
        optional = [p for p in params if p.default is not inspect.Parameter.empty]
        subsets = []
        if tier == "thorough" or len(optional) <= 6:
            for r in range(len(optional) + 1):
                subsets += list(itertools.combinations(optional, r))
        else:
            for r in (0, 1, 2):
                subsets += list(itertools.combinations(optional, r))
            subsets += [tuple(p for p in optional if rng.random() < 0.5) for _ in range(150)]
            subsets.append(tuple(optional))
        for sub in subsets:
            for rep_i in range(1 if (len(sub) > 3 and tier == "quick") else 2):
                kwargs = {}
                for p in required:
                    kwargs[p.name] = 5 if p.name == "key" else rng.choice(values_for(str(p.annotation), rng))
                for p in sub:
                    if str(p.annotation).replace(" | None", "") == "bool" and p.default is False:
                        kwargs[p.name] = True
                    elif p.name in ("transition_length", "flash_length"):
                        kwargs[p.name] = rng.choice(DURATIONS)
                    else:
                        vals = values_for(str(p.annotation), rng)
                        kwargs[p.name] = vals[0] if rep_i == 0 else rng.choice(vals)
                ver = rng.choice(VERSIONS) if name not in ("cover_command", "climate_command") else rng.choice([(1, 0), (1, 1), (1, 4), (1, 5), (0, 9), (2, 0), (2, 3)])
                calls.append((name, kwargs, ver))
    # cover: every legacy combination
    for ver in ((1, 0), (1, 1), (0, 9), (2, 0)):
        for stop in (False, True):
            for pos in (None, 0.0, 1.0, 0.5):
                for tilt in (None, 0.0, 0.7):
                    kw = {"key": 5, "stop": stop}
                    if pos is not None:
                        kw["position"] = pos
                    if tilt is not None:
                        kw["tilt"] = tilt
                    calls.append(("cover_command", kw, ver))

    def sweep(loop):
        async def inner():
            out = []
            net = simnet.Net(loop)
            with net.patched():
                for ver in sorted({v for _, _, v in calls}):
                    cli, tr = await simnet.connected_client(loop, net, api=ver)
                    for ci, (name, kwargs, v) in enumerate(calls):
                        if v != ver:
                            continue
                        # what is written must not depend on the debug flag (every other call runs with it on)
                        cli.set_debug(ci % 2 == 1)
                        n0 = len(tr.writes)
                        err = None
                        try:
                            getattr(cli, name)(**kwargs)
                        except Exception as e:  # noqa
                            err = e
                        out.append((name, kwargs, v, [d for _, d in tr.writes[n0:]], err))
                    await cli.disconnect(force=True)
                    await simnet.drain(loop)
            return out
        return inner()
    results = simnet.run(sweep)
    lines = []
    for name, kwargs, ver, writes, err in results:
        lines.append(f"cmd {name} {ver[0]} {ver[1]} " + " ".join(f"{k}={enc(v)}" for k, v in kwargs.items()))
    mout = common.run_driver(lines) if lines else []
    # optional arguments from the signatures themselves (parameters defaulting to None), independent of the translator
    optional_of = {}
    for name in names:
        sig = inspect.signature(getattr(APIClient, name))
        optional_of[name] = {p.name for p in sig.parameters.values() if p.default is None}
    disagreements = []
    for (name, kwargs, ver, writes, err), mo in zip(results, mout):
        replay = {"kind": "impl-case", "method": name, "kwargs": {k: repr(v) for k, v in kwargs.items()}, "api_version": list(ver)}
        supplied = [k for k in kwargs if k in optional_of.get(name, set())]
        falsy = any(not kwargs[k] and kwargs[k] is not None for k in supplied)
        rep.case((name, tuple(sorted((k, repr(v)) for k, v in kwargs.items())), ver), nontrivial=falsy or ver < (1, 5),
                 sample={"method": name, "kwargs": {k: repr(v) for k, v in kwargs.items()}, "api": ver, "model": mo[:140]})
        rep.bump("method:" + name); rep.bump("supplied:%d" % len(supplied))
        rep.coverage["traces_validated_against_impl"] += 1
        if err is not None or len(writes) != 1:
            rep.violation(f"C15/call-failed:{name}", f"{name}({kwargs}) raised {type(err).__name__ if err else None} / wrote {len(writes)} frames", replay)
            continue
        # what went out must be one well-formed frame of the request class of this command, whatever was sent before
        try:
            frames = simnet.decode_plain_stream(writes[0])
            ty, payload = frames[0]
            cls = MESSAGE_TYPE_TO_PROTO[ty]
            msg = cls()
            msg.ParseFromString(payload)
            bad = None if len(frames) == 1 else f"{len(frames)} frames in one write"
        except Exception as e:  # noqa: BLE001
            bad = f"the bytes written do not decode as one frame of a declared message ({type(e).__name__}: {e})"
        if bad is None and not cls.__name__.lower().startswith(name.replace("_command", "").replace("_", "")):
            bad = f"the frame carries a {cls.__name__}"
        if bad:
            rep.violation(f"C15/frame:{name}", f"{name}({ {k: (v if len(repr(v)) < 40 else repr(v)[:20] + '...') for k, v in kwargs.items()} }): {bad}", replay)
            continue
        d = cls.DESCRIPTOR
        # ---- oracle from the property: key; each optional argument with its flag exactly when supplied; others default
        if "key" in d.fields_by_name and msg.key != kwargs["key"]:
            rep.violation(f"C15/key:{name}", f"{name}: request carries key {msg.key}, caller gave {kwargs['key']}", replay)
        legacy = (name == "cover_command" and ver < (1, 1)) or (name == "climate_command" and ver < (1, 5) and "preset" in kwargs)
        if name == "cover_command" and ver < (1, 1):
            # the legacy encoding below 1.1: stop -> STOP, else fully open -> OPEN, else fully closed -> CLOSE, else no command;
            # nothing else is written (positions in between and tilt cannot be expressed)
            want_cmd = 2 if kwargs.get("stop") else (0 if kwargs.get("position") == 1.0 else (1 if kwargs.get("position") == 0.0 else None))
            got_cmd = msg.legacy_command if msg.has_legacy_command else None
            if got_cmd != want_cmd:
                rep.violation("C15/legacy-cover", f"cover_command({ {k: v for k, v in kwargs.items() if k != 'key'} }) on API {ver}: legacy command "
                              f"{ {None: 'none', 0: 'OPEN', 1: 'CLOSE', 2: 'STOP'}.get(got_cmd, got_cmd) } written, expected { {None: 'none', 0: 'OPEN', 1: 'CLOSE', 2: 'STOP'}[want_cmd] }", replay)
            elif msg.has_position or msg.has_tilt or msg.stop or msg.position or msg.tilt:
                rep.violation("C15/legacy-cover", f"cover_command({kwargs}) on API {ver}: fields of the 1.1 encoding written to a legacy device", replay)
        if not (name == "cover_command" and ver < (1, 1)):
            for p in optional_of.get(name, set()):
                if legacy and p == "preset":
                    continue
                flag = "has_" + p
                targets = {"rgb": ["red", "green", "blue"]}.get(p, [p])
                if p == "log_level":
                    targets = ["level"]
                if flag in d.fields_by_name and not (name == "lock_command" and p == "code"):
                    want = p in kwargs
                    known_f6 = False
                    if getattr(msg, flag) != want:
                        rep.violation(f"C15/flag:{name}.{p}", f"{name}: {flag}={getattr(msg, flag)} although the caller {'supplied' if want else 'omitted'} {p}" +
                                      (f" = {kwargs[p]!r}" if want else ""), replay)
                elif p == "code" and name == "lock_command" and "has_code" in d.fields_by_name:
                    pass
                for t, comp in zip(targets, range(len(targets))):
                    if t not in d.fields_by_name:
                        continue
                    got = pb_value(msg, d.fields_by_name[t])
                    if p in kwargs:
                        v = kwargs[p][comp] if isinstance(kwargs[p], tuple) else kwargs[p]
                        if p in ("transition_length", "flash_length"):
                            exp = ("int", int(round(v * 1000)))
                            mathematically = Fraction(v) * 1000
                            if abs(Fraction(got[1]) - mathematically) > Fraction(1, 2) + Fraction(1, 10 ** 6) * max(1, mathematically):
                                rep.violation(f"C15/milliseconds:{name}.{p}", f"{name}: {p}={v!r} s was written as {got[1]} ms", replay)
                            continue
                        import enum as _e
                        if isinstance(v, _e.Enum):
                            exp = ("enum", int(v))
                        elif isinstance(v, bool):
                            exp = ("bool", v)
                        elif isinstance(v, float):
                            exp = ("float", Fraction(f32r(v)))
                        elif isinstance(v, str):
                            exp = ("str", v)
                        else:
                            exp = (got[0], v)
                        if got != exp:
                            rep.violation(f"C15/value:{name}.{p}", f"{name}: {t}={got[1]!r} although the caller supplied {p}={kwargs[p]!r}", replay)
                    else:
                        dflt = pb_value(cls(), d.fields_by_name[t])
                        if got != dflt:
                            rep.violation(f"C15/not-default:{name}.{p}", f"{name}: {t}={got[1]!r} although the caller omitted {p}", replay)
        if name == "lock_command" and "code" in kwargs and "has_code" in d.fields_by_name and not msg.has_code:
            rep.violation("C15/lock_command/code-without-has_code", "lock_command(code=...) writes the code but not the has_code flag the message declares", replay)
        # ---- translator validation: exec of the generated IR
        try:
            mname, _, body = mo.partition(" ")
            exp_fields = {}
            if body != "-":
                for part in body.split(";"):
                    f, _, vtxt = part.partition("=")
                    exp_fields[f] = vtxt
            bad = None
            if mname != cls.__name__:
                bad = f"model sends {mname}, implementation {cls.__name__}"
            else:
                for fd in d.fields:
                    got = pb_value(msg, fd)
                    if fd.name in exp_fields and exp_fields[fd.name] != "NONE":
                        want = model_value(exp_fields[fd.name], fd)
                    else:
                        want = pb_value(cls(), fd)
                    if got != want:
                        bad = f"field {fd.name}: implementation {got}, model {want}"
                        break
            if bad:
                disagreements.append({"case": replay, "why": bad, "model": mo[:300]})
        except Exception as e:  # noqa
            disagreements.append({"case": replay, "why": f"cannot compare: {type(e).__name__} {e}", "model": mo[:300]})

    # ---- execute_service: field table by argument type and API version
    def svc(loop):
        async def inner():
            out = []
            net = simnet.Net(loop)
            T = model.UserServiceArgType
            vals = {T.BOOL: True, T.INT: 7, T.FLOAT: 0.5, T.STRING: "s", T.BOOL_ARRAY: [False, True], T.INT_ARRAY: [0, 3], T.FLOAT_ARRAY: [0.0, 1.5], T.STRING_ARRAY: ["", "x"]}
            with net.patched():
                for ver in ((1, 2), (1, 3)):
                    cli, tr = await simnet.connected_client(loop, net, api=ver)
                    for t in T:
                        s = model.UserService(name="svc", key=9, args=[model.UserServiceArg(name="a", type=t)])
                        n0 = len(tr.writes)
                        err = None
                        try:
                            cli.execute_service(s, {"a": vals[t]})
                        except Exception as e:  # noqa
                            err = e
                        out.append((ver, t, vals[t], [d for _, d in tr.writes[n0:]], err))
                    await cli.disconnect(force=True)
                # one client object over two sessions that negotiate different API versions (a device that was up- or downgraded):
                # the same service, called in both
                for order in (((1, 2), (1, 3)), ((1, 3), (1, 2))):
                    from aioesphomeapi.client import APIClient
                    cli2 = APIClient("10.0.0.1", 6053, None)
                    for ver in order:
                        await cli2.start_connection()
                        task = asyncio.ensure_future(cli2.finish_connection(login=False))
                        await simnet.drain(loop)
                        tr2 = net.transports[-1]
                        tr2.feed(simnet.plain_msg(pb.HelloResponse(api_version_major=ver[0], api_version_minor=ver[1], name="dev")))
                        await simnet.drain(loop)
                        await task
                        s = model.UserService(name="svc", key=31, args=[model.UserServiceArg(name="a", type=T.INT)])
                        n0 = len(tr2.writes)
                        err = None
                        try:
                            cli2.execute_service(s, {"a": 7})
                        except Exception as e:  # noqa
                            err = e
                        out.append((ver, T.INT, 7, [d for _, d in tr2.writes[n0:]], err))
                        await cli2.disconnect(force=True)
                        await simnet.drain(loop)
            return out
        return inner()
    T = model.UserServiceArgType
    table = {T.BOOL: "bool_", T.FLOAT: "float_", T.STRING: "string_", T.BOOL_ARRAY: "bool_array", T.INT_ARRAY: "int_array", T.FLOAT_ARRAY: "float_array", T.STRING_ARRAY: "string_array"}
    for n_svc, (ver, t, val, writes, err) in enumerate(simnet.run(svc)):
        frames = simnet.decode_plain_stream(writes[0]) if len(writes) == 1 else []
        replay = {"kind": "impl-case", "method": "execute_service", "type": t.name, "api_version": list(ver), "call_number": n_svc}
        rep.case(("execute_service", t.name, ver, n_svc), True, sample=None); rep.bump("method:execute_service")
        if err is not None:
            rep.violation("C15/execute_service", f"execute_service with an argument of type {t.name} at API {ver} raised {type(err).__name__}: {err} "
                          "(call %d on this client; the service was declared anew by the device)" % n_svc, replay)
            continue
        if len(frames) != 1:
            rep.violation("C15/execute_service", f"execute_service wrote {len(frames)} frames", replay)
            continue
        msg = pb.ExecuteServiceRequest(); msg.ParseFromString(frames[0][1])
        want_field = table.get(t) or ("int_" if ver >= (1, 3) else "legacy_int")
        arg = msg.args[0] if msg.args else None
        set_fields = [fd.name for fd, _ in arg.ListFields()] if arg is not None else []
        if msg.key not in (9, 31) or set_fields not in ([want_field], []) or (set_fields == [] and val not in (0, False, "", [], 0.0)):
            rep.violation(f"C15/execute_service:{t.name}", f"execute_service argument of type {t.name} at API {ver}: fields set {set_fields}, expected {want_field}", replay)

    # ---- a call the library refuses writes nothing: one argument carries a value its wire field cannot hold (a float / negative /
    # too large number for an unsigned integer, text for a number, a number for text) while all the other arguments are fine
    def bad_values(annotation):
        a = annotation.replace(" | None", "").strip()
        if a == "int":
            return [2.5, -1, 1 << 40, "x"]
        if a == "float":
            return ["x", (1.0,)]
        if a == "str":
            return [5, 2.5, b"\xff\xfe"]
        if a.startswith("tuple"):
            return [("a", "b", "c"), (1.0,)]
        return []
    refused_calls = []
    for name in names:
        sig = inspect.signature(getattr(APIClient, name))
        params = [p for p in sig.parameters.values() if p.name != "self"]
        for victim in params:
            if victim.name == "key":
                continue
            for bv in bad_values(str(victim.annotation)):
                kwargs = {}
                for p in params:
                    if p.name == "key":
                        kwargs["key"] = 5
                    elif p is victim:
                        kwargs[p.name] = bv
                    elif p.name in ("transition_length", "flash_length"):
                        kwargs[p.name] = 0.5
                    elif str(p.annotation).replace(" | None", "") == "bool":
                        kwargs[p.name] = True
                    else:
                        kwargs[p.name] = values_for(str(p.annotation), rng)[1]
                refused_calls.append((name, victim.name, kwargs))

    def refused_sweep(loop):
        async def inner():
            out = []
            net = simnet.Net(loop)
            with net.patched():
                cli, tr = await simnet.connected_client(loop, net, api=(1, 10))
                for name, victim, kwargs in refused_calls:
                    n0 = len(tr.writes)
                    err = None
                    try:
                        getattr(cli, name)(**kwargs)
                    except Exception as e:  # noqa: BLE001
                        err = type(e).__name__
                    out.append((name, victim, kwargs, err, [d for _, d in tr.writes[n0:]]))
                await cli.disconnect(force=True)
                await simnet.drain(loop)
            return out
        return inner()
    for name, victim, kwargs, err, writes in simnet.run(refused_sweep):
        rep.case(("refused", name, victim, repr(kwargs[victim])), True, sample=None)
        rep.bump("refused-value:" + ("raised" if err else "accepted"))
        if err is not None and writes:
            try:
                ty, payload = simnet.decode_plain_stream(writes[0])[0]
                m = MESSAGE_TYPE_TO_PROTO[ty]()
                m.ParseFromString(payload)
                what = f"{type(m).__name__}({', '.join(fd.name + '=' + repr(v)[:20] for fd, v in m.ListFields())})"
            except Exception:  # noqa: BLE001
                what = writes[0][:40].hex()
            rep.violation(f"C15/refused-call-wrote:{name}", f"{name}(..., {victim}={kwargs[victim]!r}, all other arguments supplied with valid values) raised {err}, yet a request was written: "
                          f"{what} - the device receives a command that lacks arguments the caller supplied",
                          {"kind": "impl-case", "method": name, "kwargs": {k: repr(v) for k, v in kwargs.items()}, "api_version": [1, 10], "refused": victim})

    # ---- the published parameter order (vlib/public_signatures.json, recorded from the pinned tree): a call that passes its arguments
    # by position writes the same request as the call that passes them by keyword
    import json as _json
    published = _json.loads((common.VERIF / "vlib" / "public_signatures.json").read_text())

    def positional_sweep(loop):
        async def inner():
            out = []
            net = simnet.Net(loop)
            with net.patched():
                for ver in ((1, 10), (1, 0)):
                    cli, tr = await simnet.connected_client(loop, net, api=ver)
                    for name in names:
                        order = [pn for pn, kind in published.get(name, []) if kind == "POSITIONAL_OR_KEYWORD"]
                        sig = inspect.signature(getattr(APIClient, name))
                        if not order or set(order) - set(sig.parameters):
                            continue
                        vals = {}
                        for pn in order:
                            p = sig.parameters[pn]
                            if pn == "key":
                                vals[pn] = 5
                            elif pn in ("transition_length", "flash_length"):
                                vals[pn] = 0.5
                            elif str(p.annotation).replace(" | None", "") == "bool":
                                vals[pn] = True
                            else:
                                vals[pn] = values_for(str(p.annotation), rng)[1]
                        for upto in range(1, len(order) + 1):
                            # the first `upto` parameters by position, each optional one before the last left out (None) in turn
                            for skip in [None] + [q for q in order[1:upto - 1] if sig.parameters[q].default is None]:
                                args = [None if q == skip else vals[q] for q in order[:upto]]
                                kwargs = {q: vals[q] for q in order[:upto] if q != skip}
                                res = []
                                for call in (lambda: getattr(cli, name)(*args), lambda: getattr(cli, name)(**kwargs)):
                                    n0 = len(tr.writes)
                                    try:
                                        call()
                                        res.append([d for _, d in tr.writes[n0:]])
                                    except Exception as e:  # noqa: BLE001
                                        res.append("raised " + type(e).__name__)
                                if res[0] != res[1]:
                                    out.append((name, ver, args, kwargs, res))
                    await cli.disconnect(force=True)
                    await simnet.drain(loop)
            return out
        return inner()
    diffs = simnet.run(positional_sweep)
    rep.case(("positional-calls",), True, sample={"positional_calls_differing": len(diffs)})
    rep.bump("probe:positional-calls")
    if diffs:
        name, ver, args, kwargs, res = diffs[0]
        show = lambda r: r if isinstance(r, str) else [x.hex()[:60] for x in r]  # noqa: E731
        rep.violation(f"C15/positional:{name}", f"{name}{tuple(args)} on API {ver} (arguments in the published parameter order) wrote {show(res[0])}, the same call by keyword "
                      f"{kwargs} wrote {show(res[1])}; {len(diffs)} call(s) differ", {"kind": "impl-case", "method": name, "kwargs": {k: repr(v) for k, v in kwargs.items()}, "api_version": list(ver), "positional": True})

    # ---- commands issued from inside a state callback, in reads that end in the middle of the next frame, and the ordinary commands
    # that follow: each is on the wire, with exactly its arguments, when the call returns
    def callback_sweep(loop):
        async def inner():
            problems = []
            net = simnet.Net(loop)
            with net.patched():
                cli, tr = await simnet.connected_client(loop, net, api=(1, 10))
                seen_writes = []

                def on_state(st):
                    n0 = len(tr.writes)
                    cli.light_command(7, state=False, brightness=0.0)
                    seen_writes.append([d for _, d in tr.writes[n0:]])
                cli.subscribe_states(on_state)
                await simnet.drain(loop)
                state = simnet.plain_msg(pb.SensorStateResponse(key=3, state=1.0))
                nxt = simnet.plain_msg(pb.SensorStateResponse(key=4, state=2.0))
                for what, data in (("a state message and the first two bytes of the next frame", state + nxt[:2]), ("the rest of that frame", nxt[2:]),
                                   ("a whole state message", state)):
                    del seen_writes[:]
                    tr.feed(data)
                    await simnet.drain(loop)
                    for w in seen_writes:
                        ok = False
                        if len(w) == 1:
                            fr = simnet.decode_plain_stream(w[0])
                            if len(fr) == 1 and fr[0][0] == 32:
                                m = pb.LightCommandRequest()
                                m.ParseFromString(fr[0][1])
                                ok = (m.key, m.has_state, m.state, m.has_brightness, m.brightness) == (7, True, False, True, 0.0)
                        if not ok:
                            problems.append(f"light_command(7, state=False, brightness=0.0) called from a state callback during a read of {what}: "
                                            f"when it returned the transport had been handed {[x.hex()[:40] for x in w]}")
                    if not seen_writes:
                        problems.append(f"the state callback did not run for a read of {what}")
                    n0 = len(tr.writes)
                    cli.switch_command(5, True)
                    w = [d for _, d in tr.writes[n0:]]
                    if len(w) != 1 or [t for t, _ in simnet.decode_plain_stream(w[0])] != [33]:
                        problems.append(f"switch_command(5, True) after a read of {what}: when it returned the transport had been handed {[x.hex()[:40] for x in w]}")
                await cli.disconnect(force=True)
                await simnet.drain(loop)
            return problems
        return inner()
    problems = simnet.run(callback_sweep)
    rep.case(("commands-from-callback",), True, sample={"commands_from_callback": problems[:2]})
    rep.bump("probe:commands-from-callback")
    if problems:
        rep.violation("C15/not-written", f"{problems[0]}; {len(problems)} problem(s): the request must be written to the device, carrying exactly the supplied arguments",
                      {"kind": "impl-case", "method": "light_command", "kwargs": {"from": "state callback"}, "api_version": [1, 10]})

    rep.coverage["disagreements"] = len(disagreements)
    if disagreements and not rep.violations:
        rep.violations.append(("C15/correspondence", "the command IR translated from client.py and the real methods disagree; no violation of C15 found among the explored calls",
                               {"kind": "no-failing-input-found", "obligation": "translator validation: exec GenCommands ~ APIClient.*_command", "first_disagreements": disagreements[:4]}))
    if not proofs_ok and not rep.violations:
        rep.proof_broken(rep.broken[0], rep.broken[1])


def replay(path):
    common.setup_impl_path()
    d = json.loads(open(path).read())["replay"]
    print(json.dumps(d, indent=1)[:1500])
    return 0
