"""C10 — keepalive: ping only when idle; silent peer dropped in (5.5K, 6.5K]; live peer never.

Proof: coq/Properties/C10.v about Model/Keepalive.v (every event schedule, every K = 2h).
Tie: the extracted scheduler ka_sim and the real APIConnection (virtual-time loop) run on the same arrival schedules;
ping timestamps and the time of death must agree, and both must equal an independently written closed-form oracle."""
from vlib.privnames import priv, has_priv
import asyncio
import json
import random

from vlib import common, simnet

VFILE = "Properties/C10.v"
UNIT = 1 / 1024.0


def oracle(h, arrivals, horizon):
    """Closed form from the property text. Times in units; K = 2h; arrivals sorted, none at a multiple of h."""
    K, T = 2 * h, 9 * h
    out = []
    first_ping = None
    j = 1
    ai = 0
    arr = list(arrivals)
    while True:
        t = j * K
        # death before this tick?
        if first_ping is not None and first_ping + T < t:
            d = first_ping + T
            if d > horizon:
                return out
            if not any(first_ping < a <= d for a in arr):
                out.append(("X", d))
                return out
            first_ping = None
        if t > horizon:
            return out
        idle = not any((j - 1) * K < a <= t for a in arr)
        if any(a for a in arr if first_ping is not None and first_ping < a <= t):
            first_ping = None
        if idle:
            out.append(("P", t))
            if first_ping is None:
                first_ping = t
        j += 1


def run_impl(h, arrivals, horizon, kinds, sends=(), crumbs=(), flow=(), lead=0, pending_call=False):
    """Real connection with keepalive K = 2h units; returns [('P', t) | ('X', t)] in units.
    sends: times at which the CLIENT writes a command - the property counts the device's messages only.
    crumbs: times (after the last arrival) at which the device sends one more byte of a frame that is never completed - bytes
    that do not complete a message are not messages.
    flow: (time, 'pause' | 'resume') - the transport reports back-pressure; the keep-alive does not depend on it.
    pending_call: a request/response call (never answered, very long time-out) is in flight during the whole schedule: the keep-alive
    does not depend on what the application is waiting for.
    lead: if > 0, ANOTHER session with the same K was established `lead` units earlier in the same process and stays alive (its
    device chatters); sessions have nothing to do with each other, the measured one behaves as if it were alone."""
    from aioesphomeapi import api_pb2 as pb
    from aioesphomeapi.core import PingFailedAPIError
    K = 2 * h * UNIT
    msgs = [pb.SensorStateResponse(key=1, state=1.0), pb.PingResponse(), pb.PingRequest(), pb.GetTimeRequest(),
            pb.SwitchStateResponse(key=2, state=True), pb.SubscribeLogsResponse(message=b"x")]

    async def go(loop):
        net = simnet.Net(loop)
        stops = []
        with net.patched():
            other = None
            if lead:
                other, otr = await simnet.connected_client(loop, net, keepalive=K, on_stop=None)

                def chatter():
                    if not otr.closing:
                        otr.feed(simnet.plain_msg(pb.SensorStateResponse(key=9, state=0.5)))
                        loop.call_later(K * 0.37, chatter)
                loop.call_later(K * 0.37, chatter)
                await simnet.advance(loop, to=loop.time() + lead * UNIT)
            cli, tr = await simnet.connected_client(loop, net, keepalive=K, on_stop=None)
            conn = priv(cli, "_connection")
            t0 = loop.time()
            orig = conn.on_stop

            def on_stop(expected):
                stops.append((loop.time() - t0, expected, type(priv(conn, "_fatal_exception")).__name__))
                if orig is not None:
                    orig(expected)
            conn.on_stop = on_stop
            call = None
            if pending_call:
                call = asyncio.ensure_future(conn.send_messages_await_response_complex((pb.ListEntitiesRequest(),), None, None, (pb.ListEntitiesDoneResponse,), 1e7))
                await simnet.drain(loop)
            n0 = len(tr.writes)
            schedule = sorted([(a, 0, k) for a, k in zip(arrivals, kinds)] + [(t, 1, 0) for t in sends] + [(t, 2, i) for i, t in enumerate(crumbs)]
                              + [(t, 3, 0 if w == "pause" else 1) for t, w in flow])
            for a, what, k in schedule:
                await simnet.advance(loop, to=t0 + a * UNIT)
                if stops:
                    break
                if what == 0:
                    tr.feed(simnet.plain_msg(msgs[k % len(msgs)]))
                elif what == 3:
                    (tr.protocol.pause_writing if k == 0 else tr.protocol.resume_writing)()
                elif what == 2:
                    tr.feed(b"\x00" if k == 0 else b"\x80")      # preamble, then length-varint continuation bytes for ever
                else:
                    cli.switch_command(5, True)
                await simnet.drain(loop)
            await simnet.advance(loop, to=t0 + horizon * UNIT)
            ev = []
            for t, data in tr.writes[n0:]:
                for ty, _ in simnet.decode_plain_stream(data):
                    if ty == 7:
                        ev.append(("P", round((t - t0) / UNIT)))
            for t, expected, fatal in stops:
                ev.append(("X" if (not expected and fatal == "PingFailedAPIError") else f"STOP({expected},{fatal})", round(t / UNIT)))
            if not stops:
                priv(cli, "_connection").force_disconnect() if priv(cli, "_connection") else None
                await simnet.drain(loop)
            if call is not None:
                if not call.done():
                    call.cancel()
                await simnet.drain(loop)
                try:
                    call.exception()
                except BaseException:  # noqa: BLE001
                    pass
            if other is not None and priv(other, "_connection"):
                priv(other, "_connection").force_disconnect()
                await simnet.drain(loop)
            return sorted(ev, key=lambda e: (e[1], e[0] == "X"))
    return simnet.run(go)


def gen_case(rng):
    h = rng.choice([128, 512, 512, 2560, 3584, 7680, 10240, 1280, 15360, 30720, 10496])      # K = 0.25, 1, 1, 5, 7, 15, 20, 2.5, 30, 60, 20.5 s
    periods = rng.choice([3, 6, 8, 12, 20, 40])
    K = 2 * h
    mode = rng.choice(["grid", "edges", "burst", "silent", "single", "chatty", "pongwin"])
    arr = set()
    if mode == "grid":
        for _ in range(rng.randrange(1, 12)):
            arr.add(rng.randrange(1, periods * 16) * (K // 16) + rng.choice([0, 0, 1, -1]))
    elif mode == "edges":
        for _ in range(rng.randrange(1, 8)):
            base = rng.randrange(1, periods) * K + rng.choice([0, 9 * h])
            arr.add(base + rng.choice([-1, 1, -2, 2, 3]))
    elif mode == "burst":
        s = rng.randrange(1, periods * K)
        for i in range(rng.randrange(2, 10)):
            arr.add(s + i * rng.choice([1, 3, K // 4]))
    elif mode == "single":
        arr.add(rng.randrange(1, periods * K))
    elif mode == "chatty":
        t = 0
        while t < periods * K:
            t += rng.choice([K // 2, K - 1, K + 1, 2 * K - 1, 4 * K, 9 * h - 1, 9 * h + 1, 5 * K + 3])
            arr.add(t)
    elif mode == "pongwin":
        p = rng.randrange(1, 4) * K
        arr.add(p - K - 1)
        arr.add(p + rng.choice([1, 9 * h - 1, 9 * h + 1, 4 * K + 1, 8 * h + 3]))
    arr = sorted(a for a in arr if a > 0 and a % h != 0)
    horizon = max(periods * K, max(arr, default=0)) + rng.choice([13 * h + 5, 3 * h + 1, 10 * h + 7])
    return h, arr, horizon, mode


def run(rep, tier, seed):
    rng = random.Random(seed)
    rep.coverage["rule"] = (
        "keepalive K in {0.25,1,2.5,5,7,15,20,20.5,30,60} s x arrival schedules (grid of K/16 with +-2^-10 s jitter, edges around every tick and pong deadline, "
        "bursts, single message, chatty peers with gaps just under/over K, 2K, 4.5K, messages inside the pong window, total silence) of valid messages of 6 types, every third schedule with the client itself writing commands throughout, every fourth with single bytes of a never completed frame trickling in after the last message, every fifth with the transport reporting back-pressure (pause_writing, sometimes resume_writing), every seventh beside another live session with the same K established a fraction of K earlier; "
        "arrivals exactly at a timer instant are excluded (order of equal timers is loop-internal); non-trivial = at least one ping is written; distinct by (K, schedule)")
    proofs_ok = rep.proofs(VFILE)
    ok, log = common.build_driver()
    if not ok:
        raise RuntimeError("driver build failed: " + log[-2000:])
    n = 400 if tier == "quick" else 6000
    cases = [gen_case(rng) for _ in range(n)]
    if tier == "thorough":
        # all subsets of size <= 3 of a 24-slot grid over 3 periods, K = 1 s
        import itertools
        h, K = 512, 1024
        slots = [i * (K // 8) + 1 for i in range(1, 25)]
        for r in (1, 2, 3):
            for sub in itertools.combinations(slots, r):
                cases.append((h, list(sub), 3 * K + 9 * h + 5 * K, "subsets"))
    lines = [f"ka {h} {hz} " + " ".join(map(str, arr)) for h, arr, hz, _ in cases]
    mout = common.run_driver(lines)
    disagreements = []
    for ci, ((h, arr, hz, mode), mo) in enumerate(zip(cases, mout)):
        kinds = [rng.randrange(6) for _ in arr]
        # every third schedule: the client itself keeps writing (commands); that is not traffic from the device
        sends = []
        if ci % 3 == 0:
            step = rng.choice([h // 2 + 1, h + 3, 2 * h - 5, 3 * h + 1])
            sends = [t for t in range(rng.randrange(1, 2 * h), hz, step) if t % h != 0 and t not in arr][:200]
            rep.bump("client-sends")
        crumbs = []
        if ci % 4 == 1:
            start = (max(arr) if arr else 0) + rng.randrange(1, 3 * h)
            crumbs = [t for t in range(start, hz, rng.choice([h + 1, 2 * h - 3, 3 * h + 7])) if t % h != 0 and t not in sends][:150]
            rep.bump("crumbs")
        flow = []
        if ci % 5 == 2:
            # the peer stops reading: the transport's buffer fills and it tells the protocol so (for good, or for a while)
            t1 = rng.randrange(1, max(2, 2 * h))
            flow = [(t1, "pause")] + ([(t1 + rng.randrange(1, 6 * h), "resume")] if rng.random() < 0.4 else [])
            flow = [(t, w) for t, w in flow if t % h != 0 and t not in arr and t not in sends and t not in crumbs]
            rep.bump("back-pressure")
        lead = 0
        if ci % 7 == 3:
            # another session with the same K, established a fraction of K earlier, is alive in the same process
            lead = rng.choice([h // 2 + 1, h + 7, 2 * h - 5, 3 * h + 11])
            rep.bump("neighbour-session")
        pending_call = ci % 6 == 4
        if pending_call:
            rep.bump("request-in-flight")
        impl = run_impl(h, arr, hz, kinds, sends, crumbs, flow, lead, pending_call)
        exp = oracle(h, arr, hz)
        model = [(x[0], int(x[1:])) for x in mo.split(",") if x]
        rep.bump("mode:" + mode)
        rep.bump("K_units:%d" % (2 * h))
        rep.case((h, tuple(arr)), nontrivial=any(e[0] == "P" for e in exp),
                 sample={"K_s": 2 * h * UNIT, "arrivals_s": [a * UNIT for a in arr][:12], "impl": [(k, t * UNIT) for k, t in impl][:12]})
        rep.coverage["traces_validated_against_impl"] += 1
        if impl != exp:
            what = "keepalive"
            ip, ep = [t for k, t in impl if k == "P"], [t for k, t in exp if k == "P"]
            ix, ex_ = [e for e in impl if e[0] != "P"], [e for e in exp if e[0] != "P"]
            if ip != ep and ix == ex_:
                sig, what = "C10/pings", f"pings written at {[t * UNIT for t in ip][:10]} s, expected exactly at the idle ticks {[t * UNIT for t in ep][:10]} s"
            elif ix and not ex_:
                sig, what = "C10/live-peer-dropped", f"connection declared dead at {ix[0][1] * UNIT} s ({ix[0][0]}) although the peer kept talking"
            elif ex_ and not ix:
                sig, what = "C10/silent-peer-kept", f"silent peer not dropped: expected death at {ex_[0][1] * UNIT} s"
            else:
                sig, what = "C10/death-time", f"death {ix} vs expected {ex_} (units of 1/1024 s)"
            rep.violation(sig, f"K={2 * h * UNIT} s{', a request in flight throughout' if pending_call else ''}{', another session with the same K established ' + str(lead * UNIT) + ' s earlier' if lead else ''}, arrivals {[a * UNIT for a in arr][:10]}: {what}",
                          {"kind": "impl-case", "h": h, "arrivals": arr, "horizon": hz, "kinds": kinds, "client_sends": sends, "crumbs": crumbs, "flow": flow, "lead": lead, "pending_call": pending_call, "expected": exp, "observed": impl})
        if model != impl:
            disagreements.append({"h": h, "arrivals": arr, "horizon": hz, "model": model[:20], "impl": impl[:20]})
    rep.coverage["disagreements"] = len(disagreements)
    if disagreements and not rep.violations:
        rep.violations.append(("C10/correspondence", "Model/Keepalive.v and the real keepalive disagree; no violation of C10 found",
                               {"kind": "no-failing-input-found", "obligation": "correspondence Keepalive.ka_sim ~ APIConnection keepalive", "first_disagreements": disagreements[:3]}))
    if not proofs_ok and not rep.violations:
        rep.proof_broken(rep.broken[0], rep.broken[1])


def replay(path):
    common.setup_impl_path()
    d = json.loads(open(path).read())["replay"]
    if d.get("kind") != "impl-case":
        print("nothing to replay:", d.get("kind"))
        return 0
    impl = run_impl(d["h"], d["arrivals"], d["horizon"], d["kinds"], d.get("client_sends", ()), d.get("crumbs", ()), [tuple(x) for x in d.get("flow", ())], d.get("lead", 0), d.get("pending_call", False))
    exp = oracle(d["h"], d["arrivals"], d["horizon"])
    print("observed:", impl)
    print("expected:", exp)
    return 1 if impl != exp else 0
