"""C08 — see checks/connfamily.py (shared engine of the connection family) and coq/Properties/C08.v."""
import asyncio

from checks import connfamily
from vlib import common

VFILE = "Properties/C08.v"
RULE = ("stories = hand-picked same-turn/close-window scenarios + (thorough) every position x every single extra event of base stories "
        "+ random connect/traffic/close stories with hop-delayed injections (vlib/connstories.py); each story runs on the real APIConnection "
        "under the virtual-time loop with every event-loop callback labelled, the model must accept the label sequence with equal "
        "projections/observations, and the C08 predicate is evaluated on the implementation's trace; non-trivial = the connection closes "
        "within a story of at least 8 labelled callbacks; distinct by label sequence")


def socket_fault_probe(fault, then):
    """The TCP connect succeeds, the first use of the socket fails (peer gone): start_connection() fails - and the socket the
    connect returned must be closed by the time the connection is closed. Returns (outcome, state, sockets closed?)."""
    import asyncio
    from vlib import conntrace, simnet

    async def go(loop):
        from aioesphomeapi.connection import APIConnection, ConnectionParams, ConnectionState as S
        from aioesphomeapi.zeroconf import ZeroconfManager
        net = simnet.Net(loop)
        net.socket_fault = fault
        params = ConnectionParams(addresses=["10.0.0.1"], port=6053, password=None, client_info="v", keepalive=20.0,
                                  zeroconf_manager=ZeroconfManager(), noise_psk=None, expected_name=None)
        conn = APIConnection(params, lambda e: None, False, None)
        with net.patched():
            try:
                await conn.start_connection()
                out = "ok"
            except Exception as e:  # noqa: BLE001
                out = conntrace.exc_name(e)
            if then == "force":
                conn.force_disconnect()
            await simnet.drain(loop)
        return out, conn.connection_state is S.CLOSED, [s.closed for s in net.sockets]
    return simnet.run(go)


def handshake_loss_probe(noise, stage, exc_kind):
    """The transport is lost while the connect phase waits for the device (Noise hello / handshake, or the hello response),
    with the OS error the kernel reports for it - a reset, a timed-out connection (ETIMEDOUT is TimeoutError), a broken pipe, or none.
    When everything has settled the connection is closed and no timer of it is still armed. Returns (outcome, closed, armed timers)."""
    import asyncio
    from vlib import conntrace, noisesim, simnet

    async def go(loop):
        from aioesphomeapi import api_pb2 as pb
        from aioesphomeapi.connection import APIConnection, ConnectionParams, ConnectionState as S
        from aioesphomeapi.zeroconf import ZeroconfManager
        net = simnet.Net(loop)
        psk = bytes(range(1, 33))
        params = ConnectionParams(addresses=["10.0.0.1"], port=6053, password=None, client_info="v", keepalive=20.0,
                                  zeroconf_manager=ZeroconfManager(), noise_psk=noisesim.b64(psk) if noise else None, expected_name=None)
        conn = APIConnection(params, lambda e: None, False, None)
        exc = {"reset": ConnectionResetError(104, "reset"), "timedout": TimeoutError(110, "Connection timed out"),
               "pipe": BrokenPipeError(32, "broken pipe"), "none": None}[exc_kind]
        with net.patched():
            await conn.start_connection()
            task = asyncio.ensure_future(conn.finish_connection(login=False))
            await simnet.drain(loop)
            tr = net.transports[-1]
            if noise and stage == "handshake":
                tr.feed(noisesim.Responder(psk, b"dev").hello_frame())
                await simnet.drain(loop)
            tr.lose(exc)
            await simnet.drain(loop)
            if task.done():
                out = "C" if task.cancelled() else "ok" if task.exception() is None else conntrace.exc_name(task.exception())
            else:
                out = "pending"
                task.cancel()
            await simnet.drain(loop)
            timers = [name for _, name in loop.armed_timers()]
            closed = conn.connection_state is S.CLOSED
            conn.force_disconnect()
            await simnet.drain(loop)
        return out, closed, timers
    return simnet.run(go)


def resolve_close_probe(n_addresses, how):
    """The connection is closed (force_disconnect, or its caller cancels the connect) while the real resolver is busy with
    lookups that never answer, for one or several configured addresses: afterwards no task is still blocked on it."""
    import asyncio
    from unittest.mock import patch
    from vlib import conntrace, simnet

    async def go(loop):
        from aioesphomeapi import host_resolver as hr
        from aioesphomeapi.connection import APIConnection, ConnectionParams
        from aioesphomeapi.zeroconf import ZeroconfManager
        from checks.c20 import FakeAsyncZeroconf

        class HangInfo:
            def __init__(self, *a, **k):
                pass

            async def async_request(self, zc, timeout):
                await loop.create_future()

            def ip_addresses_by_version(self, version):
                return []

        async def hang_getaddrinfo(*a, **k):
            await loop.create_future()
        net = simnet.Net(loop)
        hosts = ["kitchen.local", "printer.example.com", "attic"][:n_addresses]
        params = ConnectionParams(addresses=hosts, port=6053, password=None, client_info="v", keepalive=20.0,
                                  zeroconf_manager=ZeroconfManager(), noise_psk=None, expected_name=None)
        conn = APIConnection(params, lambda e: None, False, None)
        before = set(asyncio.all_tasks(loop))
        with net.patched(resolver=False), patch.object(hr, "AsyncServiceInfo", HangInfo), \
                patch("aioesphomeapi.zeroconf.AsyncZeroconf", FakeAsyncZeroconf), patch.object(loop, "getaddrinfo", hang_getaddrinfo):
            task = asyncio.ensure_future(conn.start_connection())
            await simnet.drain(loop)
            await simnet.advance(loop, by=1.0)
            if how == "force":
                conn.force_disconnect()
            else:
                task.cancel()
            await simnet.drain(loop)
            await simnet.advance(loop, by=1.0)
            left = [t for t in asyncio.all_tasks(loop) if t not in before and t is not asyncio.current_task() and not t.done()]
            names = sorted(getattr(t.get_coro(), "__qualname__", repr(t)) for t in left)
            out = "pending" if not task.done() else "C" if task.cancelled() else "ok" if task.exception() is None else conntrace.exc_name(task.exception())
            for t in left:
                t.cancel()
            conn.force_disconnect()
            await simnet.drain(loop)
        return out, names
    return simnet.run(go)


def closed_delivery_sweep(debug, how):
    """An established plaintext session with a subscriber on EVERY message type the device may send; then the closing event with
    one frame of every type right behind it in the same read (and once more in a later read).  Nothing that follows the closing
    frame may reach a subscriber.  Returns (types delivered after the close, state closed)."""
    from vlib import simnet

    async def go(loop):
        from aioesphomeapi.connection import APIConnection, ConnectionParams, ConnectionState as S
        from aioesphomeapi.core import MESSAGE_TYPE_TO_PROTO
        from aioesphomeapi.zeroconf import ZeroconfManager
        net = simnet.Net(loop)
        params = ConnectionParams(addresses=["10.0.0.1"], port=6053, password=None, client_info="v", keepalive=20.0,
                                  zeroconf_manager=ZeroconfManager(), noise_psk=None, expected_name=None)
        stops = []
        conn = APIConnection(params, lambda e: stops.append(e), debug, None)
        seen = []
        with net.patched():
            await conn.start_connection()
            task = asyncio.ensure_future(conn.finish_connection(login=False))
            await simnet.drain(loop)
            tr = net.transports[-1]
            tr.feed(simnet.plain_frame(2, b"\x08\x01\x10\x0a"))           # HelloResponse 1.10
            await simnet.drain(loop)
            await task
            for ty, cls in MESSAGE_TYPE_TO_PROTO.items():
                if ty not in (5, 7, 36):      # the connection answers these three itself
                    conn.add_message_callback(lambda m, ty=ty: seen.append(ty), (cls,))
            every = b"".join(simnet.plain_frame(ty) for ty in sorted(MESSAGE_TYPE_TO_PROTO) if ty not in (2, 5, 6, 7, 8, 36, 37))
            if how == "disconnect-request":
                tr.feed(simnet.plain_frame(26) + simnet.plain_frame(5) + every)
            else:
                tr.feed(simnet.plain_frame(26) + b"\x42" + every)             # a byte that cannot start a frame: protocol error
            await simnet.drain(loop)
            before = list(seen)
            try:
                tr.feed(every)
            except Exception:  # noqa: BLE001
                pass
            await simnet.drain(loop)
            closed = conn.connection_state is S.CLOSED
            conn.force_disconnect()
            await simnet.drain(loop)
        return [t for t in seen if t != 26] + ([] if seen[:1] == [26] else ["first frame not delivered"]), closed, len(stops)
    return simnet.run(go)


def overlapping_disconnect_probe(cancel_which, ack, gap):
    """Two disconnect() calls on one established connection overlap (the second starts in the same turn, or `gap` loop turns later);
    one of them (or none) is cancelled by its caller while both wait for the device; then the device acknowledges (or stays silent
    until the 10 s limit). A disconnect() that ran to its end - returned or raised - has closed the connection: transport and socket
    closed, no timer armed, nothing more written in the next minute, a later state message reaches nobody.
    Returns (outcomes of the two calls, list of what is still alive)."""
    import asyncio
    from vlib import conntrace, simnet

    async def go(loop):
        from aioesphomeapi import api_pb2 as pb
        from aioesphomeapi.connection import APIConnection, ConnectionParams, ConnectionState as S
        from aioesphomeapi.zeroconf import ZeroconfManager
        net = simnet.Net(loop)
        params = ConnectionParams(addresses=["10.0.0.1"], port=6053, password=None, client_info="v", keepalive=20.0,
                                  zeroconf_manager=ZeroconfManager(), noise_psk=None, expected_name=None)
        stops, seen = [], []
        conn = APIConnection(params, lambda e: stops.append(e), False, None)
        with net.patched():
            await conn.start_connection()
            task = asyncio.ensure_future(conn.finish_connection(login=False))
            await simnet.drain(loop)
            tr = net.transports[-1]
            tr.feed(simnet.plain_frame(2, b"\x08\x01\x10\x0a"))
            await simnet.drain(loop)
            await task
            conn.add_message_callback(lambda m: seen.append(m.key), (pb.SensorStateResponse,))
            d1 = asyncio.ensure_future(conn.disconnect())
            for _ in range(gap):
                await asyncio.sleep(0)
            d2 = asyncio.ensure_future(conn.disconnect())
            await simnet.drain(loop)
            if cancel_which in (1, 2):
                (d1 if cancel_which == 1 else d2).cancel()
                await simnet.drain(loop)
            if ack:
                tr.feed(simnet.plain_msg(pb.DisconnectResponse()))
                await simnet.drain(loop)
            else:
                await simnet.advance(loop, by=11.0)
            outs = []
            for d in (d1, d2):
                outs.append("pending" if not d.done() else "C" if d.cancelled() else "ok" if d.exception() is None else conntrace.exc_name(d.exception()))
            alive = []
            if any(o not in ("C", "pending") for o in outs):
                if conn.connection_state is not S.CLOSED:
                    alive.append("state " + conn.connection_state.name)
                if not tr.closing:
                    alive.append("transport open")
                if net.sockets and not all(getattr(sk, "closed", True) for sk in net.sockets):
                    alive.append("socket open")
                timers = [name for _, name in loop.armed_timers()]
                if timers:
                    alive.append("timers " + ",".join(timers))
                n_w = len(tr.writes)
                if not tr.closing:
                    tr.feed(simnet.plain_msg(pb.SensorStateResponse(key=5, state=1.0)))
                await simnet.advance(loop, by=61.0)
                if len(tr.writes) != n_w:
                    alive.append(f"{len(tr.writes) - n_w} more write(s)")
                if seen:
                    alive.append("message delivered to a subscriber")
                if len(stops) != 1:
                    alive.append(f"stop callback invoked {len(stops)} times")
            for d in (d1, d2):
                if not d.done():
                    d.cancel()
            conn.force_disconnect()
            await simnet.drain(loop)
        return outs, alive
    return simnet.run(go)


def client_reconnect_during_disconnect_probe(ack_delay):
    """APIClient level: a graceful client.disconnect() is waiting for the device's answer when the application (a reconnect
    manager woken by an mDNS record, a reload) calls start_connection()/finish_connection() on the same client - accepted or
    refused, that is not judged here; then the device answers; then the application disconnects the client once more. When
    that last disconnect() has returned, everything this client ever opened is released: all transports and sockets closed,
    no timer armed, nothing more written, nothing delivered. Returns the list of what is still alive."""
    import asyncio
    from vlib import simnet

    async def go(loop):
        from aioesphomeapi import api_pb2 as pb
        net = simnet.Net(loop)
        seen = []
        alive = []
        with net.patched():
            cli, tr = await simnet.connected_client(loop, net)
            cli.subscribe_states(lambda st: seen.append(st.key))
            await simnet.drain(loop)
            d1 = asyncio.ensure_future(cli.disconnect())
            await simnet.drain(loop)
            second = None
            try:
                await cli.start_connection()
                f2 = asyncio.ensure_future(cli.finish_connection(login=False))
                await simnet.drain(loop)
                second = net.transports[-1]
                second.feed(simnet.plain_msg(pb.HelloResponse(api_version_major=1, api_version_minor=10, name="dev")))
                await simnet.drain(loop)
                await f2
                cli.subscribe_states(lambda st: seen.append(st.key))
            except Exception:  # noqa: BLE001   (refused: "Already connected")
                second = None
            if ack_delay:
                await simnet.advance(loop, by=ack_delay)
            if not tr.closing:
                tr.feed(simnet.plain_msg(pb.DisconnectResponse()))
            await simnet.drain(loop)
            try:
                await d1
            except Exception:  # noqa: BLE001
                pass
            # the application disconnects the client (again)
            d2 = asyncio.ensure_future(cli.disconnect())
            await simnet.drain(loop)
            for t in net.transports:
                if not t.closing:
                    t.feed(simnet.plain_msg(pb.DisconnectResponse()))
            await simnet.drain(loop)
            await simnet.advance(loop, by=11.0)
            if not d2.done():
                alive.append("the last disconnect() is still pending")
                d2.cancel()
            del seen[:]
            n_w = [len(t.writes) for t in net.transports]
            for k, t in enumerate(net.transports):
                if not t.closing:
                    alive.append(f"transport {k} open")
                    t.feed(simnet.plain_msg(pb.SensorStateResponse(key=5, state=1.0)))
            for k, sk in enumerate(net.sockets):
                if not sk.closed:
                    alive.append(f"socket {k} open")
            timers = [name for _, name in loop.armed_timers()]
            if timers:
                alive.append("timers " + ",".join(timers))
            await simnet.advance(loop, by=61.0)
            more = sum(len(t.writes) for t in net.transports) - sum(n_w)
            if more:
                alive.append(f"{more} more write(s)")
            if seen:
                alive.append("a state message was delivered to a subscriber")
            for t in net.transports:
                if not t.closing:
                    t.lose(None)
            await simnet.drain(loop)
        return alive
    return simnet.run(go)


def pause_inside_write_probe(what):
    """The device has stopped reading; the write of a request (a request/response call, or the DisconnectRequest of disconnect())
    takes the transport's buffer over its high-water mark, so asyncio calls pause_writing() from inside transport.write().
    Whatever the library does about it: if the connection is closed afterwards, no task stays blocked on it and no timer stays
    armed; if it is still open, the call completes when the device answers. Returns (closed after the write, list of what is wrong)."""
    import asyncio
    from vlib import simnet

    async def go(loop):
        from aioesphomeapi import api_pb2 as pb
        from aioesphomeapi.connection import APIConnection, ConnectionParams, ConnectionState as S
        from aioesphomeapi.zeroconf import ZeroconfManager
        net = simnet.Net(loop)
        params = ConnectionParams(addresses=["10.0.0.1"], port=6053, password=None, client_info="v", keepalive=20.0,
                                  zeroconf_manager=ZeroconfManager(), noise_psk=None, expected_name=None)
        conn = APIConnection(params, lambda e: None, False, None)
        wrong = []
        with net.patched():
            await conn.start_connection()
            task = asyncio.ensure_future(conn.finish_connection(login=False))
            await simnet.drain(loop)
            tr = net.transports[-1]
            tr.feed(simnet.plain_frame(2, b"\x08\x01\x10\x0a"))
            await simnet.drain(loop)
            await task
            tr.pause_on_write = True
            if what == "call":
                op = asyncio.ensure_future(conn.send_messages_await_response_complex((pb.DeviceInfoRequest(),), None, None, (pb.DeviceInfoResponse,), 30.0))
                answer = pb.DeviceInfoResponse(name="dev")
            else:
                op = asyncio.ensure_future(conn.disconnect())
                answer = pb.DisconnectResponse()
            await simnet.drain(loop)
            closed = conn.connection_state is S.CLOSED
            if closed:
                if not op.done():
                    wrong.append("the operation is still blocked on the closed connection")
                timers = [name for _, name in loop.armed_timers()]
                if timers:
                    wrong.append("timers still armed: " + ",".join(timers))
                if not tr.closing:
                    wrong.append("transport open")
            else:
                tr.feed(simnet.plain_msg(answer))
                await simnet.drain(loop)
                if not op.done():
                    wrong.append("the device answered, the operation is still pending")
            if not op.done():
                op.cancel()
            conn.force_disconnect()
            await simnet.drain(loop)
            try:
                op.exception()
            except BaseException:  # noqa: BLE001
                pass
        return closed, wrong
    return simnet.run(go)


def run(rep, tier, seed):
    connfamily.run(rep, tier, seed, "C08", VFILE, RULE)
    for debug in (False, True):
        for how in ("disconnect-request", "bad-preamble"):
            with common.debug_logging(debug):
                late, closed, nstops = closed_delivery_sweep(debug, how)
            replay = {"kind": "closed-delivery-sweep", "debug": debug, "how": how}
            rep.case(("closed-delivery-sweep", debug, how), True, sample={"probe": replay, "delivered_after_close": late[:6], "closed": closed})
            rep.bump("probe:closed-delivery-sweep")
            if not closed:
                rep.violation("C08/not-closed", f"established session, {how} in a read: the connection is not CLOSED afterwards", replay)
            elif late:
                rep.violation("C08/delivery-after-close", f"established session with a subscriber on every message type, {how} followed in the same read by one frame of "
                              f"every type (debug logging {'on' if debug else 'off'}): message type(s) {late[:8]} were still delivered after the closing event", replay)
    for cancel_which in (0, 1, 2):
        for ack in (True, False):
            for gap in (0, 1, 3):
                outs, alive = overlapping_disconnect_probe(cancel_which, ack, gap)
                replay = {"kind": "overlapping-disconnect", "cancel": cancel_which, "ack": ack, "gap": gap}
                rep.case(("overlapping-disconnect", cancel_which, ack, gap), True, sample={"probe": replay, "outcomes": outs, "alive": alive})
                rep.bump("probe:overlapping-disconnect")
                if alive or all(o == "pending" for o in outs):
                    rep.violation("C08/not-released", f"two overlapping disconnect() calls (second {gap} turn(s) later), {['neither', 'the first', 'the second'][cancel_which]} cancelled by its caller, "
                                  f"device {'acknowledges' if ack else 'stays silent'}: the calls ended {outs}, yet still alive: {alive or 'both calls pending'}", replay)
    for what in ("call", "disconnect"):
        closed, wrong = pause_inside_write_probe(what)
        replay = {"kind": "pause-inside-write", "what": what}
        rep.case(("pause-inside-write", what), True, sample={"probe": replay, "closed": closed, "wrong": wrong})
        rep.bump("probe:pause-inside-write")
        if wrong:
            rep.violation("C08/task-blocked" if closed else "C08/not-released", f"pause_writing() called from inside transport.write() while the request of a "
                          f"{'request/response call' if what == 'call' else 'disconnect()'} is written; connection {'closed' if closed else 'open'} afterwards: {'; '.join(wrong)}", replay)
    for ack_delay in (0, 2.0):
        alive = client_reconnect_during_disconnect_probe(ack_delay)
        replay = {"kind": "client-reconnect-during-disconnect", "ack_delay": ack_delay}
        rep.case(("client-reconnect-during-disconnect", ack_delay), True, sample={"probe": replay, "alive": alive})
        rep.bump("probe:client-reconnect-during-disconnect")
        if alive:
            rep.violation("C08/not-released", f"client.disconnect() waiting for the device, start/finish_connection() called meanwhile, device answers after {ack_delay} s, then client.disconnect() "
                          f"once more: after it returned, still alive: {alive}", replay)
    for noise, stage in ((True, "hello"), (True, "handshake"), (False, "hello")):
        for exc_kind in ("reset", "timedout", "pipe", "none"):
            out, closed, timers = handshake_loss_probe(noise, stage, exc_kind)
            replay = {"kind": "handshake-loss", "noise": noise, "stage": stage, "exc": exc_kind}
            rep.case(("handshake-loss", noise, stage, exc_kind), True, sample={"probe": replay, "outcome": out, "timers": timers})
            rep.bump("probe:handshake-loss")
            where = f"{'noise' if noise else 'plaintext'} connect phase waiting for the device ({stage}), transport lost with {exc_kind}"
            if out in ("ok", "pending") or not closed:
                rep.violation("C08/not-closed", f"{where}: finish_connection() {out}, connection closed: {closed}", replay)
            elif timers:
                rep.violation("C08/timer-left", f"{where}: the connection is closed but timer(s) are still armed: {timers}", replay)
    for n in (1, 2, 3):
        for how in ("force", "cancel"):
            out, left = resolve_close_probe(n, how)
            replay = {"kind": "resolve-close", "addresses": n, "how": how}
            rep.case(("resolve-close", n, how), True, sample={"probe": replay, "outcome": out, "tasks_left": left})
            rep.bump("probe:resolve-close")
            if left or out in ("pending", "ok"):
                rep.violation("C08/task-blocked", f"{n} configured address(es), lookups that never answer, then {how}: start_connection() {out}; task(s) still blocked on the "
                              f"closed connection: {left}", replay)
    for fault in ("nodelay", "peername"):
        for then in ("nothing", "force"):
            out, closed, socks = socket_fault_probe(fault, then)
            rep.case(("socket-fault", fault, then), True, sample={"socket_fault": fault, "then": then, "outcome": out, "sockets_closed": socks})
            rep.bump("probe:socket-fault")
            replay = {"kind": "socket-fault", "fault": fault, "then": then}
            if not out.startswith("L."):
                rep.violation("C08/socket-fault-outcome", f"first use of the connected socket fails ({fault}): start_connection() ended with {out}", replay)
            elif not closed:
                rep.violation("C08/not-closed", f"first use of the connected socket fails ({fault}): start_connection() failed but the connection is not CLOSED", replay)
            elif not socks or not all(socks):
                rep.violation("C08/socket-open", f"first use of the connected socket fails ({fault}), then {then}: the connection is CLOSED but the socket returned by the "
                              f"TCP connect was never closed ({socks})", replay)


def replay(path):
    import json
    d = json.loads(open(path).read())["replay"]
    if d.get("kind") == "handshake-loss":
        from vlib import common
        common.setup_impl_path()
        print(handshake_loss_probe(d["noise"], d["stage"], d["exc"]))
        return 0
    if d.get("kind") == "pause-inside-write":
        from vlib import common
        common.setup_impl_path()
        r = pause_inside_write_probe(d["what"])
        print(r)
        return 1 if r[1] else 0
    if d.get("kind") == "client-reconnect-during-disconnect":
        from vlib import common
        common.setup_impl_path()
        alive = client_reconnect_during_disconnect_probe(d["ack_delay"])
        print(alive)
        return 1 if alive else 0
    if d.get("kind") == "overlapping-disconnect":
        from vlib import common
        common.setup_impl_path()
        outs, alive = overlapping_disconnect_probe(d["cancel"], d["ack"], d["gap"])
        print(outs, alive)
        return 1 if alive else 0
    if d.get("kind") == "resolve-close":
        from vlib import common
        common.setup_impl_path()
        print(resolve_close_probe(d["addresses"], d["how"]))
        return 0
    if d.get("kind") == "socket-fault":
        from vlib import common
        common.setup_impl_path()
        print(socket_fault_probe(d["fault"], d["then"]))
        return 0
    return connfamily.replay(path, "C08")
