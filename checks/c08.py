"""C08 — see checks/connfamily.py (shared engine of the connection family) and coq/Properties/C08.v."""
from checks import connfamily

VFILE = "Properties/C08.v"
RULE = ("stories = hand-picked same-turn/close-window scenarios + (thorough) every position x every single extra event of base stories "
        "+ random connect/traffic/close stories with hop-delayed injections (vlib/connstories.py); each story runs on the real APIConnection "
        "under the virtual-time loop with every event-loop callback labelled, the model must accept the label sequence with equal "
        "projections/observations, and the C08 predicate is evaluated on the implementation's trace; non-trivial = the connection closes "
        "within a story of at least 8 labelled callbacks; distinct by label sequence")


def socket_fault_probe(fault, then):
    """The TCP connect succeeds, the first use of the socket fails (peer gone): start_connection() fails - and the socket the
    connect returned must be closed by the time the connection is closed. Returns (outcome, state, sockets closed?)."""
    import asyncio
    from vlib import conntrace, simnet

    async def go(loop):
        from aioesphomeapi.connection import APIConnection, ConnectionParams, ConnectionState as S
        from aioesphomeapi.zeroconf import ZeroconfManager
        net = simnet.Net(loop)
        net.socket_fault = fault
        params = ConnectionParams(addresses=["10.0.0.1"], port=6053, password=None, client_info="v", keepalive=20.0,
                                  zeroconf_manager=ZeroconfManager(), noise_psk=None, expected_name=None)
        conn = APIConnection(params, lambda e: None, False, None)
        with net.patched():
            try:
                await conn.start_connection()
                out = "ok"
            except Exception as e:  # noqa: BLE001
                out = conntrace.exc_name(e)
            if then == "force":
                conn.force_disconnect()
            await simnet.drain(loop)
        return out, conn.connection_state is S.CLOSED, [s.closed for s in net.sockets]
    return simnet.run(go)


def run(rep, tier, seed):
    connfamily.run(rep, tier, seed, "C08", VFILE, RULE)
    for fault in ("nodelay", "peername"):
        for then in ("nothing", "force"):
            out, closed, socks = socket_fault_probe(fault, then)
            rep.case(("socket-fault", fault, then), True, sample={"socket_fault": fault, "then": then, "outcome": out, "sockets_closed": socks})
            rep.bump("probe:socket-fault")
            replay = {"kind": "socket-fault", "fault": fault, "then": then}
            if not out.startswith("L."):
                rep.violation("C08/socket-fault-outcome", f"first use of the connected socket fails ({fault}): start_connection() ended with {out}", replay)
            elif not closed:
                rep.violation("C08/not-closed", f"first use of the connected socket fails ({fault}): start_connection() failed but the connection is not CLOSED", replay)
            elif not socks or not all(socks):
                rep.violation("C08/socket-open", f"first use of the connected socket fails ({fault}), then {then}: the connection is CLOSED but the socket returned by the "
                              f"TCP connect was never closed ({socks})", replay)


def replay(path):
    import json
    d = json.loads(open(path).read())["replay"]
    if d.get("kind") == "socket-fault":
        from vlib import common
        common.setup_impl_path()
        print(socket_fault_probe(d["fault"], d["then"]))
        return 0
    return connfamily.replay(path, "C08")
