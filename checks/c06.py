"""C06 — sessions only with a compatible, correctly named, authenticated device.

Proof: coq/Properties/C06.v (decision function characterised; finish succeeds only through an accepted decision).
Tie: (A) exhaustive sweep of hello/connect responses x configurations on the real APIConnection (plaintext) through the
trace-validation harness (model must agree), outcome compared with an oracle computed from the inputs alone;
(B) the same decision over real Noise sessions (independent responder), where the name is checked twice."""
import asyncio
import itertools
import json
import random

from checks import connfamily
from vlib import common, connstories, conntrace, simnet
from vlib.connstories import H, HELLO, CONNECT

VFILE = "Properties/C06.v"
MAJORS = [0, 1, 2, 3, 4, 2 ** 32 - 1]
ORDERS = ["H", "HC", "CH", "HHC", "C", "HCC"]


def mk_story(major, nk, expect, login, invpw, order, together, password, tail=None):
    hello = H(HELLO, major=major, nk=nk)
    cr = H(CONNECT, ip=invpw)
    frames = [hello if ch == "H" else cr for ch in order]
    sc = connfamily.connect_prefix(login)
    if tail:
        # the refusing device drops the connection at once: the close is handled before the connect task has resumed
        sc += [("hop", 0, ("data", frames)), ("hop", 0, (tail,) if tail == "eof" else ("lost", "R.Reset"))]
    elif together:
        sc.append(("data", frames))
    else:
        for f in frames:
            sc += [("data", [f]), ("drain",)]
    sc += [("drain",), ("adv_next",), ("drain",), ("adv_next",), ("drain",)]
    return {"scenario": sc, "expect": bool(expect), "scripts": {}, "keepalive": 20480, "login": bool(login), "password": password,
            "case": dict(major=major, name=nk, expect=expect, login=login, invalid_password=invpw, order=order, together=together, password=password,
                         **({"tail": tail} if tail else {}))}


NAMES = {"e": "", "x": "dev", "o": "other-device", "p": "dev2", "q": "de", "c": "DEV", "-": None,
         "l": "another-device-whose-name-is-longer-than-thirty-one-characters"}
OTHER_NAMES = "opqcl"


def oracle(case):
    """('ok',) | ('err', class) | ('any-error',) from the inputs alone, following the property text."""
    order = case["order"]
    login = case["login"]
    # responses the connect call collects: hello/connect responses up to the first of the last expected type
    last = "C" if login else "H"
    types = "HC" if login else "H"
    coll = []
    for ch in order:
        if ch in types:
            coll.append(ch)
            if ch == last:
                break
    else:
        return ("err", "L.Timeout")     # never completed: the 30 s connect timeout
    if coll[0] != "H":
        return ("any-error",)
    if case["major"] > 2:
        return ("err", "L.Conn")
    if case["name"] in OTHER_NAMES and case["expect"]:
        return ("err", "L.BadName")
    if login:
        if len(coll) < 2 or coll[1] != "C":
            return ("any-error",)
        if case["invalid_password"]:
            return ("err", "L.InvalidAuth")
    return ("ok",)


def run_plain(story):
    def go(loop):
        return conntrace.run_scenario(loop, story["scenario"], expected_name="dev" if story["expect"] else None,
                                      keepalive_units=story["keepalive"], scripts={}, password=story.get("password"))
    return simnet.run(go)


def outcome_of(tr):
    r = tr.task_outcomes.get("F")
    if r is None or r[0] == "pending":
        return ("pending", None, None)
    if r[0] == "cancelled":
        return ("err", "C", None)
    if r[0] == "ok":
        return ("ok", None, None)
    return ("err", r[1], getattr(r[2], "received_name", None))


def judge(rep, case, out, state, stops, where, replay):
    exp = oracle(case)
    got = out[0]
    if exp[0] == "ok":
        if got != "ok":
            rep.violation("C06/rejected-good-device", f"{where}: a compatible, correctly named, authenticated device was rejected with {out[1]}", replay)
        elif state != "CONN":
            rep.violation("C06/ok-not-connected", f"{where}: finish returned normally in state {state}", replay)
        return
    if got == "ok":
        why = {"L.Conn": "an unsupported API major version", "L.BadName": "a device name different from the expected one",
               "L.InvalidAuth": "a ConnectResponse flagging the password invalid"}.get(exp[1] if len(exp) > 1 else "", "malformed hello/login responses")
        rep.violation("C06/accepted-bad-device:" + (exp[1] if len(exp) > 1 else "order"), f"{where}: connect succeeded despite {why}", replay)
        return
    if got == "pending":
        rep.violation("C06/hang", f"{where}: finish_connection still pending at the end of the story", replay)
        return
    if exp[0] == "err" and out[1] != exp[1]:
        rep.violation("C06/error-class:" + exp[1], f"{where}: expected {exp[1]}, raised {out[1]}", replay)
    if exp[0] == "err" and exp[1] == "L.BadName" and out[2] != NAMES[case["name"]]:
        rep.violation("C06/bad-name-payload", f"{where}: BadNameAPIError does not carry the received name (got {out[2]!r})", replay)
    if state != "CLOSED":
        rep.violation("C06/not-closed", f"{where}: connect failed but the connection is {state}", replay)
    if stops:
        rep.violation("C06/stop-called", f"{where}: stop callback invoked although the connection never was connected", replay)


# ----------------------------------------------------------------------------- noise sessions
async def noise_case(loop, case):
    from aioesphomeapi import api_pb2 as pb
    from aioesphomeapi.connection import APIConnection, ConnectionParams, ConnectionState as S
    from aioesphomeapi.zeroconf import ZeroconfManager
    from vlib import noisesim
    net = simnet.Net(loop)
    psk = bytes(range(1, 33))
    stops = []
    names = NAMES
    params = ConnectionParams(addresses=["10.0.0.1"], port=6053, password=case["password"], client_info="v", keepalive=20.0,
                              zeroconf_manager=ZeroconfManager(), noise_psk=noisesim.b64(psk), expected_name="dev" if case["expect"] else None)
    conn = APIConnection(params, lambda e: stops.append(e), False, None)
    with net.patched():
        await conn.start_connection()
        task = asyncio.ensure_future(conn.finish_connection(login=bool(case["login"])))
        await simnet.drain(loop)
        tr = net.transports[-1]
        frames = noisesim.split_frames(b"".join(d for _, d in tr.writes))
        sn = names[case["server_name"]]
        resp = noisesim.Responder(psk, sn.encode() if sn is not None else None)
        hs, _ = resp.handshake_frames(frames[1][1:])
        tr.feed(resp.hello_frame() + hs)
        await simnet.drain(loop)
        if not task.done():
            hello = pb.HelloResponse(api_version_major=case["major"], api_version_minor=10, name=names[case["name"]])
            data = resp.data_frame(2, hello.SerializeToString())[0]
            if case["login"]:
                data += resp.data_frame(4, pb.ConnectResponse(invalid_password=bool(case["invalid_password"])).SerializeToString())[0]
            tr.feed(data)
            await simnet.drain(loop)
        for _ in range(3):
            if task.done():
                break
            nt = loop.next_timer()
            if nt is None:
                break
            await simnet.advance(loop, to=nt + loop.base)
        if not task.done():
            out = ("pending", None, None)
            task.cancel()
        elif task.cancelled():
            out = ("err", "C", None)
        elif task.exception() is None:
            out = ("ok", None, None)
        else:
            e = task.exception()
            out = ("err", conntrace.exc_name(e), getattr(e, "received_name", None))
        state = {S.CONNECTED: "CONN", S.CLOSED: "CLOSED"}.get(conn.connection_state, str(conn.connection_state))
        conn.force_disconnect()
        await simnet.drain(loop)
    return out, state, stops


async def client_login_case(loop, password, invalid):
    from aioesphomeapi import api_pb2 as pb
    from aioesphomeapi.client import APIClient
    net = simnet.Net(loop)
    with net.patched():
        cli = APIClient("10.0.0.1", 6053, password)
        try:
            await cli.start_connection()
            task = asyncio.ensure_future(cli.finish_connection(login=True))
            await simnet.drain(loop)
            tr = net.transports[-1]
            tr.feed(simnet.plain_msg(pb.HelloResponse(api_version_major=1, api_version_minor=10, name="dev")))
            tr.feed(simnet.plain_msg(pb.ConnectResponse(invalid_password=invalid)))
            await simnet.drain(loop)
            if not task.done():
                task.cancel()
                out = "pending"
            elif task.exception() is None:
                out = "ok"
            else:
                out = conntrace.exc_name(task.exception())
        except Exception as e:  # noqa: BLE001
            out = conntrace.exc_name(e)
        writes = [ty for tr in net.transports for _, d in tr.writes for ty, _ in simnet.decode_plain_stream(d)]
        try:
            await cli.disconnect(force=True)
        except Exception:  # noqa: BLE001
            pass
        await simnet.drain(loop)
    return out, writes


async def client_attempts_case(loop, names, expected, when="ctor"):
    """Consecutive plaintext connect attempts of one APIClient against devices announcing `names`; the expected name is configured in the
    constructor, or through the public setter before the first start_connection() ("before") or between the first start_connection()
    and its finish_connection() ("between")."""
    from aioesphomeapi import api_pb2 as pb
    from aioesphomeapi.client import APIClient
    net = simnet.Net(loop)
    outs, reads = [], []
    with net.patched():
        cli = APIClient("10.0.0.1", 6053, None, expected_name=expected if when == "ctor" else None)
        if when == "before":
            cli.expected_name = expected
        for k, name in enumerate(names):
            try:
                await cli.start_connection()
                if when == "between" and k == 0:
                    cli.expected_name = expected
                task = asyncio.ensure_future(cli.finish_connection(login=False))
                await simnet.drain(loop)
                tr = net.transports[-1]
                tr.feed(simnet.plain_msg(pb.HelloResponse(api_version_major=1, api_version_minor=10, name=name)))
                await simnet.drain(loop)
                if not task.done():
                    task.cancel()
                    outs.append("pending")
                elif task.exception() is None:
                    outs.append("ok")
                else:
                    outs.append(conntrace.exc_name(task.exception()))
            except Exception as e:  # noqa: BLE001
                outs.append(conntrace.exc_name(e))
            reads.append(cli.expected_name)
            try:
                await cli.disconnect(force=True)
            except Exception:  # noqa: BLE001
                pass
            await simnet.drain(loop)
    return outs, reads


async def overlapping_finish_case(loop, refusal, gap):
    """Two finish_connection() calls on one connection overlap (the second `gap` loop turns after the first); the device answers the
    hello with an unsupported major version / another name than expected / a rejected password. Neither call may return normally.
    Returns (outcomes of the two calls, final state, stop calls)."""
    from aioesphomeapi import api_pb2 as pb
    from aioesphomeapi.connection import APIConnection, ConnectionParams, ConnectionState as S
    from aioesphomeapi.zeroconf import ZeroconfManager
    net = simnet.Net(loop)
    stops = []
    params = ConnectionParams(addresses=["10.0.0.1"], port=6053, password="pw", client_info="v", keepalive=20.0,
                              zeroconf_manager=ZeroconfManager(), noise_psk=None, expected_name="dev")
    conn = APIConnection(params, lambda e: stops.append(e), False, None)
    with net.patched():
        await conn.start_connection()
        t1 = asyncio.ensure_future(conn.finish_connection(login=True))
        for _ in range(gap):
            await asyncio.sleep(0)
        t2 = asyncio.ensure_future(conn.finish_connection(login=True))
        await simnet.drain(loop)
        tr = net.transports[-1]
        hello = pb.HelloResponse(api_version_major=3 if refusal == "version" else 1, api_version_minor=10, name="other" if refusal == "name" else "dev")
        tr.feed(simnet.plain_msg(hello) + simnet.plain_msg(pb.ConnectResponse(invalid_password=refusal == "password")))
        await simnet.drain(loop)
        outs = []
        for t in (t1, t2):
            if not t.done():
                t.cancel()
                outs.append("pending")
            elif t.cancelled():
                outs.append("C")
            elif t.exception() is None:
                outs.append("ok")
            else:
                outs.append(conntrace.exc_name(t.exception()))
        state = conn.connection_state.name
        conn.force_disconnect()
        await simnet.drain(loop)
    return outs, state, stops


def noise_oracle(case):
    # the server hello name is checked by the frame helper first (if a name is announced), then the HelloResponse
    if case["server_name"] not in ("-",) and case["expect"] and case["server_name"] != "x":
        return ("err", "L.BadName", NAMES[case["server_name"]])
    o = oracle(dict(case, order="HC" if case["login"] else "H"))
    return o + (NAMES[case["name"]],) if o[0] == "err" and o[1] == "L.BadName" else o


def run(rep, tier, seed):
    rng = random.Random(seed)
    connfamily.N_REG = connfamily.n_registered()
    rep.coverage["rule"] = (
        "plaintext: majors {0,1,2,3,4,2^32-1} x names {empty, expected, other, expected+suffix, strict prefix of expected, other case} x expected-name on/off x login on/off x password verdict x response orders "
        "{H,HC,CH,HHC,C,HCC} x {one chunk, separate chunks} x password set/unset (exhaustive in thorough, sampled in quick), refusals followed in the same turn by EOF / reset, each run on the real "
        "APIConnection with trace validation against Model/Conn.v; noise: server-hello name {absent, empty, expected, other, expected+suffix, prefix, other case} x HelloResponse name x "
        "expected-name x login x verdict x majors {1,3} over real Noise sessions with an independent responder; non-trivial = the device must be rejected; "
        "distinct by case tuple")
    proofs_ok = rep.proofs(VFILE)
    ok, log = common.build_driver()
    if not ok:
        raise RuntimeError("driver build failed: " + log[-2000:])
    cases = [mk_story(*c) for c in itertools.product(MAJORS, "exopqcl", (0, 1), (0, 1), (0, 1), ORDERS, (1, 0), (None, "pw"))]
    if tier == "quick":
        cases = rng.sample(cases, 500)
    # refusals followed at once by the loss of the connection: the specific error still is what connect raises
    tails = [mk_story(*c, tail=t) for t in ("eof", "lost")
             for c in itertools.product((1, 3), "xo", (0, 1), (0, 1), (0, 1), ("H", "HC"), (1,), (None, "pw"))]
    tails = [st for st in tails if oracle(st["case"])[0] == "err" and oracle(st["case"])[1] in ("L.Conn", "L.BadName", "L.InvalidAuth")]
    cases += tails if tier == "thorough" else rng.sample(tails, min(len(tails), 40))
    disagreements = []
    B = 400
    for off in range(0, len(cases), B):
        batch = cases[off:off + B]
        trs = []
        lines = []
        for st in batch:
            tr = run_plain(st)
            steps, problems = connstories.impl_steps(tr)
            trs.append((tr, steps, problems))
            lines.append(connstories.model_line(st, steps))
        mout = common.run_driver(lines)
        for st, (tr, steps, problems), mo in zip(batch, trs, mout):
            case = st["case"]
            out = outcome_of(tr)
            stops = [o for _, _, obs in tr.steps for o in obs if o.startswith("STOP")]
            final = connfamily.parse_proj(tr.steps[-1][1])["cs"]
            exp = oracle(case)
            rep.case(tuple(sorted(case.items(), key=str)), nontrivial=exp[0] != "ok", sample={"case": case, "outcome": out[:2], "state": final})
            rep.bump("plain:" + exp[0] + (":" + exp[1] if len(exp) > 1 else ""))
            rep.coverage["traces_validated_against_impl"] += 1
            judge(rep, case, out, final, stops, "plaintext " + json.dumps(case, sort_keys=True), {"kind": "impl-case", "transport": "plaintext", "case": case})
            dis = connstories.compare(steps, mo)
            if dis or problems:
                disagreements.append({"case": case, "disagreement": dis})
    ncases = [dict(server_name=sn, name=nk, expect=ex, login=lg, invalid_password=ip, major=mj, password=pw)
              for sn, nk, ex, lg, ip, mj, pw in itertools.product("-exopqcl", "exopqcl", (0, 1), (0, 1), (0, 1), (1, 3), (None, "pw"))]
    if tier == "quick":
        ncases = rng.sample(ncases, 260)
    for case in ncases:
        out, state, stops = simnet.run(lambda loop: noise_case(loop, case))
        exp = noise_oracle(case)
        rep.case(("noise",) + tuple(sorted(case.items(), key=str)), nontrivial=exp[0] != "ok", sample={"noise_case": case, "outcome": out[:2]})
        rep.bump("noise:" + exp[0] + (":" + exp[1] if len(exp) > 1 else ""))
        where = "noise " + json.dumps(case, sort_keys=True)
        replay = {"kind": "impl-case", "transport": "noise", "case": case}
        if exp[0] == "err" and exp[1] == "L.BadName":
            if out[0] == "ok":
                rep.violation("C06/accepted-bad-device:L.BadName", f"{where}: connect succeeded despite a device name different from the expected one", replay)
            elif out[1] != "L.BadName" or out[2] != exp[2]:
                rep.violation("C06/error-class:L.BadName", f"{where}: expected BadNameAPIError({exp[2]!r}), raised {out[1]} ({out[2]!r})", replay)
            elif state != "CLOSED" or stops:
                rep.violation("C06/not-closed", f"{where}: state {state}, stop calls {stops}", replay)
        else:
            judge(rep, dict(case, order="HC" if case["login"] else "H"), out, state, stops, where, replay)
    # ---- consecutive attempts of ONE APIClient: every attempt is judged by the configured name alone, whatever earlier attempts met
    for names, expected, when in ((["other-device", "other-device"], "dev", "ctor"), (["other-device", "dev", "other-device"], "dev", "ctor"), (["dev", "DEV"], "dev", "ctor"),
                                  (["dev", "other-device"], None, "ctor"), (["other-device", "dev"], None, "ctor"), (["dev2", "dev2", "dev"], "dev", "ctor"),
                                  (["other-device", "dev"], "dev", "before"), (["other-device", "dev", "other-device"], "dev", "between"), (["dev", "other-device"], "dev", "between")):
        outs, reads = simnet.run(lambda loop: client_attempts_case(loop, names, expected, when))
        want = ["ok" if (expected is None or n == expected) else "L.BadName" for n in names]
        rep.case(("client-attempts", tuple(names), expected, when), nontrivial="L.BadName" in want, sample={"client_attempts": names, "expected_name": expected, "configured": when, "outcomes": outs})
        rep.bump("client-attempts:" + when)
        replay = {"kind": "impl-case", "transport": "plaintext", "variant": "client-attempts", "names": names, "expected": expected, "when": when}
        if outs != want:
            rep.violation("C06/name-rule-across-attempts", f"one APIClient (expected_name={expected!r}, configured {when}), consecutive attempts against devices named {names}: outcomes {outs}, "
                          f"the name rule gives {want}", replay)
        elif any(r != expected for r in reads):
            rep.violation("C06/expected-name-changed", f"APIClient.expected_name configured as {expected!r} reads {reads} after the attempts against {names}", replay)
    # ---- two overlapping finish_connection() calls against a device that is refused: neither may come back as a success
    for refusal, want in (("version", "L.APIVersion"), ("name", "L.BadName"), ("password", "L.InvalidAuth"), ("none", None)):
        for gap in (0, 1, 3):
            outs, state, stops = simnet.run(lambda loop: overlapping_finish_case(loop, refusal, gap))
            rep.case(("overlapping-finish", refusal, gap), True, sample={"overlapping_finish": refusal, "gap": gap, "outcomes": outs, "state": state})
            rep.bump("probe:overlapping-finish")
            replay = {"kind": "impl-case", "transport": "plaintext", "variant": "overlapping-finish", "refusal": refusal, "gap": gap}
            if refusal != "none" and ("ok" in outs or state != "CLOSED" or stops):
                rep.violation("C06/accepted-bad-device:overlap", f"device refused ({refusal}), two overlapping finish_connection() calls (second {gap} turn(s) later): the calls ended {outs}, "
                              f"state {state}, stop calls {stops} - connecting succeeds only with a compatible, correctly named, authenticated device", replay)
            elif refusal == "none" and outs[0] != "ok":
                rep.violation("C06/rejected-good-device", f"good device, two overlapping finish_connection() calls: the first ended {outs[0]}", replay)
    # ---- the login verdict through the public client, with and without a configured password
    for password in (None, "", "pw"):
        for invalid in (True, False):
            out, writes = simnet.run(lambda loop: client_login_case(loop, password, invalid))
            want = "L.InvalidAuth" if invalid else "ok"
            rep.case(("client-login", password, invalid), nontrivial=invalid, sample={"client_login_password": password, "device_says_invalid": invalid, "outcome": out})
            rep.bump("client-login")
            replay = {"kind": "impl-case", "transport": "plaintext", "variant": "client-login", "password": password, "invalid": invalid}
            if out != want:
                rep.violation("C06/client-login", f"APIClient(password={password!r}).finish_connection(login=True), the device answers ConnectResponse(invalid_password={invalid}): "
                              f"ended {out}, expected {want}", replay)
            elif 3 not in writes:
                rep.violation("C06/client-login", f"APIClient(password={password!r}).finish_connection(login=True) did not send a ConnectRequest (ids written: {writes})", replay)
    rep.coverage["disagreements"] = len(disagreements)
    if disagreements and not rep.violations:
        rep.violations.append(("C06/correspondence", "Model/Conn.v and the real APIConnection disagree on a hello/login story; no violation of C06 found",
                               {"kind": "no-failing-input-found", "obligation": "trace validation Conn.step ~ APIConnection", "first_disagreements": disagreements[:3]}))
    if not proofs_ok and not rep.violations:
        rep.proof_broken(rep.broken[0], rep.broken[1])


def replay(path):
    common.setup_impl_path()
    connfamily.N_REG = connfamily.n_registered()
    d = json.loads(open(path).read())["replay"]
    if d.get("kind") != "impl-case":
        print("nothing to replay:", d.get("kind"))
        return 0
    if d.get("variant") == "overlapping-finish":
        outs, state, stops = simnet.run(lambda loop: overlapping_finish_case(loop, d["refusal"], d["gap"]))
        print(outs, state, stops)
        return 1 if (d["refusal"] != "none" and ("ok" in outs or state != "CLOSED" or stops)) else 0
    if d.get("variant") == "client-attempts":
        outs, reads = simnet.run(lambda loop: client_attempts_case(loop, d["names"], d["expected"], d.get("when", "ctor")))
        want = ["ok" if (d["expected"] is None or n == d["expected"]) else "L.BadName" for n in d["names"]]
        print("outcomes:", outs, "name rule:", want, "expected_name reads:", reads)
        return 1 if outs != want or any(r != d["expected"] for r in reads) else 0
    if "case" not in d:
        print("nothing to replay:", d.get("variant"))
        return 0
    rep = common.Report("C06", "quick", 0)
    case = d["case"]
    if d["transport"] == "plaintext":
        st = mk_story(case["major"], case["name"], case["expect"], case["login"], case["invalid_password"], case["order"], case["together"], case["password"])
        tr = run_plain(st)
        out = outcome_of(tr)
        stops = [o for _, _, obs in tr.steps for o in obs if o.startswith("STOP")]
        final = connfamily.parse_proj(tr.steps[-1][1])["cs"]
        print("outcome:", out, "state:", final, "stops:", stops, "oracle:", oracle(case))
        judge(rep, case, out, final, stops, "replay", {})
    else:
        out, state, stops = simnet.run(lambda loop: noise_case(loop, case))
        print("outcome:", out, "state:", state, "stops:", stops, "oracle:", noise_oracle(case))
        exp = noise_oracle(case)
        if exp[0] == "err" and exp[1] == "L.BadName":
            if out[0] == "ok" or out[1] != "L.BadName" or out[2] != exp[2]:
                return 1
        else:
            judge(rep, dict(case, order="HC" if case["login"] else "H"), out, state, stops, "replay", {})
    for sig, what, _ in rep.violations:
        print("VIOLATED:", sig, what)
    return 1 if rep.violations else 0
