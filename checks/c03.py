"""C03 — Noise sessions interoperate with any conformant responder, for any chunking.

Proof: coq/Properties/C03.v (segmentation independence for every stream; honest-session theorem under decrypt(enc)=id).
Tie: the real APINoiseFrameHelper (real X25519/ChaChaPoly/SHA-256) against an INDEPENDENT responder (stock noise package
default backend + plain cryptography AEAD with its own nonce counters), for random keys' handshakes, names, expected-name
settings, message lists and chunkings; per call the observations must equal an oracle computed from the frame boundaries,
and the extracted model (ideal symbolic AEAD) must produce the same observations for the same cuts."""
import asyncio
import json
import random

from vlib import common, noisecases, noisesim

VFILE = "Properties/C03.v"
NAMES = [None, b"", b"dev", b"other-device", "küche".encode(), b"a" * 40,
         # near misses of an expected name: it as a proper prefix / suffix of the announced one, and the other way round, other case
         b"dev2", b"dev-kitchen", b"de", b"xdev", b"DEV", b"dev "]
EXPECTED = [None, "dev", "other-device", "küche", "Dev", "dev", "dev", "de"]


def accept(name, expected):
    return expected is None or name is None or name == expected.encode()


def expected_calls(frames, points, ok):
    """Per data_received call: what the property says must be observed."""
    ends, off = [], 0
    for f in frames:
        off += len(f["real"])
        ends.append(off)
    total = off
    bounds = sorted(points) + [total]
    out, done = [], 0
    for b in bounds:
        evs = []
        while done < len(frames) and ends[done] <= b:
            f = frames[done]
            if f["kind"] == "hs":
                evs.append("RDY")
            elif f["kind"] == "data":
                ty, pl = f["msg"]
                evs.append(f"D:{ty:x}:{pl.hex() or '-'}")
            done += 1
        out.append(evs)
    return out


def gen_case(rng, ids):
    name = rng.choice(NAMES)
    expected = rng.choice(EXPECTED)
    n = rng.choice([0, 1, 2, 3, 5, 12, 30])
    msgs = [(rng.choice(ids + [300, 65535]), rng.randbytes(rng.choice([0, 1, 2, 7, 130, 300]))) for _ in range(n)]
    mode = rng.choice(["one", "bytes", "frames", "multi", "multi", "multi", "headers", "straddle", "straddle"])
    return name, expected, msgs, mode


def run(rep, tier, seed):
    rng = random.Random(seed)
    asyncio.set_event_loop(asyncio.new_event_loop())
    rep.coverage["rule"] = (
        "fresh handshakes (new ephemeral keys each) x announced names {absent, empty, ascii, utf-8, long} x expected-name settings x 0-30 messages "
        "(ids incl. 300 and 65535, payloads 0-300 bytes) x chunkings {one chunk, 1-byte chunks, frame boundaries, random multi-cut, dense cuts inside a header, every frame split with the next piece ending 0-3 bytes into the following frame}; "
        "thorough adds every single cut position of 40 sessions; plus real APIConnection sessions with messages encrypted right behind the handshake frame x chunkings, and consecutive sessions of one APIClient with differently named devices; non-trivial = some frame is split across calls or the name is rejected; distinct by (name, expected, message sizes, cuts)")
    proofs_ok = rep.proofs(VFILE)
    ok, log = common.build_driver()
    if not ok:
        raise RuntimeError("driver build failed: " + log[-2000:])
    from aioesphomeapi.core import MESSAGE_TYPE_TO_PROTO
    ids = sorted(MESSAGE_TYPE_TO_PROTO)
    cases = [gen_case(rng, ids) for _ in range(250 if tier == "quick" else 2500)]
    runs = []
    for name, expected, msgs, mode in cases:
        runs.append((name, expected, msgs, mode, None))
    if tier == "thorough":
        for k in range(40):
            name, expected, msgs, _ = gen_case(rng, ids)
            msgs = msgs[:3]
            runs.append((name, expected, msgs, "allcuts", None))
    lines, impls, metas = [], [], []
    for name, expected, msgs, mode, _ in runs:
        cut_sets = [None]
        if mode == "allcuts":
            cut_sets = "ALL"
        with common.debug_logging(len(lines) % 3 == 0):
            s0 = noisecases.Session(expected)
        st = noisecases.Stream(name, msgs)
        st.build(s0.client_hs)
        total = sum(len(f["real"]) for f in st.frames)
        sessions = []
        if cut_sets == "ALL":
            for p in range(total + 1):
                with common.debug_logging(len(lines) % 3 == 0):
                    s1 = noisecases.Session(expected)
                st1 = noisecases.Stream(name, msgs)
                st1.build(s1.client_hs)
                sessions.append((s1, st1, [p]))
        else:
            if mode == "frames":
                pts, off = [], 0
                for f in st.frames[:-1]:
                    off += len(f["real"])
                    pts.append(off)
            elif mode == "straddle":
                # a frame that arrives in two pieces, the second piece ending a few bytes into the next frame (or exactly at its end),
                # over the whole stream: cut inside every frame and shortly after every frame boundary
                pts, off = [], 0
                for f in st.frames:
                    n = len(f["real"])
                    if n > 1:
                        pts.append(off + rng.randrange(1, n))
                    off += n
                    d = rng.choice([0, 1, 2, 3])
                    if off + d <= total:
                        pts.append(off + d)
                pts = sorted(set(pts))
            elif mode == "headers":
                c = rng.randrange(0, total + 1)
                pts = [p for p in range(c - 4, c + 5) if 0 <= p <= total]
            else:
                pts = noisecases.chunkings(rng, total, mode)
            sessions.append((s0, st, pts))
        for s1, st1, pts in sessions:
            # every third session runs with the library's debug logging on (records discarded): same observable behaviour
            # and the reads arrive as bytes / in one bytearray that is refilled for every read / as memoryview slices of one pool
            rx = (len(lines) // 3) % 3
            noisesim.RX_MODE[0] = rx
            try:
                with common.debug_logging(len(lines) % 3 == 0):
                    ml, il, calls, info = s1.feed(st1.frames, pts)
            finally:
                noisesim.RX_MODE[0] = 0
            rep.bump("rx:" + ("bytes", "reused-bytearray", "pool-memoryview")[rx])
            lines.append(ml)
            impls.append(il)
            ok_name = accept(name, expected)
            ends = set()
            off = 0
            for f in st1.frames:
                off += len(f["real"])
                ends.add(off)
            split = bool(set(pts) - ends - {0})
            rep.case((name, expected, tuple((t, len(p)) for t, p in msgs), tuple(pts)), nontrivial=split or not ok_name,
                     sample={"name": name.decode("utf-8", "replace") if name is not None else None, "expected": expected, "messages": [(t, len(p)) for t, p in msgs][:8],
                             "cuts": pts[:12], "impl": il[:160]})
            rep.bump("mode:" + mode)
            rep.bump("msgs:%d" % min(len(msgs), 30))
            rep.bump("name:" + ("absent" if name is None else "empty" if name == b"" else "set") + "/" + ("none" if expected is None else "expected"))
            rep.coverage["traces_validated_against_impl"] += 1
            replay = {"kind": "impl-case", "name": name.hex() if name is not None else None, "expected": expected,
                      "messages": [(t, p.hex()) for t, p in msgs], "cuts": pts, "rx": rx}
            flat = [e for c in calls for e in c]
            if ok_name:
                exp = expected_calls(st1.frames, pts, True)
                got = [[e for e in c if isinstance(e, str)] for c in calls]
                if got != exp:
                    first = next((i for i, (a, b) in enumerate(zip(got, exp)) if a != b), None)
                    rep.violation("C03/honest-session", f"honest responder, name={name!r}, expected={expected!r}, cuts={pts[:8]}: call {first} observed {got[first][:6] if first is not None else got[:3]}, "
                                  f"expected {exp[first][:6] if first is not None else exp[:3]} (readiness once after the handshake frame, each message in the call that completes its frame)", replay)
                elif info["state"] != "ready" or not info["ready"].done() or info["ready"].exception() is not None:
                    rep.violation("C03/not-ready", f"honest session did not end ready (state {info['state']})", replay)
            else:
                want = "bad_name:" + (name.hex() or "-")
                if any(e.startswith("D:") for e in flat if isinstance(e, str)) or "RDY" in flat:
                    rep.violation("C03/bad-name-accepted", f"announced name {name!r} differs from the expected {expected!r}, yet readiness was signalled / messages delivered", replay)
                elif total in pts or True:
                    if f"FATAL:{want}" not in flat or f"RERR:{want}" not in flat:
                        rep.violation("C03/bad-name-error", f"name mismatch must be reported as BadName carrying {name!r}; observed {flat[:6]}", replay)
            metas.append(replay)
    # ---- frames near the 16-bit limits (a length of 2^15 or more must not be read as negative)
    for size in (32751, 32752, 32767, 32768, 40000, 65515):
        for mode in ("one", "frames", "random"):
            got, want = big_frame_probe(rng, size, mode)
            rep.case(("big-frame", size, mode), True, sample={"big_frame_payload": size, "chunking": mode, "delivered": [(t, n) for t, n in got]})
            rep.bump("big-frame")
            if got != want:
                rep.violation("C03/honest-session", f"honest responder, one message of {size} payload bytes between two small ones, chunking '{mode}': delivered (type, length) {got}, sent {want}",
                              {"kind": "impl-case", "variant": "big-frame", "size": size, "chunking": mode})
    # ---- long runs of frames per read (several hundred complete frames in two or three reads that end inside a frame), the event
    # loop left to run between the reads: every message is delivered, in order, none twice
    for trial in range(4 if tier == "quick" else 24):
        n = rng.choice([150, 201, 300, 500])
        got, want, err = many_frames_probe(rng, n, trial)
        rep.case(("many-frames", n, trial), True, sample={"many_frames": n, "delivered": len(got), "error": err})
        rep.bump("many-frames")
        if got != want or err:
            first = next((i for i, (a, b) in enumerate(zip(got, want)) if a != b), min(len(got), len(want)))
            rep.violation("C03/honest-session", f"honest responder, {n} small messages in a few reads that end inside a frame: {len(got)} delivered, "
                          f"first difference at message {first}{' ; ' + err if err else ''}",
                          {"kind": "impl-case", "variant": "many-frames", "n": n, "trial": trial})
    # ---- the same sessions through the real APIConnection / APIClient: what the responder encrypted right behind its handshake
    # frame is delivered whatever the segmentation, and the name rule is applied afresh in every session of a client
    from vlib import simnet
    for trial in range(12 if tier == "quick" else 80):
        k = rng.choice([1, 2, 3, 5])
        mode = ["one", "frames", "bytes", "random"][trial % 4]
        with common.debug_logging(trial % 2 == 1):
            requests = (trial // 4) % 2 == 1
            got, want, err = simnet.run(lambda loop: conn_early_data_case(loop, rng, k, mode, debug=trial % 2 == 1, requests=requests))
        rep.case(("conn-early", k, mode, trial), True, sample={"conn_early_data": {"messages": k, "chunking": mode, "delivered": len(got), "requests": requests}})
        rep.bump("conn-early:" + mode + (":requests" if requests else ""))
        if got != want or err:
            rep.violation("C03/connection-delivery", f"APIConnection over Noise, {k} message(s){' and a PingRequest / GetTimeRequest' if requests else ''} encrypted right behind the handshake frame, chunking '{mode}': "
                          f"delivered {got}, the responder sent {want}{' ; ' + err if err else ''}",
                          {"kind": "impl-case", "variant": "conn-early-data", "messages": k, "chunking": mode, "requests": requests})
    for names, expected, when in ((["dev", "other"], None, "ctor"), (["dev", "dev"], None, "ctor"), (["other", "dev"], None, "ctor"), (["dev", "dev"], "dev", "ctor"),
                                  (["dev", "other"], "dev", "ctor"), (["other", "dev"], "dev", "ctor"), (["other", "dev"], "dev", "before"), (["dev", "other"], "dev", "before"),
                                  (["other", "dev"], "dev", "between"), (["dev", "other"], "dev", "between")):
        outs = simnet.run(lambda loop: client_sessions_case(loop, names, expected, when))
        want = ["ok" if (expected is None or n == expected) else "L.BadName" for n in names]
        rep.case(("client-sessions", tuple(names), expected, when), True, sample={"client_sessions": names, "expected_name": expected, "configured": when, "outcomes": outs})
        rep.bump("client-sessions:" + when)
        if outs != want:
            rep.violation("C03/name-rule-across-sessions", f"one APIClient (expected_name={expected!r}, configured {when}), consecutive Noise sessions with devices announcing {names}: "
                          f"outcomes {outs}, the name rule gives {want}",
                          {"kind": "impl-case", "variant": "client-sessions", "names": names, "expected": expected, "when": when})

    mout = common.run_driver(lines)
    disagreements = [{"case": m, "impl": i[:800], "model": o[:800]} for m, i, o in zip(metas, impls, mout) if i != o]
    rep.coverage["disagreements"] = len(disagreements)
    if disagreements and not rep.violations:
        rep.violations.append(("C03/correspondence", "Model/NoiseFrame.v (ideal AEAD) and the real Noise frame helper disagree; no violation of C03 found",
                               {"kind": "no-failing-input-found", "obligation": "correspondence NoiseFrame.run ~ APINoiseFrameHelper vs independent responder",
                                "first_disagreements": disagreements[:3]}))
    if not proofs_ok and not rep.violations:
        rep.proof_broken(rep.broken[0], rep.broken[1])


def many_frames_probe(rng, n, trial):
    from vlib import noisesim
    loop = asyncio.get_event_loop()
    psk = bytes(range(1, 33))
    resp = noisesim.Responder(psk, b"dev")
    sess = noisesim.ImplSession(noisesim.b64(psk), None)
    sess.op("made")
    hs_frame, _ = resp.handshake_frames(noisesim.split_frames(sess.writes[0])[1][1:])
    sess.op("data", resp.hello_frame() + hs_frame)
    msgs = [(26 + (i % 3), bytes([i & 255, i >> 8])) for i in range(n)]
    parts = [resp.data_frame(t, p)[0] for t, p in msgs]
    stream = b"".join(parts)
    # read boundaries: each inside a frame, with more than 64 complete frames on either side
    offs, acc = [], 0
    for p in parts:
        offs.append(acc)
        acc += len(p)
    k1 = rng.randrange(70, n // 2)
    k2 = rng.randrange(n // 2 + 1, n - 70) if trial % 2 else None
    cuts = [offs[k1] + rng.randrange(1, len(parts[k1]))] + ([offs[k2] + rng.randrange(1, len(parts[k2]))] if k2 else [])
    chunks = [stream[a:b] for a, b in zip([0] + cuts, cuts + [len(stream)])]
    err = None
    got = []

    def take(evs):
        nonlocal err
        for e in evs:
            if isinstance(e, str) and e.startswith("D:"):
                _, t, p = e.split(":")
                got.append((int(t, 16), bytes.fromhex(p) if p != "-" else b""))
            elif isinstance(e, str) and (e.startswith("FATAL") or e.startswith("RAISE")):
                err = e
    for c in chunks:
        n0 = len(sess.conn.events)
        take(sess.op("data", c))
        for _ in range(40):     # whatever the helper scheduled for "later" gets its turn
            loop.run_until_complete(asyncio.sleep(0))
        take(sess.conn.events[n0:])
        del sess.conn.events[n0:]
    return got, msgs, err


def big_frame_probe(rng, size, mode):
    from vlib import noisesim
    psk = bytes(range(1, 33))
    resp = noisesim.Responder(psk, b"dev")
    sess = noisesim.ImplSession(noisesim.b64(psk), None)
    sess.op("made")
    hs_frame, _ = resp.handshake_frames(noisesim.split_frames(sess.writes[0])[1][1:])
    sess.op("data", resp.hello_frame() + hs_frame)
    msgs = [(26, b"ab"), (300, rng.randbytes(size)), (7, b"")]
    parts = [resp.data_frame(t, p)[0] for t, p in msgs]
    stream = b"".join(parts)
    if mode == "one":
        chunks = [stream]
    elif mode == "frames":
        chunks = parts
    else:
        cuts = sorted(rng.randrange(0, len(stream) + 1) for _ in range(4))
        chunks = [stream[a:b] for a, b in zip([0] + cuts, cuts + [len(stream)])]
    got = []
    for c in chunks:
        for e in sess.op("data", c):
            if isinstance(e, str) and e.startswith("D:"):
                _, t, p = e.split(":")
                got.append((int(t, 16), 0 if p == "-" else len(p) // 2))
            elif isinstance(e, str) and (e.startswith("FATAL") or e.startswith("RAISE")):
                got.append((e, 0))
    return got, [(t, len(p)) for t, p in msgs]


async def conn_early_data_case(loop, rng, k, mode, debug=False, requests=False):
    """Noise session on a real APIConnection; the device encrypts k messages immediately after its handshake frame
    (with requests=True a PingRequest and a GetTimeRequest among them: a device may ask at once)."""
    from aioesphomeapi import api_pb2 as pb
    from aioesphomeapi.connection import APIConnection, ConnectionParams
    from aioesphomeapi.zeroconf import ZeroconfManager
    from vlib import noisesim, simnet
    net = simnet.Net(loop)
    psk = bytes(range(1, 33))
    params = ConnectionParams(addresses=["10.0.0.1"], port=6053, password=None, client_info="v", keepalive=20.0,
                              zeroconf_manager=ZeroconfManager(), noise_psk=noisesim.b64(psk), expected_name=None)
    conn = APIConnection(params, lambda e: None, debug, None)
    got = []
    conn.add_message_callback(lambda m: got.append(("sensor", m.key)), (pb.SensorStateResponse,))
    conn.add_message_callback(lambda m: got.append(("log", m.message)), (pb.SubscribeLogsResponse,))
    err = None
    with net.patched():
        await conn.start_connection()
        task = asyncio.ensure_future(conn.finish_connection(login=False))
        await simnet.drain(loop)
        tr = net.transports[-1]
        frames = noisesim.split_frames(b"".join(d for _, d in tr.writes))
        resp = noisesim.Responder(psk, b"dev")
        hs, _ = resp.handshake_frames(frames[1][1:])
        parts, want = [resp.hello_frame(), hs], []
        for i in range(k):
            if i % 2 == 0:
                parts.append(resp.data_frame(25, pb.SensorStateResponse(key=100 + i, state=1.5).SerializeToString())[0])
                want.append(("sensor", 100 + i))
            else:
                parts.append(resp.data_frame(29, pb.SubscribeLogsResponse(message=b"m%d" % i).SerializeToString())[0])
                want.append(("log", b"m%d" % i))
            if requests and i == 0:
                parts.append(resp.data_frame(7, b"")[0])
                parts.append(resp.data_frame(36, b"")[0])
        stream = b"".join(parts)
        if mode == "one":
            chunks = [stream]
        elif mode == "frames":
            chunks = [parts[0], parts[1] + parts[2]] + parts[3:]
        elif mode == "bytes":
            chunks = [stream[i:i + 1] for i in range(len(stream))]
        else:
            cuts = sorted(rng.randrange(0, len(stream) + 1) for _ in range(3))
            chunks = [stream[a:b] for a, b in zip([0] + cuts, cuts + [len(stream)])]
        for c in chunks:
            tr.feed(c)
        await simnet.drain(loop)
        # then the ordinary hello exchange completes the connect
        tr.feed(resp.data_frame(2, pb.HelloResponse(api_version_major=1, api_version_minor=10, name="dev").SerializeToString())[0])
        await simnet.drain(loop)
        if not task.done():
            err = "finish_connection still pending after the HelloResponse"
            task.cancel()
        elif task.exception() is not None:
            err = f"finish_connection raised {type(task.exception()).__name__}"
        conn.force_disconnect()
        await simnet.drain(loop)
    return got, want, err


async def client_sessions_case(loop, names, expected, when="ctor"):
    """Consecutive Noise sessions of one APIClient with devices announcing `names` (server hello and HelloResponse). The expected name is
    configured in the constructor, or through the public setter before the first start_connection() ("before") or between the
    first start_connection() and its finish_connection() ("between"): what is configured when the device announces itself is what counts.
    With delivered=True a state message follows each handshake and the result is (outcomes, keys a subscriber saw)."""
    from aioesphomeapi import api_pb2 as pb
    from aioesphomeapi.client import APIClient
    from vlib import conntrace, noisesim, simnet
    net = simnet.Net(loop)
    psk = bytes(range(1, 33))
    outs = []
    with net.patched():
        cli = APIClient("10.0.0.1", 6053, None, noise_psk=noisesim.b64(psk), expected_name=expected if when == "ctor" else None)
        if when == "before":
            cli.expected_name = expected
        for k, name in enumerate(names):
            try:
                await cli.start_connection()
                if when == "between" and k == 0:
                    cli.expected_name = expected
                task = asyncio.ensure_future(cli.finish_connection(login=False))
                await simnet.drain(loop)
                tr = net.transports[-1]
                frames = noisesim.split_frames(b"".join(d for _, d in tr.writes))
                resp = noisesim.Responder(psk, name.encode())
                hs, _ = resp.handshake_frames(frames[1][1:])
                tr.feed(resp.hello_frame() + hs)
                await simnet.drain(loop)
                if not task.done():
                    tr.feed(resp.data_frame(2, pb.HelloResponse(api_version_major=1, api_version_minor=10, name=name).SerializeToString())[0])
                    await simnet.drain(loop)
                if not task.done():
                    task.cancel()
                    outs.append("pending")
                elif task.exception() is None:
                    outs.append("ok")
                else:
                    outs.append(conntrace.exc_name(task.exception()))
            except Exception as e:  # noqa: BLE001
                outs.append(conntrace.exc_name(e))
            try:
                await cli.disconnect(force=True)
            except Exception:  # noqa: BLE001
                pass
            await simnet.drain(loop)
    return outs


def replay(path):
    common.setup_impl_path()
    asyncio.set_event_loop(asyncio.new_event_loop())
    d = json.loads(open(path).read())["replay"]
    if d.get("kind") != "impl-case":
        print("nothing to replay:", d.get("kind"))
        return 0
    if d.get("variant") == "client-sessions":
        from vlib import simnet
        outs = simnet.run(lambda loop: client_sessions_case(loop, d["names"], d["expected"], d.get("when", "ctor")))
        want = ["ok" if (d["expected"] is None or n == d["expected"]) else "L.BadName" for n in d["names"]]
        print("outcomes:", outs, "name rule:", want)
        return 1 if outs != want else 0
    if "name" not in d:
        print("nothing to replay:", d.get("variant"))
        return 0
    name = bytes.fromhex(d["name"]) if d["name"] is not None else None
    msgs = [(t, bytes.fromhex(p)) for t, p in d["messages"]]
    s1 = noisecases.Session(d["expected"])
    st = noisecases.Stream(name, msgs)
    st.build(s1.client_hs)
    noisesim.RX_MODE[0] = d.get("rx", 0)
    ml, il, calls, info = s1.feed(st.frames, d["cuts"])
    print("observed per call:", [[e for e in c if isinstance(e, str)] for c in calls])
    if accept(name, d["expected"]):
        exp = expected_calls(st.frames, d["cuts"], True)
        print("expected per call:", exp)
        return 1 if [[e for e in c if isinstance(e, str)] for c in calls] != exp else 0
    flat = [e for c in calls for e in c]
    return 1 if ("RDY" in flat or any(isinstance(e, str) and e.startswith("D:") for e in flat)) else 0
