"""C03 — Noise sessions interoperate with any conformant responder, for any chunking.

Proof: coq/Properties/C03.v (segmentation independence for every stream; honest-session theorem under decrypt(enc)=id).
Tie: the real APINoiseFrameHelper (real X25519/ChaChaPoly/SHA-256) against an INDEPENDENT responder (stock noise package
default backend + plain cryptography AEAD with its own nonce counters), for random keys' handshakes, names, expected-name
settings, message lists and chunkings; per call the observations must equal an oracle computed from the frame boundaries,
and the extracted model (ideal symbolic AEAD) must produce the same observations for the same cuts."""
import asyncio
import json
import random

from vlib import common, noisecases, noisesim

VFILE = "Properties/C03.v"
NAMES = [None, b"", b"dev", b"other-device", "küche".encode(), b"a" * 40]
EXPECTED = [None, "dev", "other-device", "küche", "Dev"]


def accept(name, expected):
    return expected is None or name is None or name == expected.encode()


def expected_calls(frames, points, ok):
    """Per data_received call: what the property says must be observed."""
    ends, off = [], 0
    for f in frames:
        off += len(f["real"])
        ends.append(off)
    total = off
    bounds = sorted(points) + [total]
    out, done = [], 0
    for b in bounds:
        evs = []
        while done < len(frames) and ends[done] <= b:
            f = frames[done]
            if f["kind"] == "hs":
                evs.append("RDY")
            elif f["kind"] == "data":
                ty, pl = f["msg"]
                evs.append(f"D:{ty:x}:{pl.hex() or '-'}")
            done += 1
        out.append(evs)
    return out


def gen_case(rng, ids):
    name = rng.choice(NAMES)
    expected = rng.choice(EXPECTED)
    n = rng.choice([0, 1, 2, 3, 5, 12, 30])
    msgs = [(rng.choice(ids + [300, 65535]), rng.randbytes(rng.choice([0, 1, 2, 7, 130, 300]))) for _ in range(n)]
    mode = rng.choice(["one", "bytes", "frames", "multi", "multi", "multi", "headers", "straddle", "straddle"])
    return name, expected, msgs, mode


def run(rep, tier, seed):
    rng = random.Random(seed)
    asyncio.set_event_loop(asyncio.new_event_loop())
    rep.coverage["rule"] = (
        "fresh handshakes (new ephemeral keys each) x announced names {absent, empty, ascii, utf-8, long} x expected-name settings x 0-30 messages "
        "(ids incl. 300 and 65535, payloads 0-300 bytes) x chunkings {one chunk, 1-byte chunks, frame boundaries, random multi-cut, dense cuts inside a header, every frame split with the next piece ending 0-3 bytes into the following frame}; "
        "thorough adds every single cut position of 40 sessions; non-trivial = some frame is split across calls or the name is rejected; distinct by (name, expected, message sizes, cuts)")
    proofs_ok = rep.proofs(VFILE)
    ok, log = common.build_driver()
    if not ok:
        raise RuntimeError("driver build failed: " + log[-2000:])
    from aioesphomeapi.core import MESSAGE_TYPE_TO_PROTO
    ids = sorted(MESSAGE_TYPE_TO_PROTO)
    cases = [gen_case(rng, ids) for _ in range(250 if tier == "quick" else 2500)]
    runs = []
    for name, expected, msgs, mode in cases:
        runs.append((name, expected, msgs, mode, None))
    if tier == "thorough":
        for k in range(40):
            name, expected, msgs, _ = gen_case(rng, ids)
            msgs = msgs[:3]
            runs.append((name, expected, msgs, "allcuts", None))
    lines, impls, metas = [], [], []
    for name, expected, msgs, mode, _ in runs:
        cut_sets = [None]
        if mode == "allcuts":
            cut_sets = "ALL"
        s0 = noisecases.Session(expected)
        st = noisecases.Stream(name, msgs)
        st.build(s0.client_hs)
        total = sum(len(f["real"]) for f in st.frames)
        sessions = []
        if cut_sets == "ALL":
            for p in range(total + 1):
                s1 = noisecases.Session(expected)
                st1 = noisecases.Stream(name, msgs)
                st1.build(s1.client_hs)
                sessions.append((s1, st1, [p]))
        else:
            if mode == "frames":
                pts, off = [], 0
                for f in st.frames[:-1]:
                    off += len(f["real"])
                    pts.append(off)
            elif mode == "straddle":
                # a frame that arrives in two pieces, the second piece ending a few bytes into the next frame (or exactly at its end),
                # over the whole stream: cut inside every frame and shortly after every frame boundary
                pts, off = [], 0
                for f in st.frames:
                    n = len(f["real"])
                    if n > 1:
                        pts.append(off + rng.randrange(1, n))
                    off += n
                    d = rng.choice([0, 1, 2, 3])
                    if off + d <= total:
                        pts.append(off + d)
                pts = sorted(set(pts))
            elif mode == "headers":
                c = rng.randrange(0, total + 1)
                pts = [p for p in range(c - 4, c + 5) if 0 <= p <= total]
            else:
                pts = noisecases.chunkings(rng, total, mode)
            sessions.append((s0, st, pts))
        for s1, st1, pts in sessions:
            ml, il, calls, info = s1.feed(st1.frames, pts)
            lines.append(ml)
            impls.append(il)
            ok_name = accept(name, expected)
            ends = set()
            off = 0
            for f in st1.frames:
                off += len(f["real"])
                ends.add(off)
            split = bool(set(pts) - ends - {0})
            rep.case((name, expected, tuple((t, len(p)) for t, p in msgs), tuple(pts)), nontrivial=split or not ok_name,
                     sample={"name": name.decode("utf-8", "replace") if name is not None else None, "expected": expected, "messages": [(t, len(p)) for t, p in msgs][:8],
                             "cuts": pts[:12], "impl": il[:160]})
            rep.bump("mode:" + mode)
            rep.bump("msgs:%d" % min(len(msgs), 30))
            rep.bump("name:" + ("absent" if name is None else "empty" if name == b"" else "set") + "/" + ("none" if expected is None else "expected"))
            rep.coverage["traces_validated_against_impl"] += 1
            replay = {"kind": "impl-case", "name": name.hex() if name is not None else None, "expected": expected,
                      "messages": [(t, p.hex()) for t, p in msgs], "cuts": pts}
            flat = [e for c in calls for e in c]
            if ok_name:
                exp = expected_calls(st1.frames, pts, True)
                got = [[e for e in c if isinstance(e, str)] for c in calls]
                if got != exp:
                    first = next((i for i, (a, b) in enumerate(zip(got, exp)) if a != b), None)
                    rep.violation("C03/honest-session", f"honest responder, name={name!r}, expected={expected!r}, cuts={pts[:8]}: call {first} observed {got[first][:6] if first is not None else got[:3]}, "
                                  f"expected {exp[first][:6] if first is not None else exp[:3]} (readiness once after the handshake frame, each message in the call that completes its frame)", replay)
                elif info["state"] != "ready" or not info["ready"].done() or info["ready"].exception() is not None:
                    rep.violation("C03/not-ready", f"honest session did not end ready (state {info['state']})", replay)
            else:
                want = "bad_name:" + (name.hex() or "-")
                if any(e.startswith("D:") for e in flat if isinstance(e, str)) or "RDY" in flat:
                    rep.violation("C03/bad-name-accepted", f"announced name {name!r} differs from the expected {expected!r}, yet readiness was signalled / messages delivered", replay)
                elif total in pts or True:
                    if f"FATAL:{want}" not in flat or f"RERR:{want}" not in flat:
                        rep.violation("C03/bad-name-error", f"name mismatch must be reported as BadName carrying {name!r}; observed {flat[:6]}", replay)
            metas.append(replay)
    mout = common.run_driver(lines)
    disagreements = [{"case": m, "impl": i[:800], "model": o[:800]} for m, i, o in zip(metas, impls, mout) if i != o]
    rep.coverage["disagreements"] = len(disagreements)
    if disagreements and not rep.violations:
        rep.violations.append(("C03/correspondence", "Model/NoiseFrame.v (ideal AEAD) and the real Noise frame helper disagree; no violation of C03 found",
                               {"kind": "no-failing-input-found", "obligation": "correspondence NoiseFrame.run ~ APINoiseFrameHelper vs independent responder",
                                "first_disagreements": disagreements[:3]}))
    if not proofs_ok and not rep.violations:
        rep.proof_broken(rep.broken[0], rep.broken[1])


def replay(path):
    common.setup_impl_path()
    asyncio.set_event_loop(asyncio.new_event_loop())
    d = json.loads(open(path).read())["replay"]
    if d.get("kind") != "impl-case":
        print("nothing to replay:", d.get("kind"))
        return 0
    name = bytes.fromhex(d["name"]) if d["name"] is not None else None
    msgs = [(t, bytes.fromhex(p)) for t, p in d["messages"]]
    s1 = noisecases.Session(d["expected"])
    st = noisecases.Stream(name, msgs)
    st.build(s1.client_hs)
    ml, il, calls, info = s1.feed(st.frames, d["cuts"])
    print("observed per call:", [[e for e in c if isinstance(e, str)] for c in calls])
    if accept(name, d["expected"]):
        exp = expected_calls(st.frames, d["cuts"], True)
        print("expected per call:", exp)
        return 1 if [[e for e in c if isinstance(e, str)] for c in calls] != exp else 0
    flat = [e for c in calls for e in c]
    return 1 if ("RDY" in flat or any(isinstance(e, str) and e.startswith("D:") for e in flat)) else 0
