"""C14 — models mirror the wire schema; conversion is total and value-preserving.

Proof: coq/Properties/C14.v — generic checkers (soundness proved for all tables) run by vm_compute on tables regenerated
from model.py / model_conversions.py / the compiled descriptors on every run; theorems about the conversion model
(Model/Convert.v) and the exact float presentation model (Model/FloatFix.v).
Tie: translator on every run + correspondence: wire messages of every paired type (boundary ints, unknown enum numbers,
unicode, repeated, float32 patterns) through the real from_pb / to_dict / from_dict and through the extracted model;
fix_float compared bit-exactly with the extracted FloatFix on float32 inputs."""
import dataclasses
import json
import math
import random
import struct
from fractions import Fraction

from vlib import common

VFILE = "Properties/C14.v"


def f32(bits):
    return struct.unpack("<f", struct.pack("<I", bits & 0xFFFFFFFF))[0]


def decomp(x):
    """finite double -> (neg, m, e) with x = +-m*2^e, m odd or 0."""
    if x == 0:
        return (math.copysign(1, x) < 0, 0, 0)
    m, e = math.frexp(abs(x))
    m = int(m * (1 << 53))
    e -= 53
    while m % 2 == 0:
        m //= 2
        e += 1
    return (x < 0, m, e)


def frac(neg, m, e):
    v = Fraction(m) * (Fraction(2) ** e)
    return -v if neg else v


def enc_float(x):
    if math.isnan(x):
        return "X0"
    if math.isinf(x):
        return "X1" if x > 0 else "X2"
    n, m, e = decomp(x)
    return f"F{int(n)}:{m}:{e}"


def enc_value(v):
    import enum
    if v is None:
        return "N"
    if isinstance(v, bool):
        return "B%d" % v
    if isinstance(v, enum.IntEnum):
        return "I%d" % int(v)
    if isinstance(v, int):
        return "I%d" % v
    if isinstance(v, float):
        return enc_float(v)
    if isinstance(v, str):
        return "S" + v.encode("utf-8", "surrogatepass").hex()
    if isinstance(v, (bytes, bytearray)):
        return "S" + bytes(v).hex()
    try:
        items = list(v)
    except TypeError:
        raise TypeError(type(v))
    return "L[" + "|".join(enc_value(x) for x in items) + "]"


def parse_value(t):
    k, r = t[0], t[1:]
    if k == "I":
        return ("I", int(r))
    if k == "B":
        return ("B", r == "1")
    if k == "F":
        s, m, e = r.split(":")
        return ("F", frac(s == "1", int(m), int(e)), s == "1")
    if k == "X":
        return ("X", int(r))
    if k == "S":
        return ("S", r)
    if k == "N":
        return ("N",)
    if k == "L":
        inner = r[1:-1]
        return ("L", tuple(parse_value(x) for x in inner.split("|")) if inner else ())
    raise ValueError(t)


def gen_field_value(rng, fd, wire_enum_values):
    from google.protobuf.descriptor import FieldDescriptor as FD
    def one():
        t = fd.type
        if t == FD.TYPE_BOOL:
            return rng.random() < 0.5
        if t == FD.TYPE_ENUM:
            vals = [v.number for v in fd.enum_type.values]
            return rng.choice(vals + vals + [max(vals) + 1, max(vals) + 7, 2 ** 31 - 1])
        if t in (FD.TYPE_FLOAT,):
            return rng.choice([0.0, -0.0, 0.1, 1.0, 21.5, 1e-10, 3.4e38, float("inf"), float("-inf"), float("nan"), f32(rng.getrandbits(32)), f32(rng.getrandbits(32))])
        if t in (FD.TYPE_DOUBLE,):
            return rng.choice([0.0, 0.1, 1e300, -2.5])
        if t in (FD.TYPE_STRING,):
            return rng.choice(["", "x", "Wohnzimmer", "küche", "日本語", "a" * 300, "\x00\x01", "emoji \U0001F600"])
        if t in (FD.TYPE_BYTES,):
            return rng.choice([b"", b"\x00\xff", rng.randbytes(40)])
        if t in (FD.TYPE_UINT32, FD.TYPE_FIXED32):
            return rng.choice([0, 1, 127, 128, 2 ** 31, 2 ** 32 - 1, rng.getrandbits(32)])
        if t in (FD.TYPE_INT32, FD.TYPE_SINT32, FD.TYPE_SFIXED32):
            return rng.choice([0, 1, -1, 2 ** 31 - 1, -2 ** 31, rng.getrandbits(31)])
        if t in (FD.TYPE_UINT64, FD.TYPE_FIXED64):
            return rng.choice([0, 1, 2 ** 63, 2 ** 64 - 1, rng.getrandbits(64)])
        if t in (FD.TYPE_INT64, FD.TYPE_SINT64, FD.TYPE_SFIXED64):
            return rng.choice([0, -1, 2 ** 63 - 1, -2 ** 63])
        return None
    if fd.type == 11:   # message
        return "MSG"
    if fd.is_repeated:
        return [one() for _ in range(rng.choice([0, 0, 1, 2, 5]))]
    return one()


def fill_message(rng, pbcls, depth=0):
    msg = pbcls()
    for fd in pbcls.DESCRIPTOR.fields:
        if rng.random() < 0.15:
            continue          # left at its default
        v = gen_field_value(rng, fd, None)
        if v == "MSG":
            import aioesphomeapi.api_pb2 as pb
            sub = getattr(pb, fd.message_type.name, None)
            if sub is None:
                continue
            if fd.is_repeated:
                for _ in range(rng.choice([0, 1, 2, 3])):
                    getattr(msg, fd.name).append(fill_message(rng, sub, depth + 1))
            continue
        if fd.is_repeated:
            getattr(msg, fd.name).extend(v)
        else:
            setattr(msg, fd.name, v)
    return msg


def vary_nested(rng, msg):
    """Every repeated nested-message field becomes a family of siblings: one element and, for each of its scalar fields, a copy
    that differs from it in that field alone (an element's conversion must not depend on its siblings or on what was converted before)."""
    from google.protobuf.descriptor import FieldDescriptor as FD
    import aioesphomeapi.api_pb2 as pb
    for fd in type(msg).DESCRIPTOR.fields:
        if fd.type != 11 or not fd.is_repeated:
            continue
        sub = getattr(pb, fd.message_type.name, None)
        if sub is None:
            continue
        base = fill_message(rng, sub, 1)
        lst = getattr(msg, fd.name)
        del lst[:]
        lst.append(base)
        for sfd in sub.DESCRIPTOR.fields:
            if sfd.is_repeated or sfd.type == 11:
                continue
            e = sub()
            e.CopyFrom(base)
            v = getattr(base, sfd.name)
            if sfd.type == FD.TYPE_BOOL:
                nv = not v
            elif sfd.type == FD.TYPE_ENUM:
                vals = [x.number for x in sfd.enum_type.values]
                nv = next((x for x in vals if x != v), v)
            elif sfd.type in (FD.TYPE_STRING,):
                nv = v + "x"
            elif sfd.type in (FD.TYPE_BYTES,):
                nv = v + b"x"
            elif sfd.type in (FD.TYPE_FLOAT, FD.TYPE_DOUBLE):
                nv = 2.5 if v != 2.5 else 3.5
            else:
                nv = 1 if v != 1 else 2
            setattr(e, sfd.name, nv)
            lst.append(e)
    return msg


def with_unknown_enums(msg):
    """Every enum field of the message - and of the elements of its nested lists, at least one element each - carries a number the
    wire enum does not define (a device newer than the client): unknown numbers become None / are dropped, and stay so through to_dict / from_dict."""
    import aioesphomeapi.api_pb2 as pb
    for fd in type(msg).DESCRIPTOR.fields:
        if fd.type == 14:
            top = max(v.number for v in fd.enum_type.values)
            if fd.is_repeated:
                getattr(msg, fd.name).extend([top + 1, fd.enum_type.values[0].number, top + 9])
            else:
                setattr(msg, fd.name, top + 3)
        elif fd.type == 11 and fd.is_repeated:
            sub = getattr(pb, fd.message_type.name, None)
            if sub is None:
                continue
            lst = getattr(msg, fd.name)
            if not len(lst):
                lst.append(sub())
            for e in lst:
                with_unknown_enums(e)
    return msg


KIND = {"KNone": "n", "KEnum": "e", "KEnumList": "l", "KFloatFix": "f", "KListCopy": "c", "KNestedList": "x"}


def oracle_field(kind, wire_val, members, fix):
    """What the property says the model field must be (independent of the Coq model)."""
    if kind[0] == "KEnum":
        return wire_val if wire_val in members[kind[1]] else None
    if kind[0] == "KEnumList":
        return [x for x in wire_val if x in members[kind[1]]]
    if kind[0] == "KFloatFix":
        return fix(wire_val)
    if kind[0] == "KListCopy":
        return list(wire_val)
    return wire_val


def same(a, b):
    if isinstance(a, float) and isinstance(b, float):
        return (math.isnan(a) and math.isnan(b)) or (a == b and math.copysign(1, a) == math.copysign(1, b))
    if isinstance(a, (list, tuple)) and isinstance(b, (list, tuple)):
        return len(a) == len(b) and all(same(x, y) for x, y in zip(a, b))
    if not isinstance(a, (str, bytes, int, float, bool, type(None))) and isinstance(b, (list, tuple)):
        try:
            return same(list(a), b)
        except TypeError:
            return False
    return a == b and type(a) in (type(b), int, bool) or (a == b)


def same_value(a, b):
    """dataclass values equal field by field, NaN equal to NaN, -0.0 different from 0.0"""
    import dataclasses
    import math
    if dataclasses.is_dataclass(a) and dataclasses.is_dataclass(b) and type(a) is type(b):
        return all(same_value(getattr(a, f.name), getattr(b, f.name)) for f in dataclasses.fields(a))
    if isinstance(a, float) and isinstance(b, float):
        return (math.isnan(a) and math.isnan(b)) or (a == b and math.copysign(1, a) == math.copysign(1, b))
    if isinstance(a, (list, tuple)) and isinstance(b, (list, tuple)) and type(a) is type(b):
        return len(a) == len(b) and all(same_value(x, y) for x, y in zip(a, b))
    if isinstance(a, dict) and isinstance(b, dict):
        return a.keys() == b.keys() and all(same_value(a[k], b[k]) for k in a)
    return type(a) is type(b) and a == b


def plain(x):
    """A detached plain-data snapshot of a model value (dataclasses -> dicts, any sequence -> list)."""
    import dataclasses
    import enum
    if dataclasses.is_dataclass(x) and not isinstance(x, type):
        return {f.name: plain(getattr(x, f.name)) for f in dataclasses.fields(x)}
    if isinstance(x, float):
        return ("nan",) if math.isnan(x) else (x, math.copysign(1, x))
    if isinstance(x, (str, bytes, int, bool, type(None), enum.Enum)):
        return x
    if isinstance(x, dict):
        return {k: plain(v) for k, v in x.items()}
    try:
        return [plain(y) for y in x]
    except TypeError:
        return x


def client_conversion_case(seed, n_per_class):
    """What the public client hands out (list_entities_services, subscribe_states, device_info) for wire messages with boundary
    values must be exactly the conversion of those very messages. Returns a list of (path, message class, problem)."""
    import asyncio
    from vlib import simnet
    rng = random.Random(seed)

    async def go(loop):
        from aioesphomeapi import api_pb2 as pb
        from aioesphomeapi.model import DeviceInfo
        from aioesphomeapi.model_conversions import LIST_ENTITIES_SERVICES_RESPONSE_TYPES, SUBSCRIBE_STATES_RESPONSE_TYPES
        net = simnet.Net(loop)
        bad, n = [], 0
        with net.patched():
            cli, tr = await simnet.connected_client(loop, net)
            # entity infos
            sent = []
            for wire, mdl in LIST_ENTITIES_SERVICES_RESPONSE_TYPES.items():
                if mdl is None:
                    continue
                for _ in range(n_per_class):
                    sent.append((wire, mdl, fill_message(rng, wire)))
            task = asyncio.ensure_future(cli.list_entities_services())
            await simnet.drain(loop)
            for wire, mdl, m in sent:
                tr.feed(simnet.plain_msg(m))
            tr.feed(simnet.plain_msg(pb.ListEntitiesDoneResponse()))
            await simnet.drain(loop)
            entities, services = await task
            got = list(entities) + list(services)
            want = [(wire, mdl.from_pb(m)) for wire, mdl, m in sent]
            n += len(sent)
            if len(got) != len(want):
                bad.append(("list_entities_services", "*", f"{len(got)} objects returned for {len(want)} wire messages"))
            else:
                pool = list(got)
                for wire, w in want:
                    hit = next((g for g in pool if same_value(g, w)), None)
                    if hit is None:
                        cand = next((g for g in pool if type(g) is type(w) and getattr(g, "key", None) == getattr(w, "key", None)), None)
                        bad.append(("list_entities_services", wire.__name__, f"from_pb gives {w!r:.300}, the client returned {cand!r:.300}"))
                        break
                    pool.remove(hit)
            # entity states
            states = []
            cli.subscribe_states(states.append)
            await simnet.drain(loop)
            sent = []
            for wire, mdl in SUBSCRIBE_STATES_RESPONSE_TYPES.items():
                for _ in range(n_per_class):
                    sent.append((wire, mdl, fill_message(rng, wire)))
            for wire, mdl, m in sent:
                tr.feed(simnet.plain_msg(m))
            await simnet.drain(loop)
            n += len(sent)
            want = [(wire, mdl.from_pb(m)) for wire, mdl, m in sent if wire.__name__ != "CameraImageResponse"]
            got = [s for s in states if type(s).__name__ != "CameraState"]
            if len(got) != len(want):
                bad.append(("subscribe_states", "*", f"{len(got)} state callbacks for {len(want)} wire messages"))
            else:
                for (wire, w), g in zip(want, got):
                    if not same_value(g, w):
                        bad.append(("subscribe_states", wire.__name__, f"from_pb gives {w!r:.300}, the callback received {g!r:.300}"))
                        break
            # device info
            for _ in range(n_per_class):
                m = fill_message(rng, pb.DeviceInfoResponse)
                task = asyncio.ensure_future(cli.device_info())
                await simnet.drain(loop)
                tr.feed(simnet.plain_msg(m))
                await simnet.drain(loop)
                g = await task
                n += 1
                if not same_value(g, DeviceInfo.from_pb(m)):
                    bad.append(("device_info", "DeviceInfoResponse", f"from_pb gives {DeviceInfo.from_pb(m)!r:.300}, the client returned {g!r:.300}"))
                    break
            await cli.disconnect(force=True)
            await simnet.drain(loop)
        return bad, n
    return simnet.run(go)


def run(rep, tier, seed):
    rng = random.Random(seed)
    rep.coverage["rule"] = (
        "every (wire message, model class) pair: random/boundary wire messages (boundary ints, unknown enum numbers max+1/max+7/2^31-1, unicode and long strings, "
        "empty/long repeated fields, nested messages, float32 patterns incl. +-0, inf, nan) through real from_pb / to_dict / from_dict vs the extracted Convert.from_pb and an "
        "independent per-field oracle; fix_float bit-exact vs extracted FloatFix on float32 neighbours of every power of ten, specials and random patterns (+ idempotence on the implementation); "
        "the same messages through APIClient.list_entities_services / subscribe_states / device_info compared with from_pb; non-trivial = an unknown enum number, a fixed float or a repeated field is present; distinct by (class, serialized message)")
    from translate import gen_model
    from translate.util import TranslationError
    proofs_ok = rep.proofs(VFILE)
    ok, log = common.build_driver()
    if not ok:
        raise RuntimeError("driver build failed: " + log[-2000:])
    from aioesphomeapi import api_pb2 as pb, model
    from aioesphomeapi.util import fix_float_single_double_conversion as fix
    try:
        class_pairs, enum_pairs = gen_model.extract()
    except TranslationError as e:
        class_pairs, enum_pairs = [], []
        rep.notes.append("translator: " + str(e))
    # the base classes of the model hierarchy are public dataclasses too: using them first must not change what the conversions
    # of their subclasses do afterwards (nothing about a conversion may depend on what was instantiated before)
    for base in (model.EntityInfo, model.EntityState):
        try:
            base()
            base.from_dict({})
            base.from_pb(pb.SensorStateResponse())
        except Exception:  # noqa: BLE001
            pass
    members = {me: sorted({v for _, v in mv}) for me, we, mv, wv, why in enum_pairs}
    for name, obj in vars(model).items():
        if isinstance(obj, type) and issubclass(obj, model.APIIntEnum) and obj is not model.APIIntEnum:
            members.setdefault(name, sorted({int(x) for x in obj}))

    # ---- (1)/(2): concrete consequences of a table deviation (the failing input when the proof breaks)
    exceptions = {"UpdateCommand"}
    for me, we, mv, wv, why in enum_pairs:
        M = getattr(model, me)
        wire_numbers = {v for _, v in wv}
        for n, v in wv:
            conv = M.convert(v)
            if me in exceptions:
                if conv is None or conv.name.split("_")[-1] != n.split("_")[-1]:
                    rep.violation("C14/enum/UpdateCommand", f"known deviation: wire {we}.{n}={v} is presented as {conv!r}", {"kind": "impl-case", "enum": me})
                continue
            if conv is None:
                rep.violation(f"C14/enum-missing:{me}", f"wire enum {we} value {n}={v} converts to None: model enum {me} has no member with that value", {"kind": "impl-case", "enum": me, "value": v})
            elif gen_model.strip_common_prefix([k for k in M.__members__])[list(M.__members__).index(conv.name)] != n:
                rep.violation(f"C14/enum-name:{me}", f"wire enum {we} value {n}={v} is presented as {me}.{conv.name}", {"kind": "impl-case", "enum": me, "value": v})
        names = list(M.__members__)
        if len(set(int(M[x]) for x in names)) != len(names):
            dup = [x for x in names if M[x].name != x]
            rep.violation(f"C14/enum-alias:{me}", f"model enum {me} has aliases {dup} (two names for one value)", {"kind": "impl-case", "enum": me})
        for x in M:
            if int(x) not in wire_numbers and me not in exceptions:
                rep.violation(f"C14/enum-extra:{me}", f"model enum {me}.{x.name}={int(x)} has no counterpart in wire enum {we}", {"kind": "impl-case", "enum": me})
    for pbn, mn, fs, wf in class_pairs:
        extra = sorted({n for n, _ in fs} - set(wf))
        missing = sorted(set(wf) - {n for n, _ in fs})
        if extra:
            try:
                getattr(model, mn).from_pb(getattr(pb, pbn)())
                note = "from_pb still works"
            except Exception as e:  # noqa
                note = f"from_pb raises {type(e).__name__}: {e}"
            rep.violation(f"C14/fields-extra:{mn}", f"model class {mn} has fields {extra} that wire message {pbn} lacks ({note})", {"kind": "impl-case", "class": mn})
        if missing:
            rep.violation(f"C14/fields-missing:{mn}", f"wire message {pbn} fields {missing} have no counterpart in model class {mn}: their values are dropped", {"kind": "impl-case", "class": mn})

    # ---- fix_float: bit-exact against the extracted model
    inputs = [0.0, -0.0, float("inf"), float("-inf"), float("nan")]
    for k in range(-45, 39):
        base = struct.unpack("<I", struct.pack("<f", float(10.0 ** k) if -45 <= k <= 38 else 0.0))[0]
        for d in (-3, -2, -1, 0, 1, 2, 3):
            inputs.append(f32(base + d))
            inputs.append(-f32(base + d))
    n_rand = 3000 if tier == "quick" else 30000
    inputs += [f32(rng.getrandbits(32)) for _ in range(n_rand)]
    inputs += [f32((e << 23) | rng.getrandbits(23)) for e in range(1, 255, 2 if tier == "quick" else 1) for _ in range(3)]
    lines, fin = [], []
    for x in inputs:
        if math.isfinite(x):
            n, m, e = decomp(x)
            lines.append(f"fixf {int(n)} {m} {e}")
            fin.append(x)
    mout = common.run_driver(lines)
    fdis = []
    for x, mo in zip(fin, mout):
        y = fix(x)
        sg, m, e = mo.split()
        want = frac(sg == "1", int(m), int(e))
        rep.case(("fix", struct.pack("<d", x)), nontrivial=(y != x), sample=None)
        rep.bump("fix_float")
        if not math.isfinite(y) or Fraction(y) != want or (math.copysign(1, y) < 0) != (sg == "1"):
            fdis.append({"input": x.hex(), "impl": y.hex() if isinstance(y, float) else repr(y), "model": mo})
        # the property's own clauses, on the implementation
        if x != 0:
            absx = abs(Fraction(x))
            k = 0
            while Fraction(10) ** k < absx:
                k += 1
            while Fraction(10) ** (k - 1) >= absx:
                k -= 1
            if abs(Fraction(y) - Fraction(x)) > Fraction(10) ** (k - 7) / 2 + abs(Fraction(y)) / 2 ** 52:
                rep.violation("C14/fix-float-error", f"fix_float({x.hex()}) = {y.hex()} is further than half a unit of the 7th significant digit from its input", {"kind": "impl-case", "float": x.hex()})
            if (y < 0) != (x < 0) and y != 0:
                rep.violation("C14/fix-float-sign", f"fix_float({x.hex()}) = {y.hex()} changes the sign", {"kind": "impl-case", "float": x.hex()})
        if fix(y) != y:
            rep.violation("C14/fix-float-idempotence", f"fix_float is not idempotent on {x.hex()}: {y.hex()} -> {fix(y).hex()} (to_dict/from_dict would not round-trip)", {"kind": "impl-case", "float": x.hex()})
    for x in (0.0, -0.0, float("inf"), float("-inf")):
        if fix(x) != x or math.copysign(1, fix(x)) != math.copysign(1, x):
            rep.violation("C14/fix-float-special", f"fix_float({x}) = {fix(x)}", {"kind": "impl-case", "float": repr(x)})
    if not math.isnan(fix(float("nan"))):
        rep.violation("C14/fix-float-special", "fix_float(nan) is not nan", {"kind": "impl-case", "float": "nan"})
    rep.coverage["float_inputs"] = len(fin)

    # ---- conversions
    n_msgs = 12 if tier == "quick" else 150
    lines, cases = [], []
    by_model = {mn: fs for _, mn, fs, _ in class_pairs}
    for pbn, mn, fs, wf in class_pairs:
        pbcls, mocls = getattr(pb, pbn), getattr(model, mn)
        kinds = dict(fs)
        for i in range(n_msgs):
            msg = fill_message(rng, pbcls) if i else pbcls()
            if i in (1, 2):
                msg = vary_nested(rng, msg)
            if i == 3:
                msg = with_unknown_enums(msg)
            replay = {"kind": "impl-case", "class": mn, "message": pbn, "serialized": msg.SerializeToString().hex()}
            try:
                obj = mocls.from_pb(msg)
            except Exception as e:  # noqa
                rep.violation(f"C14/from_pb-raises:{mn}", f"{mn}.from_pb raised {type(e).__name__}: {e} on a valid {pbn}", replay)
                continue
            nontriv = False
            for n, k in fs:
                if not hasattr(msg, n):
                    continue
                wv = getattr(msg, n)
                got = getattr(obj, n)
                if k[0] == "KNestedList":
                    sub = getattr(model, k[1])
                    if len(got) != len(wv) or not all(isinstance(g, sub) for g in got):
                        rep.violation(f"C14/nested:{mn}.{n}", f"{mn}.{n}: {len(wv)} nested wire messages became {got!r}", replay)
                        continue
                    # ... and every nested element carries the values of ITS wire message (whatever its siblings and earlier messages held)
                    sub_fs = by_model.get(k[1])
                    if sub_fs is None:
                        # a nested class outside the two tables: plain fields are carried as they are, enum fields by number
                        import dataclasses as _dc
                        import enum as _enum
                        for j, (g, w) in enumerate(zip(got, wv)):
                            for fld in _dc.fields(g):
                                if not hasattr(w, fld.name):
                                    continue
                                gv, wvv = getattr(g, fld.name), getattr(w, fld.name)
                                if isinstance(gv, _enum.Enum):
                                    okv = int(gv) == int(wvv)
                                elif isinstance(gv, (bool, int, str, bytes)) and not isinstance(gv, _enum.Enum):
                                    okv = gv == wvv
                                else:
                                    continue
                                if not okv:
                                    rep.violation(f"C14/value:{mn}.{n}.{fld.name}", f"{mn}.{n}[{j}].{fld.name}: wire value {str(wvv)[:60]!r} was converted to {str(gv)[:60]!r}", replay)
                        continue
                    for j, (g, w) in enumerate(zip(got, wv)):
                        for sn, sk in (sub_fs or []):
                            if not hasattr(w, sn) or sk[0] == "KNestedList":
                                continue
                            sexp = oracle_field(sk, getattr(w, sn), members, fix)
                            if not same(getattr(g, sn), sexp):
                                rep.violation(f"C14/value:{mn}.{n}.{sn}", f"{mn}.{n}[{j}].{sn}: wire value {str(getattr(w, sn))[:60]!r} was converted to "
                                              f"{str(getattr(g, sn))[:60]!r}, expected {str(sexp)[:60]!r}", replay)
                    continue
                exp = oracle_field(k, wv, members, fix)
                if k[0] in ("KEnum", "KEnumList", "KFloatFix") or isinstance(exp, list):
                    nontriv = True
                if not same(got, exp):
                    rep.violation(f"C14/value:{mn}.{n}", f"{mn}.{n}: wire value {str(wv)[:60]!r} was converted to {str(got)[:60]!r}, expected {str(exp)[:60]!r}", replay)
            # the model is a snapshot: what the caller does to ITS message afterwards (append to / empty a repeated field, clear and
            # refill the message for the next entity) does not show in a model converted earlier
            try:
                msg2 = pbcls()
                msg2.CopyFrom(msg)
                obj2 = mocls.from_pb(msg2)
                snap = plain(obj2)
                for fd in msg2.DESCRIPTOR.fields:
                    if fd.is_repeated and fd.type != 11:
                        cont = getattr(msg2, fd.name)
                        if len(cont):
                            cont.append(cont[0])
                            cont[0] = cont[0] + "~" if fd.type == 9 else cont[-1]
                        else:
                            cont.append("~" if fd.type == 9 else b"~" if fd.type == 12 else 1)
                changed = [k for k, v in plain(obj2).items() if v != snap[k]] if isinstance(snap, dict) else []
                msg2.Clear()
                changed += [k for k, v in plain(obj2).items() if v != snap[k] and k not in changed] if isinstance(snap, dict) else []
                if changed:
                    rep.violation(f"C14/value-not-kept:{mn}", f"{mn}.from_pb(msg): after the caller modified / cleared its message the model's field(s) {changed[:4]} changed with it "
                                  f"({[(snap[k], plain(getattr(obj2, k))) for k in changed][:2]!r:.300}): the model does not hold the values the message had when it was converted", replay)
            except Exception as e:  # noqa
                rep.violation(f"C14/value-not-kept:{mn}", f"{mn}: modifying the wire message after conversion raised {type(e).__name__}: {e}", replay)
            # to_dict / from_dict
            try:
                back = mocls.from_dict(obj.to_dict())
                if back != obj and not any(isinstance(getattr(obj, n), float) and math.isnan(getattr(obj, n)) for n, _ in fs):
                    diff = [n for n, _ in fs if getattr(back, n) != getattr(obj, n)]
                    rep.violation(f"C14/dict-roundtrip:{mn}", f"{mn}.from_dict(to_dict(x)) differs from x in fields {diff}: {[(getattr(obj, n), getattr(back, n)) for n in diff][:3]}", replay)
            except Exception as e:  # noqa
                rep.violation(f"C14/dict-roundtrip:{mn}", f"{mn}.from_dict(to_dict(x)) raised {type(e).__name__}: {e}", replay)
            rep.case((mn, msg.SerializeToString()), nontrivial=nontriv, sample={"class": mn, "message": str(msg)[:120].replace("\n", " ")} if i == 1 else None)
            rep.bump("class:" + mn)
            rep.coverage["traces_validated_against_impl"] += 1
            # extracted model on the same record (nested-list fields left out: identity in the model)
            flat = [(n, k) for n, k in fs if k[0] != "KNestedList" and hasattr(msg, n)]
            if flat:
                used = sorted({k[1] for _, k in flat if k[0] in ("KEnum", "KEnumList")})
                enums = ";".join(f"{e}=" + ",".join(map(str, members[e])) for e in used) or "-"
                fields = ",".join(f"{n}:{KIND[k[0]]}" + (f".{k[1]}" if len(k) > 1 else "") for n, k in flat)
                record = ";".join(f"{n}={enc_value(getattr(msg, n))}" for n, _ in flat)
                lines.append(f"frompb {enums} {fields} {record}")
                cases.append((mn, flat, obj, replay))
    mout = common.run_driver(lines) if lines else []
    cdis = []
    for (mn, flat, obj, replay), mo in zip(cases, mout):
        if mo == "NONE" or mo.startswith("!"):
            cdis.append({"class": mn, "model": mo, "case": replay})
            continue
        got = dict(f.split("=", 1) for f in mo.split(";"))
        for n, k in flat:
            a = parse_value(got[n])
            b = parse_value(enc_value(getattr(obj, n)))
            if a != b:
                cdis.append({"class": mn, "field": n, "model": got[n][:80], "impl": enc_value(getattr(obj, n))[:80], "case": replay})
                break
    # ---- presentation of a float must be a function of the wire value alone (zero keeps its sign whatever was converted before)
    from aioesphomeapi.model_conversions import SUBSCRIBE_STATES_RESPONSE_TYPES
    seqs = [[0.0, -0.0, 0.0, -0.0], [-0.0, 0.0, -0.0], [1.5, -0.0, 0.0, 1.5, -1.5], [float("inf"), -0.0, float("-inf"), 0.0]]
    hist_bad = None
    for wire, mdl in SUBSCRIBE_STATES_RESPONSE_TYPES.items():
        for fd in wire.DESCRIPTOR.fields:
            if fd.type != fd.TYPE_FLOAT or fd.is_repeated or fd.name not in {f.name for f in dataclasses.fields(mdl)}:
                continue
            for seq in seqs:
                got = [getattr(mdl.from_pb(wire(**{fd.name: x})), fd.name) for x in seq]
                rep.case(("float-history", wire.__name__, fd.name, tuple(struct.pack(">f", x) for x in seq)), True,
                         sample={"float_history": f"{mdl.__name__}.{fd.name}", "wire": [repr(x) for x in seq], "presented": [repr(x) for x in got]})
                rep.bump("float-history")
                if hist_bad is None and any(not same_value(float(g), float(x)) for g, x in zip(got, seq)):
                    hist_bad = (mdl.__name__, fd.name, seq, got)
    if hist_bad is not None:
        cn, fn, seq, got = hist_bad
        rep.violation("C14/float/history", f"{cn}.{fn} for the wire values {[repr(x) for x in seq]} converted in this order is presented as {[repr(g) for g in got]} "
                      "(zero and the infinities are presented unchanged - the sign of zero included - whatever was converted before)",
                      {"kind": "impl-case", "variant": "float-history", "class": cn, "field": fn, "sequence": [repr(x) for x in seq]})
    # ---- the same conversions as the public client hands them out
    for k in range(2 if tier == "quick" else 12):
        bad, n = client_conversion_case(seed + 1000 + k, 3 if tier == "quick" else 6)
        rep.case(("client-conversion", k), True, sample={"client_conversion_messages": n, "problems": bad[:2]})
        rep.bump("client-conversion", n)
        for path, cls, what in bad[:1]:
            rep.violation(f"C14/client/{path}", f"APIClient.{path} ({cls}): {what}", {"kind": "impl-case", "variant": "client-conversion", "seed": seed + 1000 + k,
                                                                                   "n_per_class": 3 if tier == "quick" else 6})
    rep.coverage["disagreements"] = len(fdis) + len(cdis)
    if (fdis or cdis) and not rep.violations:
        rep.violations.append(("C14/correspondence", "the extracted conversion / float model and the implementation disagree; no violation of C14 found among the explored inputs",
                               {"kind": "no-failing-input-found", "obligation": "correspondence Convert.from_pb / FloatFix.fix_float ~ model.py, util.py",
                                "first_disagreements": (fdis + cdis)[:4]}))
    if not proofs_ok and not rep.violations:
        rep.proof_broken(rep.broken[0], rep.broken[1])


def replay(path):
    common.setup_impl_path()
    d = json.loads(open(path).read())["replay"]
    from aioesphomeapi import api_pb2 as pb, model
    if "serialized" in d:
        msg = getattr(pb, d["message"])()
        msg.ParseFromString(bytes.fromhex(d["serialized"]))
        print(msg)
        try:
            obj = getattr(model, d["class"]).from_pb(msg)
            print(obj)
            print(getattr(model, d["class"]).from_dict(obj.to_dict()) == obj)
        except Exception as e:  # noqa
            print("raises", type(e).__name__, e)
            return 1
    else:
        print(d)
    return 0
