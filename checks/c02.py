"""C02 — everything the client writes conforms to the documented wire format.

Proof: coq/Properties/C02.v.  Tie: correspondence of the extracted writers with the real
write_packets (plaintext and Noise, the latter through an independent responder holding the keys) and
with APIConnection.send_messages over SimNet; the documented format is checked directly on the bytes
the implementation wrote (own decoders + the extracted Coq spec decoder)."""
from vlib.privnames import priv, has_priv
import asyncio
import json
import random
from unittest.mock import MagicMock

from vlib import common, noisesim, simnet
from vlib.common import hexs

VFILE = "Properties/C02.v"
SIZES = [0, 1, 2, 127, 128, 129, 300, 16383, 16384]
BIG = [65514, 65515]


def gen_pkts(rng, ids, big=False):
    n = rng.choice([1, 1, 1, 2, 3, 5, 8])
    out = []
    for _ in range(n):
        ty = rng.choice(ids) if rng.random() < 0.7 else rng.choice([0, 127, 128, 255, 256, 16383, 16384, 65535])
        ln = rng.choice(SIZES) if rng.random() < 0.6 else rng.randrange(0, 200)
        if big and rng.random() < 0.3:
            ln = rng.choice(BIG)
        out.append((ty, rng.randbytes(ln)))
    return out


def plain_impl(pkts):
    from aioesphomeapi._frame_helper.plain_text import APIPlaintextFrameHelper
    h = APIPlaintextFrameHelper(connection=MagicMock(), client_info="x", log_name="x")
    tr = MagicMock()
    writes = []
    tr.write.side_effect = lambda d: writes.append(bytes(d))
    h.connection_made(tr)
    h.write_packets(pkts, False)
    first = list(writes)
    # the same batch with debug logging on: what reaches the transport must not depend on it
    del writes[:]
    h.write_packets(pkts, True)
    if writes != first:
        return first + writes      # more than one write for "one batch": reported by the caller
    return first


def noise_session(rng, calls, name=b"dev"):
    """Establish a real Noise session against the independent responder, run write calls.
    Returns (ops text for the model, impl per-op symbolic lines, property problems)."""
    psk = rng.randbytes(32)
    resp = noisesim.Responder(psk, name)
    sess = noisesim.ImplSession(noisesim.b64(psk), None)
    problems = []
    sess.op("made")
    hello_write = sess.writes[0]
    frames = noisesim.split_frames(hello_write)
    if frames[0] != b"" or frames[1][:1] != b"\x00":
        problems.append(("hello", "client hello/handshake write malformed"))
    hs_frame, hs_resp = resp.handshake_frames(frames[1][1:])
    sess.op("data", resp.hello_frame() + hs_frame)
    ops = ["made", "data=" + noisesim.sym_text(list(resp.hello_frame()) + [1, 0, 49, 0] + [noisesim.SYM_HS_RESP] * 48)]
    sym_writes = []
    for pkts in calls:
        n0 = len(sess.writes)
        sess.op("write", pkts)
        ops.append("write=" + ",".join(f"{t:x}:{hexs(p)}" for t, p in pkts))
        new = sess.writes[n0:]
        if len(new) != 1:
            problems.append(("single_write", f"{len(new)} transport writes for one write_packets call"))
        sym = []
        data = b"".join(new)
        try:
            fr = noisesim.split_frames(data)
        except ValueError as e:
            problems.append(("framing", str(e)))
            fr = []
        if len(fr) != len(pkts):
            problems.append(("count", f"{len(fr)} frames for {len(pkts)} packets"))
        for f, (ty, pl) in zip(fr, pkts):
            n = resp.recv_n
            try:
                pt = resp.decrypt_client_frame(f)
            except Exception:
                problems.append(("nonce", f"frame does not authenticate under consecutive nonce {n}"))
                sym += [1, (len(f) >> 8) & 255, len(f) & 255] + [noisesim.SYM_POISON] * len(f)
                continue
            exp = bytes([ty >> 8 & 255, ty & 255, len(pl) >> 8 & 255, len(pl) & 255]) + pl
            if pt != exp:
                problems.append(("inner", f"decrypted inner frame differs for type {ty} len {len(pl)}"))
            sym += [1, (len(f) >> 8) & 255, len(f) & 255] + noisesim.sym_ct(noisesim.DIR_C2S, n, pt)
        sym_writes.append(sym)
    # impl line in the model's format
    per_op = []
    per_op.append("W:" + noisesim.sym_text(list(hello_write[:7]) + [noisesim.SYM_HS_INIT] * (len(hello_write) - 7)))
    per_op.append("RDY")
    for sw in sym_writes:
        per_op.append("W:" + noisesim.sym_text(sw))
    st, buf, dn, en = sess.state()
    impl_line = "|".join(per_op) + f" state={st} buf={noisesim.sym_text(list(buf))} nonces={dn:x},{en:x}"
    return "noise none " + " ".join(ops), impl_line, problems


def oversize_probe(rng, batch):
    """-> (kind, detail).  kind: 'ok' (conforming frames, or a clean refusal), 'misframed' (the known shape of F9: one write whose
    outer headers do not describe the frames), or another word for anything else (partial writes, a refusal that leaves the
    cipher state advanced, ...)."""
    psk = rng.randbytes(32)
    resp = noisesim.Responder(psk, b"dev")
    sess = noisesim.ImplSession(noisesim.b64(psk), None)
    sess.op("made")
    frames = noisesim.split_frames(sess.writes[0])
    hs_frame, _ = resp.handshake_frames(frames[1][1:])
    sess.op("data", resp.hello_frame() + hs_frame)
    n0 = len(sess.writes)
    evs = sess.op("write", batch)
    raised = [e for e in evs if isinstance(e, str) and e.startswith("RAISE:")]
    new = sess.writes[n0:]
    if raised:
        if new:
            return "partial-write", f"raised {raised[0]} after {len(new)} transport write(s)"
        # a refusal: the session must go on as if the call had not happened
        n1 = len(sess.writes)
        evs2 = sess.op("write", [(7, b"\x08\x01")])
        after = sess.writes[n1:]
        if [e for e in evs2 if isinstance(e, str) and e.startswith("RAISE:")] or len(after) != 1:
            return "refusal-breaks-session", f"after the refused batch ({raised[0]}) an ordinary write_packets did not produce one write"
        try:
            fr = noisesim.split_frames(after[0])
            pt = resp.decrypt_client_frame(fr[0])
        except Exception:  # noqa: BLE001
            return "nonce-after-refusal", (f"the batch was refused ({raised[0]}, nothing written) but the next ordinary frame does not authenticate "
                                           f"under the next unused nonce {resp.recv_n}: the refusal consumed cipher state")
        if pt[:2] != b"\x00\x07":
            return "inner-after-refusal", "the frame written after a refused batch decrypts to something else"
        return "ok", f"refused cleanly ({raised[0]})"
    if len(new) != 1:
        return "writes", f"{len(new)} transport writes for one write_packets call"
    try:
        fr = noisesim.split_frames(new[0])
        ok = len(fr) == len(batch)
    except ValueError as e:
        return "misframed", f"the bytes written cannot be split into frames ({e}); nothing raised"
    if not ok:
        return "misframed", f"{len(fr)} frames for {len(batch)} packets; nothing raised"
    for f, (ty, pl) in zip(fr, batch):
        try:
            pt = resp.decrypt_client_frame(f)
        except Exception:  # noqa: BLE001
            return "misframed", "a frame of the batch does not authenticate / is cut by its header; nothing raised"
        if pt[4:] != pl:
            return "misframed", "a frame of the batch carries another payload than the one supplied; nothing raised"
    return "ok", "conforming frames"


def flow_control_probe(kind, rng, ids):
    """A transport that signals back-pressure (pause_writing ... resume_writing) while batches are written: each write_packets
    call must still hand exactly one write to the transport before it returns, in call order."""
    loop = asyncio.new_event_loop()
    asyncio.set_event_loop(loop)
    try:
        if kind == "plaintext":
            from aioesphomeapi._frame_helper.plain_text import APIPlaintextFrameHelper
            h = APIPlaintextFrameHelper(connection=MagicMock(), client_info="x", log_name="x")
            tr = MagicMock()
            writes = []
            tr.write.side_effect = lambda d: writes.append(bytes(d))
            h.connection_made(tr)
            decode = lambda d: simnet.decode_plain_stream(d)  # noqa: E731
        else:
            psk = rng.randbytes(32)
            resp = noisesim.Responder(psk, b"dev")
            sess = noisesim.ImplSession(noisesim.b64(psk), None)
            sess.op("made")
            frames = noisesim.split_frames(sess.writes[0])
            hs_frame, _ = resp.handshake_frames(frames[1][1:])
            sess.op("data", resp.hello_frame() + hs_frame)
            h, writes = sess.helper, sess.writes
            del writes[:]

            def decode(d):
                out = []
                for f in noisesim.split_frames(d):
                    pt = resp.decrypt_client_frame(f)      # raises when the nonce is not the next one
                    out.append((pt[0] << 8 | pt[1], pt[4:]))
                return out
        schedule, detail = [], []
        n = rng.randrange(3, 8)
        pauses = sorted(rng.sample(range(n), 2))
        for i in range(n):
            if i == pauses[0]:
                schedule.append(("pause",))
            if i == pauses[1]:
                schedule.append(("resume",))
            schedule.append(("write", [(rng.choice(ids), rng.randbytes(rng.choice([0, 1, 5, 300]))) for _ in range(rng.choice([1, 1, 2, 3]))]))
            if rng.random() < 0.3:
                schedule.append(("turn",))
        schedule.append(("turn",))
        bad = None
        for step in schedule:
            if step[0] == "pause":
                h.pause_writing()
                detail.append("pause_writing")
            elif step[0] == "resume":
                h.resume_writing()
                detail.append("resume_writing")
            elif step[0] == "turn":
                loop.run_until_complete(asyncio.sleep(0))
                loop.run_until_complete(asyncio.sleep(0))
                detail.append("loop turn")
            else:
                n0 = len(writes)
                h.write_packets(step[1], False)
                new = writes[n0:]
                detail.append(f"write_packets {[(t, len(p)) for t, p in step[1]]} -> {len(new)} write(s)")
                if len(new) != 1:
                    bad = bad or f"{len(new)} transport writes by the time write_packets returned (one is due)"
                else:
                    try:
                        if decode(new[0]) != step[1]:
                            bad = bad or "the write does not carry the batch just given"
                    except Exception as e:  # noqa: BLE001
                        bad = bad or f"the write does not decode / authenticate in order: {type(e).__name__}"
        return bad, detail
    finally:
        loop.close()
        asyncio.set_event_loop(asyncio.new_event_loop())


def neighbour_probe(kind, rng, ids):
    """Two sessions alive in one process. A write on the first is refused by its transport (RuntimeError out of transport.write, as a
    closing transport does); the next ordinary batch on the SECOND session must still be one write that decodes to exactly that
    batch (under that session's next nonce). Returns a problem text or None."""
    def fail(_d):
        raise RuntimeError("transport is closing")
    batch_a = [(75, rng.randbytes(30)), (33, b"\x08\x07")]
    batch_b = gen_pkts(rng, ids)
    if kind == "plaintext":
        from aioesphomeapi._frame_helper.plain_text import APIPlaintextFrameHelper
        hs, trs, ws = [], [], []
        for _ in range(2):
            h = APIPlaintextFrameHelper(connection=MagicMock(), client_info="x", log_name="x")
            tr, w = MagicMock(), []
            tr.write.side_effect = lambda d, w=w: w.append(bytes(d))
            h.connection_made(tr)
            hs.append(h); trs.append(tr); ws.append(w)
        hs[0].write_packets([(7, b"")], False)
        hs[1].write_packets([(7, b"")], False)
        trs[0].write.side_effect = fail
        try:
            hs[0].write_packets(batch_a, False)
            return "a write the transport refused did not raise"
        except Exception:  # noqa: BLE001
            pass
        n0 = len(ws[1])
        hs[1].write_packets(batch_b, False)
        new = ws[1][n0:]
        if len(new) != 1:
            return f"{len(new)} transport writes for one batch on the second session"
        try:
            dec = simnet.decode_plain_stream(new[0])
        except (ValueError, IndexError) as e:
            return f"second session: bytes do not decode ({e})"
        if dec != batch_b:
            return (f"after a refused write on ANOTHER plaintext session the second session wrote {[(t, len(p)) for t, p in dec][:6]} "
                    f"for the batch {[(t, len(p)) for t, p in batch_b][:6]}")
        return None
    sessions = []
    for _ in range(2):
        psk = rng.randbytes(32)
        resp = noisesim.Responder(psk, b"dev")
        sess = noisesim.ImplSession(noisesim.b64(psk), None)
        sess.op("made")
        hs_frame, _ = resp.handshake_frames(noisesim.split_frames(sess.writes[0])[1][1:])
        sess.op("data", resp.hello_frame() + hs_frame)
        sess.op("write", [(7, b"")])
        resp.decrypt_client_frame(noisesim.split_frames(sess.writes[-1])[0])
        sessions.append((sess, resp))
    (sa, _ra), (sb, rb) = sessions
    keep = sa.transport.write.side_effect
    sa.transport.write.side_effect = fail
    sa.op("write", batch_a)
    sa.transport.write.side_effect = keep
    n0 = len(sb.writes)
    sb.op("write", batch_b)
    new = sb.writes[n0:]
    if len(new) != 1:
        return f"{len(new)} transport writes for one batch on the second session"
    try:
        fr = noisesim.split_frames(new[0])
        got = []
        for f in fr:
            pt = rb.decrypt_client_frame(f)
            got.append(((pt[0] << 8) | pt[1], pt[4:]))
    except Exception as e:  # noqa: BLE001
        return f"after a refused write on ANOTHER Noise session the second session's frames do not authenticate under its next nonce ({type(e).__name__})"
    if got != batch_b:
        return f"second Noise session wrote {[(t, len(p)) for t, p in got][:6]} for the batch {[(t, len(p)) for t, p in batch_b][:6]}"
    return None


def refused_batch_history_probe(rng):
    """A real APIConnection over Noise against the independent responder; send_messages calls of which some are refused because a
    message of the batch has no wire id (first / middle / last position). Every frame the client writes over the whole session
    must authenticate under the next consecutive nonce, and every accepted call must be one write decoding to exactly its
    messages. Returns a problem text or None."""
    from vlib import simnet as _simnet

    async def go(loop):
        from aioesphomeapi import api_pb2 as pb
        from aioesphomeapi.connection import APIConnection, ConnectionParams
        from aioesphomeapi.core import MESSAGE_TYPE_TO_PROTO as _M2P
        PROTO_TO_MESSAGE_TYPE = {v: k for k, v in _M2P.items()}
        from aioesphomeapi.zeroconf import ZeroconfManager
        net = _simnet.Net(loop)
        psk = rng.randbytes(32)
        params = ConnectionParams(addresses=["10.0.0.1"], port=6053, password=None, client_info="v", keepalive=20.0,
                                  zeroconf_manager=ZeroconfManager(), noise_psk=noisesim.b64(psk), expected_name=None)
        conn = APIConnection(params, lambda e: None, False, None)
        with net.patched():
            await conn.start_connection()
            task = asyncio.ensure_future(conn.finish_connection(login=False))
            await _simnet.drain(loop)
            tr = net.transports[-1]
            resp = noisesim.Responder(psk, b"dev")
            first = b"".join(d for _, d in tr.writes)
            hs, _ = resp.handshake_frames(noisesim.split_frames(first)[1][1:])
            n_hs = len(tr.writes)
            tr.feed(resp.hello_frame() + hs)
            await _simnet.drain(loop)
            tr.feed(resp.data_frame(2, pb.HelloResponse(api_version_major=1, api_version_minor=10, name="dev").SerializeToString())[0])
            await _simnet.drain(loop)
            await task
            for _, d in tr.writes[n_hs:]:
                for f in noisesim.split_frames(d):
                    resp.decrypt_client_frame(f)          # the hello request
            ok_a = pb.SwitchCommandRequest(key=7, state=True)
            ok_b = pb.LightCommandRequest(key=9, has_state=True, state=True)
            ok_c = pb.BluetoothGATTWriteRequest(address=1, handle=2, data=b"\x01" * 30)
            noid = pb.BluetoothServiceData(uuid="x")
            assert type(noid) not in PROTO_TO_MESSAGE_TYPE
            calls = [(ok_a,), (ok_a, ok_b), (noid,), (ok_c,), (ok_a, ok_b, noid), (ok_b,), (ok_a, noid, ok_b), (noid, ok_a), (ok_c, ok_a), (ok_a,)]
            problem = None
            for k, batch in enumerate(calls):
                n0 = len(tr.writes)
                refused = None
                try:
                    conn.send_messages(batch)
                except Exception as e:  # noqa: BLE001
                    refused = type(e).__name__
                new = [d for _, d in tr.writes[n0:]]
                got = []
                try:
                    for d in new:
                        for f in noisesim.split_frames(d):
                            n = resp.recv_n
                            pt = resp.decrypt_client_frame(f)
                            got.append(((pt[0] << 8) | pt[1], pt[4:]))
                except Exception:  # noqa: BLE001
                    problem = (f"call {k} ({[type(m).__name__ for m in batch]}{', refused with ' + refused if refused else ''}): a frame written does not authenticate under "
                               f"the next consecutive nonce {n} (an earlier refused batch consumed cipher state)")
                    break
                if refused is None:
                    want = [(PROTO_TO_MESSAGE_TYPE[type(m)], m.SerializeToString()) for m in batch]
                    if len(new) != 1 or got != want:
                        problem = f"call {k} ({[type(m).__name__ for m in batch]}): {len(new)} write(s) decoding to {[(t, len(p)) for t, p in got]}, expected one write with {[(t, len(p)) for t, p in want]}"
                        break
                if not conn.is_connected:
                    problem = f"call {k} ({[type(m).__name__ for m in batch]}, {refused}): the connection did not survive"
                    break
            conn.force_disconnect()
            await _simnet.drain(loop)
        return problem
    return _simnet.run(go)


def inside_read_probe(helper):
    """Batches that are sent while a read is being parsed - the connection's own answers to PingRequest / GetTimeRequest, a command
    an application callback sends - on a real APIConnection: each is its own single write, handed to the transport before
    data_received returns, also when the read ends in the middle of the next frame; and batches sent afterwards are written at once.
    Returns a problem text or None."""
    from vlib import simnet as _simnet

    async def go(loop):
        from aioesphomeapi import api_pb2 as pb
        from aioesphomeapi.connection import APIConnection, ConnectionParams
        from aioesphomeapi.zeroconf import ZeroconfManager
        net = _simnet.Net(loop)
        psk = bytes(range(1, 33))
        params = ConnectionParams(addresses=["10.0.0.1"], port=6053, password=None, client_info="v", keepalive=20.0,
                                  zeroconf_manager=ZeroconfManager(), noise_psk=noisesim.b64(psk) if helper == "noise" else None, expected_name=None)
        conn = APIConnection(params, lambda e: None, False, None)
        with net.patched():
            await conn.start_connection()
            task = asyncio.ensure_future(conn.finish_connection(login=False))
            await _simnet.drain(loop)
            tr = net.transports[-1]
            resp = None
            if helper == "noise":
                resp = noisesim.Responder(psk, b"dev")
                hs, _ = resp.handshake_frames(noisesim.split_frames(b"".join(d for _, d in tr.writes))[1][1:])
                n_hs = len(tr.writes)
                tr.feed(resp.hello_frame() + hs)
                await _simnet.drain(loop)
                frame = lambda i, p=b"": resp.data_frame(i, p)[0]  # noqa: E731
            else:
                n_hs = 0
                frame = lambda i, p=b"": _simnet.plain_frame(i, p)  # noqa: E731
            tr.feed(frame(2, pb.HelloResponse(api_version_major=1, api_version_minor=10, name="dev").SerializeToString()))
            await _simnet.drain(loop)
            await task
            if resp is not None:
                for _, d in tr.writes[n_hs:]:
                    for f in noisesim.split_frames(d):
                        resp.decrypt_client_frame(f)

            def decode(writes):
                out = []
                for d in writes:
                    if resp is None:
                        out.append([t for t, _ in _simnet.decode_plain_stream(d)])
                    else:
                        ids = []
                        for f in noisesim.split_frames(d):
                            pt = resp.decrypt_client_frame(f)
                            ids.append((pt[0] << 8) | pt[1])
                        out.append(ids)
                return out
            conn.add_message_callback(lambda m: conn.send_messages((pb.SwitchCommandRequest(key=m.key, state=True),)), (pb.SensorStateResponse,))
            def steps_in_order():
                # frames are produced in the order in which they are fed (a Noise responder's nonces are consecutive)
                yield "a PingRequest and a GetTimeRequest in one read", frame(7) + frame(36), [[8], [37]]
                ping = frame(7)
                nxt = frame(25, pb.SensorStateResponse(key=4, state=2.0).SerializeToString())
                yield "a PingRequest followed by the first bytes of the next frame", ping + nxt[:2], [[8]]
                yield "the rest of that frame (a state message whose subscriber sends a command)", nxt[2:], [[33]]
                state = frame(25, pb.SensorStateResponse(key=3, state=1.0).SerializeToString())
                ping2 = frame(7)
                yield "a state message whose subscriber sends a command, followed by one byte of the next frame", state + ping2[:1], [[33]]
                yield "the rest of that PingRequest", ping2[1:], [[8]]
            for what, data, want in steps_in_order():
                n0 = len(tr.writes)
                r = tr.feed(data)
                got_now = [d for _, d in tr.writes[n0:]]       # before the loop runs anything else
                if isinstance(r, BaseException):
                    return f"{helper}: {what}: {type(r).__name__} escaped from data_received"
                try:
                    ids = decode(got_now)
                except Exception as e:  # noqa: BLE001
                    return f"{helper}: {what}: what was written does not decode / authenticate in order ({type(e).__name__})"
                if ids != want:
                    await _simnet.drain(loop)
                    later = len(tr.writes) - n0 - len(got_now)
                    return (f"{helper}: {what}: when data_received returned the transport had been handed the writes {ids} (message ids per write), "
                            f"expected {want}; {later} more write(s) came later")
                await _simnet.drain(loop)
                if len(tr.writes) != n0 + len(got_now):
                    return f"{helper}: {what}: {len(tr.writes) - n0 - len(got_now)} further write(s) appeared after data_received had returned"
            n0 = len(tr.writes)
            conn.send_messages((pb.SwitchCommandRequest(key=9, state=False),))
            if decode([d for _, d in tr.writes[n0:]]) != [[33]]:
                return f"{helper}: a command sent after these reads was not written at once as one write"
            conn.force_disconnect()
            await _simnet.drain(loop)
        return None
    return _simnet.run(go)


def run(rep, tier, seed):
    rng = random.Random(seed)
    asyncio.set_event_loop(asyncio.new_event_loop())
    rep.coverage["rule"] = (
        "plaintext + Noise write_packets on packet batches (every registered id; payload sizes 0/1/127/128/16383/16384/65514/65515 and random; "
        "batches of 1-8) and Noise sessions of consecutive write calls (nonce continuity), plus APIConnection.send_messages for every registered "
        "message class over SimNet (all-default and populated instances, in both orders), and write_packets under pause_writing/resume_writing; non-trivial = batch with a multi-byte varint or >1 packet, or a Noise session with >=2 calls; distinct by sha1 of the case")
    from translate import all as translate_all
    translate_all.run_all()
    proofs_ok = rep.proofs(VFILE)
    ok, log = common.build_driver()
    if not ok:
        raise RuntimeError("driver build failed: " + log[-2000:])
    from aioesphomeapi.core import MESSAGE_TYPE_TO_PROTO
    ids = sorted(MESSAGE_TYPE_TO_PROTO)
    disagreements = []

    # ---- plaintext helper
    n_plain = 600 if tier == "quick" else 6000
    cases = [[(i, b"")] for i in ids] + [[(i, bytes(130))] for i in ids[::7]]
    cases += [gen_pkts(rng, ids, big=(k % 40 == 0)) for k in range(n_plain)]
    lines = ["plain_write " + " ".join(f"{t:x}:{hexs(p)}" for t, p in pk) for pk in cases]
    model = common.run_driver(lines)
    impl_bytes = []
    for pk, mo in zip(cases, model):
        w = plain_impl(pk)
        data = b"".join(w)
        impl_bytes.append(data)
        nontriv = len(pk) > 1 or any(t > 127 or len(p) > 127 for t, p in pk)
        rep.case(("plain", tuple(pk)), nontriv, sample={"kind": "plain", "pkts": [(t, len(p)) for t, p in pk], "bytes": data[:24].hex()})
        rep.bump("plain:pkts=%d" % min(len(pk), 8))
        rep.coverage["traces_validated_against_impl"] += 1
        bad = None
        if len(w) != 1:
            bad = f"{len(w)} transport writes for one batch"
        else:
            try:
                dec = simnet.decode_plain_stream(data)
                if dec != pk:
                    bad = "bytes decode to different packets"
            except (ValueError, IndexError) as e:
                bad = f"bytes do not decode under the documented format: {e}"
        if bad:
            rep.violation("C02/plain", "plaintext write_packets: " + bad,
                          {"kind": "impl-trace", "helper": "plaintext", "packets": [(t, p.hex()) for t, p in pk], "written": [x.hex() for x in w]})
        if hexs(data) != mo:
            disagreements.append({"kind": "plain", "packets": [(t, p.hex()[:60]) for t, p in pk], "impl": data.hex()[:200], "model": mo[:200]})
    # the extracted Coq spec decoder applied to what the implementation wrote
    spec = common.run_driver(["spec_plain " + hexs(d) for d in impl_bytes[:400]])
    for pk, d, sp in zip(cases, impl_bytes, spec):
        exp = ",".join(f"{t:x}:{hexs(p)}" for t, p in pk) or "-"
        if sp != exp:
            rep.violation("C02/plain/spec", "plaintext write does not decode under the Coq specification decoder",
                          {"kind": "impl-trace", "packets": [(t, p.hex()) for t, p in pk], "written": d.hex(), "spec_decoder": sp[:200]})

    # ---- noise helper sessions
    n_sess = 60 if tier == "quick" else 600
    nlines, nimpl, ncases = [], [], []
    for k in range(n_sess):
        calls = [gen_pkts(rng, ids, big=(k % 10 == 0)) for _ in range(rng.choice([1, 2, 3, 5, 12]))]
        if k == 0:
            calls = [[(i, b"\x01")] for i in ids]          # every registered id, one long session
        if k == 1 and tier == "thorough":
            calls = [[(1, b"")] for _ in range(5000)]        # nonce continuity over a long history
        line, impl_line, problems = noise_session(rng, calls)
        nlines.append(line)
        nimpl.append(impl_line)
        ncases.append(calls)
        rep.case(("noise", k, tuple(map(tuple, calls))), len(calls) >= 2,
                 sample={"kind": "noise", "calls": [[(t, len(p)) for t, p in c] for c in calls][:4], "impl": impl_line[:160]})
        rep.bump("noise:calls=%d" % min(len(calls), 12))
        rep.coverage["traces_validated_against_impl"] += 1
        for sig, what in problems:
            rep.violation(f"C02/noise/{sig}", "noise write_packets: " + what,
                          {"kind": "impl-trace", "helper": "noise", "calls": [[(t, p.hex()) for t, p in c] for c in calls][:20]})
    nmodel = common.run_driver(nlines)
    for calls, il, ml in zip(ncases, nimpl, nmodel):
        if il != ml:
            disagreements.append({"kind": "noise", "calls": [[(t, len(p)) for t, p in c] for c in calls][:10], "impl": il[:600], "model": ml[:600]})

    # ---- oversize payloads (known finding F9 for the lone 65516-byte packet: written under a header that does not describe it).
    # Whatever an oversize batch does - a frame the device cannot parse (F9), or a refusal - a refusal must leave the session
    # usable: nothing written, and the next ordinary frame authenticates under the next unused nonce.
    for batch_name, batch in (("65516", [(1, bytes(65516))]), ("small+65516", [(7, b"\x08\x01"), (1, bytes(65516))]), ("65535", [(1, bytes(65535))]),
                              ("70000", [(1, bytes(70000))])):
        kind, detail = oversize_probe(rng, batch)
        rep.case(("oversize", batch_name), True, sample={"oversize_batch": batch_name, "outcome": kind, "detail": detail})
        rep.bump("oversize:" + kind)
        replay = {"kind": "impl-trace", "helper": "noise", "oversize_batch": batch_name}
        if kind == "misframed":
            rep.violation("C02/noise/oversize", "noise write_packets with a payload > 65515 bytes: " + detail, replay)
        elif kind != "ok":
            rep.violation("C02/noise/oversize-" + kind, f"noise write_packets, batch {batch_name}: " + detail, replay)

    # ---- flow control callbacks of the transport must not delay, merge or reorder writes
    for kind in ("plaintext", "noise"):
        for trial in range(6 if tier == "quick" else 40):
            bad, detail = flow_control_probe(kind, rng, ids)
            rep.case(("flow", kind, trial), True, sample={"kind": "flow-control", "helper": kind, "detail": detail[:3]})
            rep.bump("flow:" + kind)
            if bad:
                rep.violation("C02/flow-control", f"{kind} helper, pause_writing/resume_writing around write_packets: {bad}",
                              {"kind": "impl-trace", "helper": kind, "schedule": detail})

    # ---- sessions do not meet: a refused write on one leaves the next batch of another untouched; refused batches leave the nonce sequence intact
    for kind in ("plaintext", "noise"):
        for trial in range(3 if tier == "quick" else 20):
            bad = neighbour_probe(kind, rng, ids)
            rep.case(("neighbour", kind, trial), True, sample={"kind": "two-sessions", "helper": kind, "problem": bad})
            rep.bump("neighbour:" + kind)
            if bad:
                rep.violation("C02/neighbour", f"{kind} helper, two sessions in one process: {bad}", {"kind": "impl-trace", "helper": kind, "probe": "neighbour"})
    for helper in ("plaintext", "noise"):
        bad = inside_read_probe(helper)
        rep.case(("inside-read", helper), True, sample={"kind": "inside-read", "helper": helper, "problem": bad})
        rep.bump("inside-read:" + helper)
        if bad:
            rep.violation("C02/inside-read", "batches sent while a read is being parsed: " + bad, {"kind": "impl-trace", "helper": helper, "probe": "inside-read"})
    bad = refused_batch_history_probe(rng)
    rep.case(("refused-batch-history",), True, sample={"kind": "refused-batch-history", "problem": bad})
    rep.bump("refused-batch-history")
    if bad:
        rep.violation("C02/noise/history", "APIConnection.send_messages over Noise, calls with and without a message that has no wire id: " + bad,
                      {"kind": "impl-trace", "helper": "noise", "probe": "refused-batch-history"})

    # ---- connection level: send_messages = one write, ids from the registry
    def conn_sweep(loop):
        net = simnet.Net(loop)

        async def inner():
            out = []
            with net.patched():
                cli, tr = await simnet.connected_client(loop, net)
                conn = priv(cli, "_connection")
                from checks.c14 import fill_message
                classes = list(MESSAGE_TYPE_TO_PROTO.items())
                batches = [[(i, cls())] for i, cls in classes]
                batches += [[(i, cls()) for i, cls in (classes[rng.randrange(len(classes))] for _ in range(rng.randrange(2, 6)))] for _ in range(40)]
                # populated instances AFTER an all-default instance of the same class went out (and the other way round): what is
                # written must be the message given now, whatever was sent before
                for i, cls in classes:
                    batches.append([(i, fill_message(rng, cls))])
                    batches.append([(i, cls()), (i, fill_message(rng, cls)), (i, cls())])
                for bi, b in enumerate(batches):
                    # debug logging toggled in the middle of the session (every third batch goes out with it on): same writes
                    cli.set_debug(bi % 3 == 1)
                    n0 = len(tr.writes)
                    want = [(i, m.SerializeToString()) for i, m in b]
                    conn.send_messages(tuple(m for _, m in b))
                    out.append(([(i, type(m)) for i, m in b], want, [d for _, d in tr.writes[n0:]]))
                await cli.disconnect(force=True)
            return out
        return inner()
    for b, exp, writes in simnet.run(conn_sweep):
        rep.case(("conn", tuple(i for i, _ in b)), True, sample=None)
        rep.bump("conn:batch=%d" % min(len(b), 6))
        rep.coverage["traces_validated_against_impl"] += 1
        bad = None
        if len(writes) != 1:
            bad = f"{len(writes)} transport writes for one send_messages call"
        else:
            try:
                if simnet.decode_plain_stream(writes[0]) != exp:
                    bad = "written frames do not carry the registered ids / serialised messages"
            except (ValueError, IndexError) as e:
                bad = str(e)
        if bad:
            rep.violation("C02/send_messages", "APIConnection.send_messages: " + bad,
                          {"kind": "impl-trace", "classes": [c.__name__ for _, c in b], "written": [w.hex() for w in writes]})

    rep.coverage["disagreements"] = len(disagreements)
    if disagreements and not rep.violations:
        rep.violations.append(("C02/correspondence", "model and implementation disagree on written bytes; no property violation found among the explored inputs",
                               {"kind": "no-failing-input-found", "obligation": "correspondence write_packets (PlainFrame / NoiseFrame) ~ implementation",
                                "first_disagreements": disagreements[:3]}))
    if not proofs_ok and not rep.violations:
        rep.proof_broken(rep.broken[0], rep.broken[1])


def replay(path):
    d = json.loads(open(path).read())
    print(json.dumps(d, indent=1)[:3000])
    return 1
