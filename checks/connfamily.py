"""Shared engine for the connection family (C05, C07, C08, C12, ...): proofs about Model/Conn.v,
trace validation of the model against the real APIConnection (vlib/conntrace.py), and the property
predicates evaluated directly on the implementation's traces (independent of the model)."""
from __future__ import annotations

import json
import random
import re

from vlib import common, connstories
from vlib.connstories import H, HELLO, CONNECT, DISC_REQ, PING_REQ, TIME_REQ, SWITCH_STATE, SENSOR_STATE, CALLS, CLOSE_CAUSES, TRAFFIC

N_REG = 123  # refreshed from the implementation at run time


def n_registered():
    from aioesphomeapi.core import MESSAGE_TYPE_TO_PROTO
    return len(MESSAGE_TYPE_TO_PROTO)


# ----------------------------------------------------------------------------- projections
PROJ = re.compile(r"^(\w+),(\d)(\d),f=([^,]*),x=([\d?]),pp=([\d?]),ping=([^,]*),pong=([^,]*),sf=(.),ff=(.),h=(\d),s=(\d),w=(\d+),os=(\d),H=(.*)$")


def parse_proj(p):
    m = PROJ.match(p)
    if not m:
        raise ValueError("projection: " + p)
    cs, ic, hc, f, x, pp, ping, pong, sf, ff, h, s, w, os_, hs = m.groups()
    table = {}
    for e in hs.split("+"):
        if e:
            ty, who = e.split(".")
            table.setdefault(int(ty), []).append(who)
    return dict(cs=cs, ic=int(ic), hc=int(hc), fatal=f, x=None if x == "?" else int(x), pp=None if pp == "?" else int(pp), ping=ping, pong=pong, sf=sf, ff=ff,
                h=int(h), s=int(s), w=int(w), os=int(os_), table=table)


RANK = {"INIT": 0, "SOCK": 1, "HS": 2, "CONN": 3, "CLOSED": 4}


def steps_of(tr):
    """All callbacks (silent ones too), projections parsed."""
    out = []
    for label, proj, obs in tr.steps:
        out.append((label, parse_proj(proj), list(obs)))
    return out


# ----------------------------------------------------------------------------- C05
def pred_c05(tr, story):
    v = []
    prev = dict(cs="INIT", ic=0, hc=0)
    accepted_start = None
    for i, (label, p, obs) in enumerate(steps_of(tr)):
        a, b = prev["cs"], p["cs"]
        ok = (a == b) or (b == "CLOSED") or (RANK[b] == RANK[a] + 1 and b != "CLOSED")
        if not ok:
            v.append(("C05/transition", f"state went {a} -> {b} in callback {i} ({label})", i))
        if a == "CLOSED" and b != "CLOSED":
            v.append(("C05/closed-not-final", f"state left CLOSED: -> {b} in callback {i} ({label})", i))
        if p["ic"] != (1 if b == "CONN" else 0):
            v.append(("C05/is_connected", f"is_connected={p['ic']} in state {b} (callback {i}, {label})", i))
        if p["hc"] != (1 if b in ("HS", "CONN") else 0):
            v.append(("C05/handshake_complete", f"handshake_complete={p['hc']} in state {b} (callback {i}, {label})", i))
        if label == "start" and a != "INIT" and "XRT" not in obs:
            v.append(("C05/start-guard", f"start_connection accepted in state {a}", i))
        if label == "start" and "XRT" not in obs:
            if accepted_start is not None:
                v.append(("C05/second-start", f"start_connection accepted a second time on the same connection object (first at callback {accepted_start}, again at {i})", i))
            accepted_start = i if accepted_start is None else accepted_start
        if label.startswith("finish:") and a != "SOCK" and "XRT" not in obs:
            v.append(("C05/finish-guard", f"finish_connection accepted in state {a}", i))
        prev = p
    return v


# ----------------------------------------------------------------------------- C07
def closing_item(items, table_has_disc, closed):
    """First item of a data chunk that closes the connection: ('disc'|'bad'|'bp', index) or None."""
    for k, it in enumerate(items):
        if it.startswith("bp."):
            return ("bp", k)
        _, ty, valid, *_ = it.split(".")
        ty = int(ty)
        if not (1 <= ty <= N_REG):
            continue
        if valid == "0":
            return ("bad", k)
        if ty == DISC_REQ and table_has_disc:
            return ("disc", k)
    return None


def pred_c07(tr, story):
    v = []
    steps = steps_of(tr)
    stops = [(i, o) for i, (_, _, obs) in enumerate(steps) for o in obs if o.startswith("STOP")]
    # "ever reached the connected state": a connection that had already been closed does not become a session by being
    # relabelled connected afterwards (closed is final, C05) - no stop callback is due for it
    ever = False
    for _, p, _ in steps:
        if p["cs"] == "CLOSED":
            break
        if p["cs"] == "CONN":
            ever = True
            break
    final = steps[-1][1]["cs"] if steps else "INIT"
    want = 1 if (ever and final == "CLOSED") else 0
    if len(stops) != want:
        v.append(("C07/count", f"stop callback invoked {len(stops)} time(s); ever connected={ever}, final state={final}", stops[0][0] if stops else len(steps) - 1))
        return v
    if not stops:
        return v
    i, o = stops[0]
    got = o == "STOP1"
    # the stop must come in the callback that closes
    before = steps[i - 1][1]["cs"] if i else "INIT"
    if not (before == "CONN" and steps[i][1]["cs"] == "CLOSED"):
        v.append(("C07/not-at-close", f"stop callback in callback {i} where state went {before} -> {steps[i][1]['cs']}", i))
    # graceful initiated before / at the close?  (oracle from the labels, not from the implementation's flag)
    graceful = None
    unsure = False
    for j in range(i + 1):
        label, p, obs = steps[j]
        pj = steps[j - 1][1] if j else dict(cs="INIT", hc=0, table={})
        if label == "force":
            graceful = True
        if label in ("disc", "wake:D"):
            # disconnect() sets the flag once its wait for the connect phase is over; cancelled -> not
            if "TD=C" in obs:
                continue
            if label == "disc" and pj.get("ff") == "P":
                continue
            if label == "disc" and pj.get("ff") == "?":
                unsure = True       # the connect-phase future is no longer visible under its known name
            graceful = True if graceful is None else graceful
            unsure = unsure or any(("cancel:D" == l) for l, _, _ in steps[:j + 1])
        if label.startswith("data:") and pj["cs"] != "CLOSED":
            items = label[5:].split(";")
            ci = closing_item(items, "disc" in pj.get("table", {}).get(DISC_REQ, []), False)
            if ci and ci[0] == "disc":
                graceful = True
            elif ci and j == i and graceful is None:
                graceful = False
    if graceful is None:
        graceful = False
    if got != graceful and not unsure:
        v.append(("C07/reason", f"stop callback argument {got}, but a graceful disconnect had{'' if graceful else ' not'} been initiated before the close (callback {i}, {steps[i][0]})", i))
    return v


# ----------------------------------------------------------------------------- C08
HARNESS_TIMERS = ()


def pred_c08(tr, story):
    v = []
    steps = steps_of(tr)
    # a close cause that reaches the connection closes it in that very callback: transport lost / end of stream
    for i, (label, p, obs) in enumerate(steps):
        if label in ("clost", "eof") and p["cs"] != "CLOSED":
            v.append(("C08/not-closed-by-cause", f"the transport reported {'connection_lost' if label == 'clost' else 'end of stream'} (callback {i}) and the connection is still {p['cs']}: "
                      "its socket, timers and tasks stay as they are", i))
            break
    k = next((i for i, (_, p, _) in enumerate(steps) if p["cs"] == "CLOSED"), None)
    if k is None:
        return v
    for i in range(k, len(steps)):
        label, p, obs = steps[i]
        evs = obs
        if i == k:
            # inside the closing callback: only what follows the close counts; the stop callback (if any) marks it
            idx = next((n for n, o in enumerate(obs) if o.startswith("STOP")), None)
            evs = obs[idx + 1:] if idx is not None else []
        for o in evs:
            if o.startswith("D"):
                v.append(("C08/deliver-after-close", f"subscriber called after the connection closed: {o} (callback {i}, {label})", i))
            if o.startswith("W") and len(o) > 1:
                v.append(("C08/write-after-close", f"written to the device after the connection closed: {o} (callback {i}, {label})", i))
        bad = []
        if p["ping"] != "-":
            bad.append("keepalive timer armed")
        if p["pong"] != "-":
            bad.append("pong timer armed")
        if p["w"] != 0:
            bad.append(f"{p['w']} pending waiter(s)")
        if p["s"] != 0:
            bad.append("socket not released")
        if p["h"] != 0:
            # the helper may be assigned by the finish task between close and its next step; it must be gone at the end
            if i == len(steps) - 1 and tr.task_outcomes.get("F", ("x",))[0] != "pending":
                bad.append("frame helper not released")
        if bad:
            v.append(("C08/resources", "closed connection still holds: " + ", ".join(bad) + f" (callback {i}, {label})", i))
            break
    # transports / sockets closed
    for t in tr.net.transports:
        if not t.closing:
            v.append(("C08/transport-open", "transport not closed after the connection closed", len(steps) - 1))
    # quiescent audits after the close: no armed timer of the connection, no pending task
    for at, closed, timers, pending in tr.audits:
        if closed and at > k:
            left = [t for t in timers if not t.startswith("Trace.") and "hop" not in t and "fire" not in t]
            if left:
                v.append(("C08/timer-left", f"timer(s) still armed at a quiescent point after close: {sorted(set(left))}", at - 1))
                break
            if pending:
                v.append(("C08/task-blocked", f"task(s) still pending at a quiescent point after close: {pending}", at - 1))
                break
    return v


# ----------------------------------------------------------------------------- C12
def pred_c12(tr, story):
    v = []
    steps = steps_of(tr)
    scripts = story.get("scripts") or {}
    for i, (label, p, obs) in enumerate(steps):
        if not label.startswith("data:"):
            continue
        pj = steps[i - 1][1] if i else None
        if pj is None or pj["cs"] == "CLOSED":
            if any(o.startswith("D") for o in obs):
                v.append(("C12/deliver-when-closed", f"delivery on a closed connection in callback {i}", i))
            continue
        table = {ty: list(who) for ty, who in pj["table"].items()}
        if pj["hc"] == 1:
            # once the handshake is complete the three peer requests are answered whatever the registry looks like
            for ty_req, who in ((5, "disc"), (7, "ping"), (36, "time")):
                if who not in table.setdefault(ty_req, []):
                    table[ty_req].append(who)
        exp_d, exp_w = [], []
        closed = False
        raised = any(o.startswith("X") for o in obs)
        for it in label[5:].split(";"):
            if it.startswith("bp."):
                break
            _, ty, valid, tag, *_ = it.split(".")
            ty, tag = int(ty), int(tag)
            if not (1 <= ty <= N_REG):
                continue
            if valid == "0":
                closed = True
                if "XR.Other" not in obs and "XL.Protocol" not in obs and not any(o.startswith("X") for o in obs):
                    v.append(("C12/bad-payload-ignored", f"undecodable payload of known type {ty} did not raise (callback {i})", i))
                if p["cs"] != "CLOSED":
                    v.append(("C12/bad-payload-not-closed", f"undecodable payload of known type {ty} left the connection {p['cs']}", i))
                elif pj["fatal"] == "-" and p["fatal"] != "L.Protocol":
                    v.append(("C12/bad-payload-error", f"undecodable payload of known type {ty} reported {p['fatal']} instead of a protocol error", i))
                break
            for who in list(table.get(ty, [])):
                if who.startswith("u"):
                    u = int(who[1:])
                    exp_d.append(f"D{u}.{ty}.{tag}")
                    for kind, ty2, u2 in scripts.get(u, []):
                        if kind == "sub":
                            if f"u{u2}" not in table.setdefault(ty2, []):
                                table[ty2].append(f"u{u2}")
                        elif f"u{u2}" in table.get(ty2, []):
                            table[ty2].remove(f"u{u2}")
                elif who == "ping":
                    exp_w.append("W8")
                elif who == "time":
                    exp_w.append("W37")
                elif who == "disc":
                    exp_w.append("W6")
                    closed = True
            if closed:
                break
        got_d = [o for o in obs if o.startswith("D")]
        if raised and not closed:
            # a responder's write failed: deliveries so far must be a sub-multiset of the expectation
            if any(got_d.count(x) > exp_d.count(x) for x in set(got_d)):
                v.append(("C12/extra-delivery", f"deliveries {got_d} not among the expected {exp_d} (callback {i})", i))
            continue
        if sorted(got_d) != sorted(exp_d):
            v.append(("C12/deliveries", f"callback {i} ({label[:80]}): subscribers received {got_d}, expected {exp_d}", i))
        else:
            # per subscriber: arrival order
            for u in {d.split(".")[0] for d in exp_d}:
                if [d for d in got_d if d.split(".")[0] == u] != [d for d in exp_d if d.split(".")[0] == u]:
                    v.append(("C12/order", f"subscriber {u} received messages out of arrival order in callback {i}", i))
        if not raised:
            got_w = [o for o in obs if o.startswith("W") and len(o) > 1]
            tr_open = True
            if sorted(got_w) != sorted(exp_w) and not any(l.startswith("wfail") for l, _, _ in steps[:i]) and not _transport_closing_before(steps, i):
                v.append(("C12/responses", f"callback {i} ({label[:80]}): wrote {got_w}, expected {exp_w}", i))
    return v


def _close_cause_class(steps, i):
    """The error class the property assigns to the close cause that closed the connection in callback i, for the causes where the
    label alone decides it (None otherwise); only when no fatal error had been recorded before that callback."""
    if i <= 0 or steps[i - 1][1]["fatal"] != "-":
        return None
    label = steps[i][0]
    if label == "eof":
        return "L.SocketClosed"
    if label == "timer:pong":
        return "L.PingFailed"
    if label == "clost":
        for l, _, _ in reversed(steps[:i]):
            if l.startswith("lost:"):
                return {"lost:R.Reset": "L.ReadFailed", "lost:none": "L.SocketClosed"}.get(l)
        return None
    if label.startswith("data:") and label[5:].split(";")[-1].startswith("bp."):
        items = label[5:].split(";")
        if all(not it.startswith("bp.") for it in items[:-1]) and len(items) == 1:
            return "L.RequiresEncryption" if items[0] == "bp.1" else "L.Protocol"
    return None


def _transport_closing_before(steps, i):
    """A write on a closing transport is dropped silently: eof/lost before this step while not yet closed."""
    return any(l in ("eof",) or l.startswith("lost") for l, _, _ in steps[:i])



# ----------------------------------------------------------------------------- C11
def _pred_fn(p):
    if p == "any":
        return lambda ty, tag: True
    kind, v = p.split("=")
    v = int(v)
    if kind == "is":
        return lambda ty, tag: ty == v
    if kind == "not":
        return lambda ty, tag: ty != v
    return lambda ty, tag: tag == v


def call_results(tr):
    """cid -> ('ok', [(ty, tag)]) | ('err', class) | ('cancelled',) | ('pending',) read from the real tasks at the end of the story."""
    from vlib import simnet, conntrace
    out = {}
    for tid, r in tr.task_outcomes.items():
        if not tid.startswith("C") or tid == "C?":
            continue
        cid = int(tid[1:])
        if r[0] == "ok":
            out[cid] = ("ok", [(simnet.msg_type_id(m), conntrace.msg_tag(m)) for m in r[1]])
        elif r[0] == "err":
            out[cid] = ("err", r[1])
        else:
            out[cid] = r
    return out


def pred_c11(tr, story):
    v = []
    steps = [(l, parse_proj(p), list(o)) for l, p, o in tr.steps if l != "silent"]
    results = call_results(tr)
    now = 0
    calls = {}      # cid -> dict
    next_cid = 0
    # call ids are given in the order futures are created; follow the harness's numbering through the TC<cid>= events
    for i, (label, p, obs) in enumerate(steps):
        pj = steps[i - 1][1] if i else parse_proj("INIT,00,f=-,x=0,pp=0,ping=-,pong=-,sf=-,ff=-,h=0,s=0,w=0,os=1,H=")
        if label.startswith("adv:"):
            now = max(now, int(label[4:]))
        if label.startswith("call:"):
            _, send, types, ap, st, tmo = label.split(":")
            # the cid of this call: a new handler c<cid> shows up in the projection, or the task finished at once
            new = {w for ws in p["table"].values() for w in ws if w.startswith("c")} - {w for ws in pj["table"].values() for w in ws if w.startswith("c")}
            done_now = [o for o in obs if o.startswith("TC")]
            new = {w for w in new if w[1:].isdigit()}
            raw = [o for o in done_now if "=R." in o]
            if raw:
                # the call ended in the very step it was issued (its request could not be written / the connection was not up):
                # "otherwise it fails with a timeout error or with the connection's error" - not with a raw exception
                v.append(("C11/close-error", f"a call issued while the connection was {pj['cs']} (request types {send}, response types {types}) ended at once with a raw "
                          f"exception ({raw[0]}) instead of the connection's error", i))
            if new:
                cid = int(sorted(new)[0][1:])
                calls[cid] = dict(start=i, t0=now, types=[int(x) for x in types.split(",") if x != "-"], ap=_pred_fn(ap), st=_pred_fn(st),
                                  tmo=int(tmo), got=[], state="pending", judged=pj["cs"] == "CONN" and pj["hc"] == 1, end=None)
        # frames dispatched in this step
        if label.startswith("data:") and pj["cs"] != "CLOSED":
            closed_in_chunk = False
            for it in label[5:].split(";"):
                if it.startswith("bp."):
                    closed_in_chunk = True
                    break
                _, ty, valid, tag, *_ = it.split(".")
                ty, tag = int(ty), int(tag)
                if not (1 <= ty <= N_REG):
                    continue
                if valid == "0":
                    closed_in_chunk = True
                    break
                for cid, c in calls.items():
                    if c["state"] == "pending" and ty in c["types"]:
                        if c["ap"](ty, tag):
                            c["got"].append((ty, tag))
                        if c["st"](ty, tag):
                            c["state"], c["end"] = "result", i
                if ty == DISC_REQ and "disc" in pj["table"].get(DISC_REQ, []):
                    closed_in_chunk = True
                    break
        if label.startswith("timer:c") and label[7:].isdigit():
            cid = int(label[7:])
            c = calls.get(cid)
            if c and c["state"] == "pending":
                c["state"], c["end"] = "timeout", i
                if c["judged"] and now != c["t0"] + c["tmo"]:
                    v.append(("C11/timeout-time", f"call {cid} timed out at {now} (1/1024 s), written at {c['t0']} with timeout {c['tmo']}", i))
        if label.startswith("cancel:C") and label[8:].isdigit():
            cid = int(label[8:])
            c = calls.get(cid)
            if c and not any(o.startswith(f"TC{cid}=") for _, _, ob in steps[:i + 1] for o in ob):
                c["state"], c["end"] = "cancelled", i
        if p["cs"] == "CLOSED" and pj["cs"] != "CLOSED":
            for c in calls.values():
                if c["state"] == "pending":
                    c["state"], c["end"] = "closed", i
        # a call whose future is done must be finished by the next quiescent point; leftovers
    for cid, c in calls.items():
        if not c["judged"]:
            continue
        r = results.get(cid)
        if r is None:
            continue
        exp = c["state"]
        if exp == "result":
            if r != ("ok", c["got"]):
                v.append(("C11/result", f"call {cid} (types {c['types']}) returned {r}, expected the accepted messages up to the first stop message: {c['got']}", c["end"]))
        elif exp == "timeout":
            if r != ("err", "L.Timeout"):
                v.append(("C11/timeout-class", f"call {cid} ended with {r} after its timeout fired, expected TimeoutAPIError", c["end"]))
        elif exp == "cancelled":
            if r[0] != "cancelled":
                v.append(("C11/cancel", f"call {cid} was cancelled by its caller but ended with {r}", c["end"]))
        elif exp == "closed":
            late_timer = any(l == f"timer:c{cid}" for l, _, _ in steps[c["end"] + 1:])
            if r[0] != "err" or not r[1].startswith("L."):
                v.append(("C11/close-error", f"call {cid} was pending when the connection closed and ended with {r}, expected the connection's error", c["end"]))
            elif _close_cause_class(steps, c["end"]) not in (None, r[1]):
                v.append(("C11/close-error", f"call {cid} was pending when the connection closed ({steps[c['end']][0][:40]}) and ended with {r[1]}, "
                          f"the connection's error for that cause is {_close_cause_class(steps, c['end'])}", c["end"]))
            elif r[1] == "L.Timeout" and late_timer:
                v.append(("C11/close-error", f"call {cid} was pending when the connection closed, yet it only ended when its own timeout fired afterwards ({r[1]}): "
                          "the close did not fail it with the connection's error", c["end"]))
        elif exp == "pending" and r[0] != "pending":
            v.append(("C11/spurious-completion", f"call {cid} completed with {r} although no stop message, timeout, cancel or close occurred", len(steps) - 1))
    # leftovers at quiescent points: handlers of finished calls, request timers
    done_at = {}
    for i, (label, p, obs) in enumerate(tr.steps):
        for o in obs:
            if o.startswith("TC") and "=" in o and o[2:o.index("=")].isdigit():
                done_at[int(o[2:o.index("=")])] = i
    for at, closed, timers, pending in tr.audits:
        if at == 0:
            continue
        p = parse_proj(tr.steps[at - 1][1])
        live = {int(w[1:]) for ws in p["table"].values() for w in ws if w.startswith("c") and w[1:].isdigit()}
        orphan = sorted({w for ws in p["table"].values() for w in ws if w == "c?"})
        if orphan and not any(x.startswith("C") for x in pending):
            # a request handler that belongs to no call the harness knows of: its call ended before a waiter was created
            v.append(("C11/handler-left", "a request handler is still registered at a quiescent point although no call is pending (its call failed while sending)", at - 1))
            break
        stale = [cid for cid in live if cid in done_at and done_at[cid] < at]
        if stale:
            v.append(("C11/handler-left", f"handler of finished call(s) {stale} still registered at a quiescent point", at - 1))
            break
        n_to = sum(1 for t in timers if t.endswith("handle_timeout"))
        allowed = sum(1 for x in pending if x.startswith("C")) + (1 if "F" in pending else 0) + (1 if "D" in pending else 0)
        if n_to > allowed:
            v.append(("C11/timer-left", f"{n_to} request timer(s) armed with only {allowed} call(s) pending at a quiescent point", at - 1))
            break
        if p["w"] > allowed:
            v.append(("C11/waiter-left", f"{p['w']} pending waiter(s) registered with only {allowed} call(s) pending", at - 1))
            break
    return v


# ----------------------------------------------------------------------------- C09
U = 1024  # time units per second


def pred_c09(tr, story):
    v = []
    # the elapsed time of a task is judged at its end only in stories where the clock moves at quiescent points
    # (a story that advances the clock while callbacks are still queued makes tasks look late that are not)
    sc = story.get("scenario", [])
    time_moves_when_quiet = all(i > 0 and sc[i - 1] == ("drain",) for i, a in enumerate(sc) if a[0] == "adv_next") and not any(a[0] == "hop" for a in sc)
    steps = [(l, parse_proj(p), list(o)) for l, p, o in tr.steps if l != "silent"]
    now = 0
    started = {}      # tid -> (step, time, bound)
    cancelled = set()
    groups = 1
    req_enc_pending_f = False
    closed_fatal = None
    ended = {}
    for i, (label, p, obs) in enumerate(steps):
        pj = steps[i - 1][1] if i else None
        if label.startswith("adv:"):
            now = max(now, int(label[4:]))
        if label.startswith("resolved:ok:"):
            groups = int(label.split(":")[2])
            if "S" in started:
                st = started["S"]
                started["S"] = (st[0], st[1], 30 * U + 60 * U * groups)
        if label == "start" and "XRT" not in obs:
            started.setdefault("S", (i, now, 30 * U + 60 * U * 3))
        if label.startswith("finish:") and "XRT" not in obs:
            started.setdefault("F", (i, now, 60 * U))
        if label == "disc":
            started.setdefault("D", (i, now, 15 * U))
        if label.startswith("call:"):
            tmo = int(label.split(":")[5])
            new = {w for ws in p["table"].values() for w in ws if w.startswith("c")} - ({w for ws in pj["table"].values() for w in ws if w.startswith("c")} if pj else set())
            new = {w for w in new if w[1:].isdigit()}
            if new:
                started["C" + sorted(new)[0][1:]] = (i, now, tmo)
        if label.startswith("cancel:"):
            cancelled.add(label[7:])
        if label.startswith("data:bp.1") and pj and pj["cs"] != "CLOSED" and pj["ff"] == "P" and pj["fatal"] == "-" \
                and "F" in started and not any(l.startswith("timer:") for l, _, _ in steps[started["F"][0]:i]) \
                and not any(l.startswith("data:") and any(it.startswith(("f.2.", "f.4.")) for it in l[5:].split(";")) for l, _, _ in steps[started["F"][0]:i]):
            # (a hello / connect response that arrived before the bad preamble is the earlier event: its verdict may come first)
            req_enc_pending_f = True
        if pj and p["cs"] == "CLOSED" and pj["cs"] != "CLOSED":
            closed_fatal = p["fatal"]
            pending_at_close = {int(w[1:]) for ws in pj["table"].values() for w in ws if w.startswith("c") and w[1:].isdigit()}
        for o in obs:
            # a synchronous entry point (send_messages, force_disconnect, ...) raising something outside the hierarchy
            if o.startswith("X") and not o.startswith("XL.") and label.split(":")[0] in ("send", "force", "call", "wake"):
                v.append(("C09/raw-error", f"{label} raised {o[1:]}, not an error of the library's connection-error hierarchy", i))
        for o in obs:
            if not (o.startswith("T") and "=" in o):
                continue
            tid, res = o[1:].split("=", 1)
            if tid not in started:
                continue
            s_i, t0, bound = started[tid]
            ended[tid] = i
            if time_moves_when_quiet and now - t0 > bound and tid not in cancelled:
                v.append(("C09/bound", f"task {tid} ended {now - t0} units after it started (bound {bound}, 1/1024 s)", i))
            if res == "ok":
                continue
            if res == "C":
                if tid not in cancelled:
                    v.append(("C09/cancel-escaped", f"task {tid} ended with CancelledError although its caller never cancelled it", i))
                continue
            if not res.startswith("L.") or "?" in res:
                v.append(("C09/raw-error", f"task {tid} ended with {res}, not an error of the library's connection-error hierarchy", i))
            if tid == "F" and req_enc_pending_f and res != "L.RequiresEncryption" and "F" not in cancelled:
                v.append(("C09/first-cause-masked", f"finish_connection raised {res} although the first fatal cause was RequiresEncryption", i))
            if tid.startswith("C") and tid[1:].isdigit() and closed_fatal is not None and int(tid[1:]) in pending_at_close and tid not in cancelled \
                    and not any(l == f"timer:c{tid[1:]}" for l, _, _ in steps[:i]):
                want = closed_fatal if closed_fatal.startswith("L.") else ("L.Conn" if closed_fatal == "-" else "L.ReadFailed")
                if res != want:
                    v.append(("C09/waiter-cause", f"call {tid} was failed by the close with {res}; the first fatal cause was {closed_fatal} (expected {want})", i))
    # bounded time, judged at quiescent points (the clock only moves between them): a task still pending there
    # although its bound has passed
    full_now, t = [], 0
    for l, _, _ in tr.steps:
        if l.startswith("adv:"):
            t = max(t, int(l[4:]))
        full_now.append(t)
    # started[] times were taken on the filtered list; recompute start times on the full list by label order
    nonsilent = [k for k, (l, _, _) in enumerate(tr.steps) if l != "silent"]
    for at, closed, timers, pending in tr.audits:
        if at == 0:
            continue
        tnow = full_now[at - 1]
        for tid in pending:
            if tid in started:
                s_i, t0, bound = started[tid]
                if nonsilent[s_i] < at and tnow - t0 > bound:
                    v.append(("C09/bound", f"task {tid} still pending {tnow - t0} units after it started (bound {bound}, 1/1024 s) at a quiescent point", at - 1))
    # never hangs: a task still pending at the end of the story with no timer armed that could end it
    last_audit = tr.audits[-1] if tr.audits else None
    if last_audit:
        at, closed, timers, pending = last_audit
        lib_timers = [t for t in timers if any(k in t for k in ("handle_timeout", "Timeout._on_timeout", "_release_waiter", "_async_send_keep_alive", "_async_pong_not_received"))]
        for tid in pending:
            if not lib_timers:
                v.append(("C09/hang", f"task {tid} is still pending at the end and no timer is armed: it never completes", at - 1))
    for tid, r in tr.task_outcomes.items():
        if r[0] == "err" and not r[1].startswith("L.") and tid in ("S", "F", "D") and r[1] != "RT":
            v.append(("C09/raw-error", f"task {tid} ended with {r[1]}", len(steps) - 1))
    return v

PREDICATES = {"C09": pred_c09, "C11": pred_c11, "C05": pred_c05, "C07": pred_c07, "C08": pred_c08, "C12": pred_c12}


# ----------------------------------------------------------------------------- deterministic window stories
def connect_prefix(login=False, drain=True):
    d = [("drain",)] if drain else []
    sc = [("start",)] + d + [("resolved", None, 1)] + d + [("tcp", None)] + d + [("finish", int(login))] + d
    return sc


def hello_frames(login=False):
    return [H(HELLO)] + ([H(CONNECT)] if login else [])


def window_stories(prop=None):
    """Hand-picked windows: same-turn orders, closes inside connect phases, trailing frames, failing writes."""
    out = []

    def story(sc, **kw):
        sc = list(sc) + [("drain",)]
        for _ in range(4):
            sc += [("adv_next",), ("drain",)]
        d = {"scenario": sc, "expect": False, "scripts": {}, "keepalive": 20480, "login": False}
        d.update(kw)
        out.append(d)

    est = connect_prefix() + [("data", hello_frames())] + [("drain",)]
    subs = [("sub", SWITCH_STATE, 1), ("sub", SENSOR_STATE, 2)]
    # closes in the same chunk / same turn as the end of a connect phase
    for tail in ([H(DISC_REQ)], [H(DISC_REQ), H(SWITCH_STATE, tag=1), H(PING_REQ)], [H(SWITCH_STATE, valid=0)], [("bp", 1)]):
        story(connect_prefix() + [("data", hello_frames() + tail)])
        story(connect_prefix(login=True) + [("data", hello_frames(True) + tail)], login=True)
        # ... followed by a command and a request: whatever the connect phase made of it, they fail with a library error
        story(connect_prefix() + [("data", hello_frames() + tail), ("drain",), ("send", [33]), CALLS[0]])
        story(connect_prefix(login=True) + [("data", hello_frames(True) + tail), ("drain",), ("send", [33]), CALLS[0]], login=True)
        # ... and the caller's coroutine sending a command as soon as finish_connection() has returned (probe: implementation only)
        for lg in (False, True):
            pre = [("start",), ("drain",), ("resolved", None, 1), ("drain",), ("tcp", None), ("drain",), ("finish", int(lg), "then-send"), ("drain",)]
            story(pre + [("data", hello_frames(lg) + tail)], login=lg, probe=True)
    for cause in CLOSE_CAUSES:
        for hops in (0, 1, 2):
            story(connect_prefix() + [("hop", hops, ("data", hello_frames())), ("hop", hops, cause)])
            story([("start",), ("drain",), ("resolved", None, 1), ("drain",), ("hop", hops, ("tcp", None)), ("hop", hops, cause), ("drain",),
                   ("finish", 0), ("drain",), ("data", hello_frames())])
        # a close in each loop turn between finish_connection() being called and its first await ending
        # (create_connection completing, connection_made, the helper becoming ready)
        for hops in (0, 1, 2, 3, 4):
            story([("start",), ("drain",), ("resolved", None, 1), ("drain",), ("tcp", None), ("drain",), ("finish", 0), ("hop", hops, cause),
                   ("drain",), ("data", hello_frames()), ("drain",), ("send", [33])])
        story(connect_prefix() + [cause, ("data", hello_frames())])
        story([("start",), ("drain",), cause, ("drain",), ("resolved", None, 1), ("drain",), ("tcp", None)])
        # steady state: cause with trailing frames, twice, with a call pending
        story(est + subs + [CALLS[0], ("drain",), cause, ("drain",), cause, ("data", [H(SWITCH_STATE, tag=1)]), ("send", [33])])
        story(est + subs + [("data", [H(SWITCH_STATE, tag=1), H(DISC_REQ), H(SENSOR_STATE, tag=2), H(PING_REQ)])] + [cause])
        story(est + [("wfail", 1), cause, ("drain",), ("force",)])
    # response and loss in one turn while a call waits
    for cause in (("lost", "R.Reset"), ("eof",), ("lost", None), ("data", [H(DISC_REQ)])):
        story(est + [CALLS[0], ("drain",), ("data", [H(10)]), cause])
        story(est + [("disc",), ("drain",), ("data", [H(6)]), cause])
        story(est + [CALLS[0], ("drain",), ("hop", 0, ("data", [H(10)])), ("hop", 0, cause)])

    # request/response windows: several calls, response with timeout / cancel / close in one turn, late extra messages
    GR, GE, LD, LS = 74, 82, 19, 16
    story(est + [CALLS[1], CALLS[2], ("drain",), ("data", [H(GR, tag=9), H(GR, tag=4), H(GE, tag=3), H(GR, tag=3)])])
    # an error while a graceful disconnect is under way, with a call outstanding: the call gets the connection's error
    for cause in (("lost", "R.Reset"), ("eof",), ("data", [("bp", 0)]), ("lost", None)):
        story(est + [CALLS[0], ("drain",), ("disc",), ("drain",), cause, ("drain",)])
        story(est + [CALLS[1], ("drain",), ("disc",), cause, ("drain",)])
    # calls whose response-type sets overlap in one type only, registered one after the other (and after an earlier call has come and gone):
    # a read response must not feed the write that merely shares the error type with reads, and vice versa
    for first in ([CALLS[1], ("drain",), ("data", [H(GR, tag=3)]), ("drain",)], []):
        story(est + first + [CALLS[4], CALLS[2], ("drain",), ("data", [H(GR, tag=3)]), ("drain",), ("data", [H(83, tag=3)]), ("drain",), ("data", [H(GR, tag=4)])])
        story(est + first + [CALLS[2], CALLS[4], ("drain",), ("data", [H(83, tag=4), H(GR, tag=3), H(GE, tag=3)]), ("drain",), ("data", [H(GR, tag=4)])])
    story(est + [CALLS[3], ("drain",), ("data", [H(LS, tag=1), H(LS, tag=2), H(LD), H(LS, tag=3)]), ("data", [H(LS, tag=4)])])
    story(est + [CALLS[3], CALLS[3], ("drain",), ("data", [H(LS, tag=1), H(LD), H(LD), H(LS, tag=3)])])
    story(est + [CALLS[0], ("data", [H(10)])])
    story(est + [CALLS[0], ("hop", 0, ("data", [H(10), H(10)]))])
    for hops in (0, 1, 2):
        story(est + [CALLS[1], ("drain",), ("hop", hops, ("data", [H(GR, tag=3)])), ("hop", hops, ("cancel", "C1"))])
        story(est + [CALLS[1], ("drain",), ("hop", hops, ("cancel", "C1")), ("hop", hops, ("data", [H(GR, tag=3)]))])
        story(est + [CALLS[1], CALLS[2], ("drain",), ("hop", hops, ("data", [H(GR, tag=3)])), ("hop", hops, ("lost", "R.Reset"))])
        story(est + [CALLS[1], CALLS[2], ("drain",), ("hop", hops, ("eof",)), ("hop", hops, ("data", [H(GR, tag=3)]))])
    # several calls waiting, one of them answered in the very chunk that also closes the connection
    for closer in ([H(DISC_REQ)], [("bp", 0)], [H(SWITCH_STATE, valid=0)]):
        for answer in (H(GR, tag=3), H(GR, tag=4), H(10)):
            # (which of the waiting calls is the answered one decides where its future sits among the waiters)
            story(est + [CALLS[1], CALLS[2], CALLS[0], ("drain",), ("data", [answer] + closer), ("drain",), ("adv_next",), ("drain",)])
            story(est + [CALLS[0], CALLS[1], CALLS[2], CALLS[3], ("drain",), ("data", [answer] + closer), ("drain",), ("adv_next",), ("drain",)])
        story(est + [CALLS[1], CALLS[2], ("drain",), ("data", [H(GR, tag=4)] + closer), ("drain",), ("adv_next",), ("drain",)])
    # a call that lists a response type twice, next to a call waiting for the same type: ending the first must not disturb the second
    DI, DIR = 9, 10
    story(est + [("call", [DI], [DIR, DIR], "any", "any", 5120), ("call", [DI], [DIR], "any", "any", 20480), ("drain",), ("cancel", "C1"), ("drain",),
                 ("data", [H(DIR)]), ("drain",)])
    story(est + [("call", [DI], [DIR, DIR], "any", "any", 5120), ("call", [DI], [DIR], "any", "any", 20480), ("drain",), ("adv_next",), ("drain",),
                 ("data", [H(DIR)]), ("drain",)])
    story(est + [("call", [GR - 1], [GR, GE, GR], "tag=3", "tag=3", 5120), CALLS[2], ("drain",), ("data", [H(GR, tag=3)]), ("drain",), ("data", [H(GR, tag=4)]), ("drain",)])
    story(est + [CALLS[1], ("drain",), ("adv_next",), ("drain",), ("adv_next",), ("drain",), ("data", [H(GR, tag=3)])], keepalive=40960)
    story(est + [CALLS[1], CALLS[2], ("drain",), ("cancel", "C1"), ("drain",), ("data", [H(GR, tag=4)]), ("force",)])
    story(est + [CALLS[1], CALLS[2], ("drain",), ("force",), ("drain",)])
    story(est + [CALLS[1], CALLS[2], ("drain",), ("data", [H(SWITCH_STATE, valid=0)]), ("drain",)])

    # C09 windows: faults in every connect phase, silence, first cause vs following socket-closed
    for r in ("L.Resolve", "R.OSError", "R.Other", "L.Conn"):
        story([("start",), ("drain",), ("resolved", r, 1)])
        # ... and a second start_connection() on the object whose first attempt failed, at every stage
        story([("start",), ("drain",), ("resolved", r, 1), ("drain",), ("start",), ("drain",), ("resolved", None, 1), ("drain",), ("tcp", None)])
    story([("start",), ("drain",), ("resolved", None, 1), ("drain",), ("tcp", "R.OSError"), ("drain",), ("start",), ("drain",), ("resolved", None, 1), ("drain",), ("tcp", None)])
    story([("start",), ("drain",), ("cancel", "S"), ("drain",), ("start",), ("drain",), ("resolved", None, 1), ("drain",), ("tcp", None)])
    story([("start",), ("drain",), ("adv_next",), ("drain",), ("start",), ("drain",), ("resolved", None, 1), ("drain",), ("tcp", None)])
    story([("start",), ("drain",), ("adv_next",), ("drain",)])                                      # resolve hangs
    for g in (1, 2, 3):
        story([("start",), ("drain",), ("resolved", None, g), ("drain",)] + [("adv_next",), ("drain",)] * (g + 1))   # connect hangs
        story([("start",), ("drain",), ("resolved", None, g), ("drain",)] + [("tcp", "R.OSError"), ("drain",)] * g)
    story(connect_prefix() + [("adv_next",), ("drain",), ("adv_next",), ("drain",)])                 # silent device after TCP connect
    story(connect_prefix() + [("data", [("bp", 1)]), ("drain",), ("lost", "R.Reset")])
    story(connect_prefix() + [("hop", 0, ("data", [("bp", 1)])), ("hop", 0, ("lost", "R.Reset"))])
    story(connect_prefix() + [("data", [("bp", 1)]), ("eof",)])
    story(connect_prefix(login=True) + [("data", [H(HELLO)]), ("drain",), ("adv_next",), ("drain",)], login=True)   # no connect response
    story(connect_prefix() + [("cancel", "F"), ("drain",)])
    story([("start",), ("drain",), ("cancel", "S"), ("drain",)])
    story(est + [("disc",), ("drain",), ("adv_next",), ("drain",), ("adv_next",), ("drain",)])          # no disconnect response
    story(connect_prefix() + [("disc",), ("drain",), ("adv_next",), ("drain",), ("adv_next",), ("drain",)])   # disconnect during handshake
    # ... whose wait for the connect phase timed out (a fatal cause is recorded, nothing is closed yet), then a close cause of every kind
    for cause in CLOSE_CAUSES:
        story(connect_prefix() + [("disc",), ("drain",), ("adv_next",), ("drain",), cause, ("drain",), ("data", [H(SWITCH_STATE, tag=1)]), ("send", [33])])
        story(connect_prefix() + [("sub", SWITCH_STATE, 1), ("disc",), ("drain",), ("adv_next",), ("drain",), ("data", [H(SWITCH_STATE, tag=1)]), cause, ("drain",),
                                  ("data", [H(SWITCH_STATE, tag=2)])])
    story(est + [CALLS[0], ("drain",), ("lost", "R.OSError"), ("drain",)])
    story(est + [CALLS[0], CALLS[1], ("drain",), ("lost", "R.Other"), ("drain",)])
    story(est + [("disc",), ("drain",), ("lost", "R.Other"), ("drain",)])
    story(est + [CALLS[0], ("drain",), ("data", [H(SENSOR_STATE, valid=0)]), ("drain",)])
    story(est + [CALLS[0], CALLS[1], ("drain",), ("data", [("bp", 0)]), ("drain",)])
    # keepalive ping that discovers a dead socket; peer that only talks without pong
    story(est + [("wfail", 1), ("adv_next",), ("drain",), ("adv_next",), ("drain",), ("adv_next",)], keepalive=256)
    story(est + [("adv_next",), ("drain",), ("data", [H(SWITCH_STATE)]), ("adv_next",), ("drain",), ("data", [H(PING_REQ)]), ("adv_next",), ("drain",)] * 3, keepalive=256)
    # single-use guards
    story(est + [("finish", 0), ("drain",), ("start",), ("drain",), ("data", [H(SWITCH_STATE)])])
    story(est + [("force",), ("start",), ("finish", 0)])
    # re-entrant subscriptions, lone self-unsubscriber, unknown ids, bad payload without subscriber
    scr = {1: [("unsub", SWITCH_STATE, 1)], 2: [("sub", SWITCH_STATE, 3), ("unsub", SWITCH_STATE, 2)], 3: []}
    story(est + [("sub", SWITCH_STATE, 1), ("data", [H(SWITCH_STATE, tag=1), H(SWITCH_STATE, tag=2)])], scripts=scr)
    story(est + [("sub", SWITCH_STATE, 2), ("data", [H(SWITCH_STATE, tag=1), H(SWITCH_STATE, tag=2)])], scripts=scr)
    story(est + [("sub", SWITCH_STATE, 1), ("sub", SWITCH_STATE, 2), ("data", [H(SWITCH_STATE, tag=1), H(SWITCH_STATE, tag=2), H(SWITCH_STATE, tag=3)])], scripts=scr)
    for ty in (0, 1, 122, 123, 124, 125, 65535, 70000, 2 ** 40):
        story(est + subs + [("data", [H(ty), H(SWITCH_STATE, tag=5)])])
    story(est + [("data", [H(SENSOR_STATE, valid=0)])])
    story(est + subs + [("data", [H(SENSOR_STATE, valid=0), H(SWITCH_STATE, tag=1)])])
    story(est + [("data", [H(PING_REQ), H(TIME_REQ), H(DISC_REQ)])])
    # the device's goodbye followed in the same read by bytes that are no frame: the goodbye was first
    for junk in (0, 1):
        story(est + [("data", [H(DISC_REQ), ("bp", junk)])])
        story(est + subs + [("data", [H(SWITCH_STATE, tag=1), H(DISC_REQ), ("bp", junk)])])
    # a call that has come and gone, a stray message of its response type while nobody waits, then the same call again - answered at once
    DIRESP = CALLS[0][2][0]
    story(est + [CALLS[0], ("drain",), ("data", [H(DIRESP)]), ("drain",), ("data", [H(DIRESP)]), ("drain",), CALLS[0], ("drain",), ("data", [H(DIRESP)]), ("drain",)])
    story(est + [CALLS[1], ("drain",), ("adv_next",), ("drain",), ("data", [H(GR, tag=3)]), ("drain",), CALLS[1], ("drain",), ("data", [H(GR, tag=3)]), ("drain",)],
          keepalive=40960)
    story(est + [CALLS[1], ("drain",), ("cancel", "C1"), ("drain",), ("data", [H(GR, tag=3)]), ("drain",), CALLS[1], ("drain",), ("data", [H(GR, tag=3)]), ("drain",)])
    # two plain requests for the same response type outstanding (one through each entry point), both answers in one read
    story(est + [CALLS[0], CALLS[0], ("drain",), ("data", [H(DIRESP), H(DIRESP)]), ("drain",)])
    story(est + [CALLS[0], CALLS[0], CALLS[1], ("drain",), ("hop", 0, ("data", [H(DIRESP), H(DIRESP)])), ("hop", 0, ("cancel", "C2")), ("drain",),
                 ("data", [H(GR, tag=3)]), ("drain",)])
    if prop == "C12":
        # an undecodable payload of EVERY declared type closes the connection with a protocol error, subscriber or not
        from aioesphomeapi.core import MESSAGE_TYPE_TO_PROTO
        for ty in sorted(MESSAGE_TYPE_TO_PROTO):
            story(est + subs + [("data", [H(ty, valid=0), H(SWITCH_STATE, tag=1)])])
    return out


def systematic_stories(rng, n_bases):
    """Every position x every single extra event of a few base stories (thorough tier)."""
    out = []
    extras = list(CLOSE_CAUSES) + [("cancel", "S"), ("cancel", "F"), ("cancel", "D"), ("wfail", 1), ("adv_next",), ("disc",)]
    for b in range(n_bases):
        login = bool(b % 2)
        base = connect_prefix(login, drain=False) + [("data", hello_frames(login)), ("sub", SWITCH_STATE, 1), CALLS[b % len(CALLS)],
                                                     ("data", rng.choice(TRAFFIC)), ("disc",), ("data", [H(6)])]
        for pos in range(len(base) + 1):
            for ex in extras:
                for drain_mode in (0, 1):
                    sc = []
                    for k, a in enumerate(base):
                        if k == pos:
                            sc.append(("hop", 0, ex) if drain_mode == 0 and ex[0] != "adv_next" else ex)
                        sc.append(a)
                        if drain_mode == 1 or k != pos:
                            sc.append(("drain",))
                    if pos == len(base):
                        sc.append(ex)
                    sc.append(("drain",))
                    for _ in range(3):
                        sc += [("adv_next",), ("drain",)]
                    out.append({"scenario": sc, "expect": False, "scripts": {}, "keepalive": 20480, "login": login})
    return out


def story_text(st):
    return {"scenario": [list(a) if not isinstance(a, tuple) else a for a in st["scenario"]], "expect": st["expect"],
            "scripts": {str(k): v for k, v in st["scripts"].items()}, "keepalive": st["keepalive"], "login": st.get("login", False),
            **{k: st[k] for k in ("hook", "probe") if k in st}}


def story_from_json(d):
    def tup(x):
        if isinstance(x, list):
            return tuple(tup(y) if isinstance(y, list) and (not y or not isinstance(y[0], (list, tuple)) or True) else y for y in x)
        return x

    def act(a):
        a = list(a)
        if a[0] == "hop":
            return ("hop", a[1], act(a[2]))
        if a[0] == "data":
            return ("data", [tuple(i) for i in a[1]])
        if a[0] == "call":
            return ("call", list(a[1]), list(a[2]), a[3], a[4], a[5])
        if a[0] == "send":
            return ("send", list(a[1]))
        return tuple(a)
    return {"scenario": [act(a) for a in d["scenario"]], "expect": d["expect"],
            "scripts": {int(k): [tuple(x) for x in v] for k, v in d["scripts"].items()}, "keepalive": d["keepalive"], "login": d.get("login", False),
            **{k: d[k] for k in ("hook", "probe") if k in d}}


def shrink(story, still_fails, budget=60):
    """Greedy removal of scenario actions while the predicate keeps failing."""
    sc = list(story["scenario"])
    i = len(sc) - 1
    tries = 0
    while i >= 0 and tries < budget:
        cand = sc[:i] + sc[i + 1:]
        st = dict(story, scenario=cand)
        tries += 1
        try:
            if still_fails(st):
                sc = cand
        except Exception:
            pass
        i -= 1
    return dict(story, scenario=sc)


def run(rep, tier, seed, prop, vfile, rule):
    global N_REG
    N_REG = n_registered()
    rng = random.Random(seed)
    pred = PREDICATES[prop]
    rep.coverage["rule"] = rule
    proofs_ok = rep.proofs(vfile)
    ok, log = common.build_driver()
    if not ok:
        raise RuntimeError("driver build failed: " + log[-2000:])
    stories = []
    corpus = common.VERIF / "corpus" / "conn.json"
    if corpus.exists():
        stories += [("corpus", story_from_json(d)) for d in json.loads(corpus.read_text())]
    stories += [("window", s) for s in window_stories(prop)]
    if tier == "thorough":
        stories += [("systematic", s) for s in systematic_stories(rng, 4)]
    n = 600 if tier == "quick" else 6000
    stories += [("random", connstories.gen_story(rng)) for _ in range(n)]
    disagreements = []
    B = 500
    for off in range(0, len(stories), B):
        batch = stories[off:off + B]
        results = connstories.run_stories([s for _, s in batch])
        for (kind, st), (st2, steps, problems, dis, tr) in zip(batch, results):
            rep.bump("kind:" + kind)
            rep.bump("labels:%d" % (10 * min(len(steps) // 10, 9)))
            for l, _, _ in steps:
                rep.bump("label:" + l.split(":")[0])
            closed = any(p.startswith("CLOSED") for _, p, _ in steps)
            nontrivial = closed and len(steps) >= 8
            rep.case(tuple(l for l, _, _ in steps), nontrivial,
                     sample={"kind": kind, "labels": [l for l, _, _ in steps][:40], "final": steps[-1][1] if steps else None})
            rep.coverage["traces_validated_against_impl"] += 1
            for sig, what, at in pred(tr, st):
                def still(s2, sig=sig):
                    tr2 = connstories.run_impl(s2)
                    return any(s == sig for s, _, _ in pred(tr2, s2))
                small = shrink(st, still) if not any(s == sig for s, _, _ in rep.violations) else st
                tr3 = connstories.run_impl(small)
                rep.violation(sig, what, {"kind": "impl-trace", "story": story_text(small),
                                          "callbacks": [(l, p, o) for l, p, o in tr3.steps][-40:]})
            if (dis or problems) and not st.get("probe"):
                disagreements.append({"story": story_text(st), "disagreement": dis, "problems": [list(map(str, p)) for p in problems[:2]]})
    rep.coverage["disagreements"] = len(disagreements)
    if disagreements and not rep.violations:
        rep.violations.append((f"{prop}/correspondence",
                               "Model/Conn.v and the real APIConnection disagree on a trace; no violation of this property found among the explored stories",
                               {"kind": "no-failing-input-found", "obligation": "trace validation Conn.step ~ APIConnection (vlib/conntrace.py)",
                                "first_disagreements": disagreements[:3]}))
    if not proofs_ok and not rep.violations:
        rep.proof_broken(rep.broken[0], rep.broken[1])


def replay(path, prop):
    global N_REG
    common.setup_impl_path()
    N_REG = n_registered()
    d = json.loads(open(path).read())["replay"]
    if "story" not in d:
        print("nothing to replay:", d.get("kind"))
        return 0
    st = story_from_json(d["story"])
    tr = connstories.run_impl(st)
    vs = PREDICATES[prop](tr, st)
    for l, p, o in tr.steps:
        if l != "silent":
            print(l, "|", p, "|", ",".join(o))
    for sig, what, at in vs:
        print("VIOLATED:", sig, what)
    return 1 if vs else 0
