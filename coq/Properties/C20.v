(* C20 - address resolution order and fall-backs; zeroconf instances are owned correctly.
   Model/Resolver.v mirrors host_resolver.async_resolve_host and zeroconf.ZeroconfManager; ipaddress.ip_address, the mDNS
   lookup and getaddrinfo are oracles (their answers are inputs), the string predicates of util.py are modelled on strings. *)
From Coq Require Import NArith String List Bool.
From Verif Require Import Model.Resolver Proofs.ResolverProofs.
Import ListNotations.
Open Scope string_scope.

Theorem C20_literal_verbatim : forall h a,
  is_local_name h = false -> h_literal h = Some a -> resolve_one h = (Some [a], false, []).
Proof. exact literal_verbatim. Qed.
Theorem C20_local_name_mdns_first : forall h,
  is_local_name h = true ->
  exists res z rest, resolve_one h = (res, z, CallMdns (before_first_dot (h_name h)) :: rest) /\
    match h_mdns h with
    | MdnsOk v6 v4 => z = false /\ ((v6 ++ v4)%list <> [] -> res = Some (v6 ++ v4)%list /\ rest = []) /\
                      ((v6 ++ v4)%list = [] -> rest = [CallOs (h_name h)] /\ res = match h_os h with OsOk l => Some l | OsErr => None end)
    | MdnsErr => z = true /\ rest = [CallOs (h_name h)] /\ res = match h_os h with OsOk l => Some l | OsErr => None end
    end.
Proof. exact local_name_mdns_first. Qed.
Theorem C20_other_name_os_only : forall h,
  is_local_name h = false -> h_literal h = None ->
  resolve_one h = (match h_os h with OsOk l => Some l | OsErr => None end, false, [CallOs (h_name h)]).
Proof. exact other_name_os_only. Qed.
(* results keep the configured order and are never empty; the lookups are made host by host in that order *)
Theorem C20_in_order_never_empty : forall hs l, fst (resolve hs) = inl l -> all_contributions hs = Some l /\ l <> [].
Proof. exact resolve_in_order. Qed.
Theorem C20_never_returns_empty : forall hs, fst (resolve hs) <> inl [].
Proof. exact resolve_never_empty. Qed.
Theorem C20_calls_in_order : forall hs l, fst (resolve hs) = inl l -> snd (resolve hs) = flat_map calls_of hs.
Proof. exact resolve_calls. Qed.

(* ownership, for every sequence of manager operations from a fresh manager *)
Theorem C20_never_closes_application_instance : forall ops,
  ~ In (ZClosed App) (snd (zrun (mkZcm false None) ops)) /\ zinv (fst (zrun (mkZcm false None) ops)).
Proof.
  intro ops. destruct (never_closes_application_instance ops (mkZcm false None)) as [A B].
  - unfold zinv. cbn. split; intro Q; discriminate.
  - split; [exact B|exact A].
Qed.
Theorem C20_lookup_closes_what_it_created : forall s ok,
  z_inst s = None -> zstep s (ZServiceInfo ok) = (mkZcm false None, [ZCreated; ZClosed Lib]).
Proof. exact lookup_closes_what_it_created. Qed.
Theorem C20_lookup_keeps_existing : forall s ok o, z_inst s = Some o -> zstep s (ZServiceInfo ok) = (s, []).
Proof. exact lookup_keeps_existing. Qed.
Theorem C20_stop_closes_library_instance : forall s, zinv s -> z_inst s = Some Lib -> zstep s ZClose = (mkZcm false None, [ZClosed Lib]).
Proof. exact stop_closes_library_instance. Qed.
Theorem C20_stop_keeps_application_instance : forall s, zinv s -> z_inst s = Some App -> zstep s ZClose = (s, []).
Proof. exact stop_keeps_application_instance. Qed.

Example C20_strings :
  (map is_local_name [mkHost "a" None MdnsErr OsErr; mkHost "a.local" None MdnsErr OsErr; mkHost "a.local." None MdnsErr OsErr;
                      mkHost "a.b.local" None MdnsErr OsErr; mkHost "a.example.com" None MdnsErr OsErr; mkHost "1.2.3.4" None MdnsErr OsErr;
                      mkHost "fe80::5%7" None MdnsErr OsErr; mkHost "local" None MdnsErr OsErr; mkHost "alocal" None MdnsErr OsErr],
   before_first_dot "a.b.local")
  = ([true; true; true; true; false; false; false; true; true], "a").
Proof. vm_compute. reflexivity. Qed.
Example C20_mixed :
  resolve [mkHost "10.0.0.1" (Some 1%N) MdnsErr OsErr; mkHost "dev" None (MdnsOk [6%N] [4%N]) OsErr; mkHost "x.local" None (MdnsOk [] []) (OsOk [9%N]);
           mkHost "h.example.com" None MdnsErr (OsOk [7%N; 8%N])]
  = (inl [1; 6; 4; 9; 7; 8]%N, [CallMdns "dev"; CallMdns "x"; CallOs "x.local"; CallOs "h.example.com"]).
Proof. vm_compute. reflexivity. Qed.

(* a host on which the mDNS engine cannot be created (AsyncZeroconf() raises OSError): the failed creation leaves the manager as
   it was - in particular it does not come to believe that it owns whatever instance it is given later - so the application can
   still hand over its own engine, which no later operation closes (covered by C20_never_closes_application_instance: the
   theorem quantifies over all operation histories, these two operations included) *)
Theorem C20_failed_creation_changes_nothing : forall s,
  z_inst s = None -> zstep s ZGetNoSockets = (s, [ZRaise]) /\ zstep s ZServiceInfoNoSockets = (s, [ZRaise]).
Proof. intros s H. cbn. rewrite H. split; reflexivity. Qed.
Example C20_failed_creation_then_application_instance :
  zrun (mkZcm false None) [ZGetNoSockets; ZSetInstance; ZClose; ZServiceInfoNoSockets; ZClose]
  = (mkZcm false (Some App), [ZRaise]).
Proof. vm_compute. reflexivity. Qed.
