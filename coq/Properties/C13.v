(* C13 — message-id registry equals api.proto ids; traffic respects direction.
   The tables are regenerated from /repo on every run (Generated/*.v); each theorem applies a
   generic checker-soundness lemma (proved for all tables) to today's tables by vm_compute. *)
From Coq Require Import NArith ZArith String List.
From Verif Require Import Model.Schema Proofs.SchemaProofs.
From Verif Require Import Generated.GenRegistry Generated.GenProto Generated.GenDescriptors Generated.GenClientAPI.
Import ListNotations.

(* (1) the registry, as a finite map, is exactly { id |-> name : message declares option (id) = id <> 0 } *)
Theorem C13_registry_is_proto :
  forall id name, In (id, name) registry <->
    exists m, In m proto_messages /\ m_name m = name /\ m_id m = id /\ id <> 0%N.
Proof. apply check_registry_is_proto_sound. vm_compute. reflexivity. Qed.

(* (2) ids are unique and contiguous from 1 in table order: positional lookup [id-1] selects the
   entry registered under id, for every id; class names are unique, so the inverse map used for
   sending is a function *)
Theorem C13_ids_unique_contiguous :
  NoDup (map fst registry) /\ NoDup (map snd registry) /\
  (forall id name, In (id, name) registry -> (1 <= id <= N.of_nat (length registry))%N) /\
  (forall id, (1 <= id <= N.of_nat (length registry))%N ->
     exists name, nth_error registry (N.to_nat id - 1) = Some (id, name)).
Proof. apply check_contiguous_sound. vm_compute. reflexivity. Qed.

(* (3) the compiled descriptors agree with the .proto text: messages (fields: name, number, type,
   repeated; id and source options) and enums (value names and numbers) *)
Theorem C13_descriptors_agree :
  desc_messages = proto_messages /\ desc_enums = proto_enums.
Proof. apply check_descriptors_sound. vm_compute. reflexivity. Qed.

(* (4) every class an entry point may send is client- or both-originated; every class it may
   subscribe to is server- or both-originated *)
Theorem C13_direction :
  NoDup (map m_name proto_messages) /\
  forall ep sent subs, In (ep, sent, subs) client_api ->
    (forall c, In c sent -> exists m, In m proto_messages /\ m_name m = c /\ m_source m <> SRC_SERVER) /\
    (forall c, In c subs -> exists m, In m proto_messages /\ m_name m = c /\ m_source m <> SRC_CLIENT).
Proof. apply check_direction_sound. vm_compute. reflexivity. Qed.

(* non-vacuity: the tables are not empty and the checkers can fail *)
Example C13_nonvacuous :
  (0 < length registry)%nat /\ (0 < length proto_messages)%nat /\ (0 < length client_api)%nat /\
  check_registry_is_proto ((7%N, "Bogus"%string) :: registry) proto_messages = false /\
  check_direction proto_messages [("x"%string, ["HelloResponse"%string], [])] = false.
Proof. vm_compute. repeat split; auto with arith. Qed.
