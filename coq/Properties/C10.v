(* C10 - keepalive: ping only when idle; a silent peer is dropped 4.5K after the first unanswered ping, i.e. between
   5.5K and 6.5K after its last message; a live peer never.
   Model/Keepalive.v mirrors the keepalive trio of connection.py with K = 2h for ARBITRARY h > 0 and the ratio read from
   the source (GenConstants); the adversary is any sequence of events (message arrivals, the two timers, time moving up to
   the next armed deadline), i.e. every arrival schedule. *)
From Coq Require Import ZArith List Bool.
From Verif Require Import Generated.GenConstants Model.Keepalive Proofs.KeepaliveProofs Proofs.Product.
Import ListNotations.
Open Scope Z_scope.

Definition reachable (h : Z) (s : ka) : Prop := exists es o, ka_run h (ka_init h) es = Some (s, o).
Lemma reachable_KI h s : 0 < h -> reachable h s -> KI h s.
Proof. intros Hh (es & o & E). eapply KI_run; [exact Hh|apply KI_init; exact Hh|exact E]. Qed.

(* (1) at a keepalive tick (always at a multiple of K) a ping is written iff no message arrived since the previous tick *)
Theorem C10_ping_iff_idle : forall h s s' o,
  0 < h -> reachable h s -> ka_step h s KTick = Some (s', o) ->
  k_now s = 2 * h * (g_ticks s + 1) /\
  ((g_arr_since_tick s = false /\ g_last_arr s <= k_now s - 2 * h /\ o = [KPingSent (k_now s)]) \/
   (g_arr_since_tick s = true /\ k_now s - 2 * h <= g_last_arr s /\ o = [])).
Proof. intros h s s' o Hh Hr. apply ping_iff_idle; [exact Hh|apply reachable_KI; assumption]. Qed.

(* (2)+(3) death happens exactly 4.5K (= 9h) after the first ping since the last message, that ping was written at a tick at
   least K after the last message, and hence between 5.5K (= 11h) and 6.5K (= 13h) after the last message *)
Theorem C10_dead_exactly : forall h s s' o,
  0 < h -> reachable h s -> ka_step h s KPong = Some (s', o) ->
  exists p j, g_first_ping s = Some p /\ p = 2 * h * j /\ 1 <= j /\
              o = [KDead (p + 9 * h)] /\ k_now s = p + 9 * h /\
              g_last_arr s <= p - 2 * h /\
              11 * h <= k_now s - g_last_arr s <= 13 * h.
Proof. intros h s s' o Hh Hr. apply dead_exactly; [exact Hh|apply reachable_KI; assumption]. Qed.

(* nothing else pings or kills; a message disarms the pong deadline (a peer that keeps talking is never dropped) *)
Theorem C10_obs_sources : forall h s e s' o x,
  ka_step h s e = Some (s', o) -> In x o ->
  match x with KPingSent t => e = KTick /\ t = k_now s | KDead t => e = KPong /\ t = k_now s end.
Proof. exact obs_sources. Qed.
Theorem C10_arrival_disarms : forall h s s' o, ka_step h s KArr = Some (s', o) -> k_pong s' = None /\ k_pending s' = false /\ o = [].
Proof. exact arrival_disarms. Qed.
(* all observations of all schedules: pings at multiples of K, death at a multiple of K plus 4.5K *)
Theorem C10_all_runs : forall h es s' o x,
  0 < h -> ka_run h (ka_init h) es = Some (s', o) -> In x o ->
  match x with
  | KPingSent t => exists j, 1 <= j /\ t = 2 * h * j
  | KDead t => exists p j, 1 <= j /\ p = 2 * h * j /\ t = p + 9 * h
  end.
Proof. intros h es s' o x Hh E. eapply run_obs; [exact Hh|apply KI_init; exact Hh|exact E]. Qed.

Example C10_ratio : (KEEP_ALIVE_RATIO_NUM, KEEP_ALIVE_RATIO_DEN) = (9, 2). Proof. reflexivity. Qed.
(* K = 10 (h = 5): messages at 3, 10, 19 then silence: no ping at 10 or 20 (traffic in both intervals), pings from 30 on, dead at 30 + 45 = 75 *)
Example C10_demo : ka_sim 200 5 (ka_init 5) [3; 10; 19] 200 = [KPingSent 30; KPingSent 40; KPingSent 50; KPingSent 60; KPingSent 70; KDead 75].
Proof. vm_compute. reflexivity. Qed.

(* ---------------------------------------------------------------- several sessions in one process *)
(* Two keep-alive schedules side by side (same K or not, established at different times) are the interleaving product of two
   machines (Proofs/Product.v): each one's pings and death are those of its own run on its own events, so the theorems above
   hold for each session whatever its neighbour does. That the CODE keeps no keep-alive state outside the connection is what
   the neighbour-session schedules of checks/c10.py test. *)
Definition ka_pair_run (h1 h2 : Z) :=
  prun ka ka kev kev (list kobs) (list kobs) (ka_step h1) (ka_step h2).

Lemma ka_run_is_runA : forall h es s,
  ka_run h s es = option_map (fun r => (fst r, concat (snd r))) (runA ka kev (list kobs) (ka_step h) s es).
Proof.
  induction es as [|e r IH]; intro s; cbn; [reflexivity|].
  destruct (ka_step h s e) as [[s1 o]|]; [|reflexivity]. rewrite IH.
  destruct (runA ka kev (list kobs) (ka_step h) s1 r) as [[s2 os]|]; reflexivity.
Qed.

Lemma ka_run_is_runB : forall h es s,
  ka_run h s es = option_map (fun r => (fst r, concat (snd r))) (runB ka kev (list kobs) (ka_step h) s es).
Proof.
  induction es as [|e r IH]; intro s; cbn; [reflexivity|].
  destruct (ka_step h s e) as [[s1 o]|]; [|reflexivity]. rewrite IH.
  destruct (runB ka kev (list kobs) (ka_step h) s1 r) as [[s2 os]|]; reflexivity.
Qed.

Theorem C10_neighbour_sessions_independent : forall h1 h2 es a b a' b' os,
  ka_pair_run h1 h2 (a, b) es = Some ((a', b'), os) ->
  ka_run h1 a (labelsA kev kev es) = Some (a', concat (obsA (list kobs) (list kobs) os)) /\
  ka_run h2 b (labelsB kev kev es) = Some (b', concat (obsB (list kobs) (list kobs) os)).
Proof.
  intros h1 h2 es a b a' b' os H.
  destruct (product_projects _ _ _ _ _ _ (ka_step h1) (ka_step h2) es a b a' b' os H) as [HA HB].
  rewrite ka_run_is_runA, ka_run_is_runB, HA, HB. split; reflexivity.
Qed.

(* every ping of a session that runs beside another one is written at a multiple of ITS OWN K after ITS OWN start, and its
   death comes 4.5 K after such a ping - for all schedules of both sessions *)
Theorem C10_neighbour_all_runs : forall h1 h2 es a' b' os x,
  0 < h1 -> ka_pair_run h1 h2 (ka_init h1, ka_init h2) es = Some ((a', b'), os) ->
  In x (concat (obsA (list kobs) (list kobs) os)) ->
  match x with
  | KPingSent t => exists j, 1 <= j /\ t = 2 * h1 * j
  | KDead t => exists p j, 1 <= j /\ p = 2 * h1 * j /\ t = p + 9 * h1
  end.
Proof.
  intros h1 h2 es a' b' os x Hh H Hx.
  destruct (C10_neighbour_sessions_independent _ _ _ _ _ _ _ _ H) as [HA _].
  exact (C10_all_runs h1 _ _ _ x Hh HA Hx).
Qed.
