(* C09 - operations end in bounded time with a classified error; first cause wins.
   Proved here: EVERY task outcome of EVERY run is the result, an error of the library hierarchy, or - for disconnect() and
   request/response calls only - a cancellation (C09_every_outcome_classified, by an invariant on what the call futures can
   hold), and such a cancellation only when the caller had cancelled that very operation (C09_cancellation_only_by_caller, by the
   invariant that ties every awaited call to the one task that awaits it); classification of every exit of start_connection, of the error wrapper and of what waiters receive; the first
   fatal cause is kept and is what every pending waiter gets; awaits are entered with their timers armed at the documented
   bounds and virtual time cannot pass an armed deadline; and NO AWAIT IS UNGUARDED: in every reachable state every suspended
   coroutine of the connection can be resumed now, or waits under an armed deadline (which time cannot pass and whose firing
   makes it resumable), or waits for the transport's own connection_made call (C09_no_unguarded_await, C09_ready_task_resumes,
   C09_reached_deadline_fires, C09_connection_made_arrives; Proofs/ConnGuard.v, all 35 labels), and every armed deadline lies
   within its documented bound of the present (C09_phase_deadlines_bounded, C09_call_timers_exact).  PARTIAL in one named respect:
   the numeric composition "hence start_connection is over by start + RESOLVE_TIMEOUT + groups * TCP_CONNECT_TIMEOUT" etc. is
   not one theorem about runs (the model has no fairness assumption: that a resumable task IS resumed is asyncio's part);
   completion times are checked on the implementation under the virtual clock on every run. *)
From Coq Require Import NArith ZArith List Bool.
From Verif Require Import Generated.GenConstants Model.Conn Proofs.ConnCalls Proofs.ConnErrors Proofs.ConnHello Proofs.ConnOutcome Proofs.ConnCancel Proofs.ConnGuard Proofs.ConnLeak Proofs.ConnBound.
Import ListNotations.
Open Scope Z_scope.

Theorem C09_wrapper_always_library : forall c e, exists l, wrap_fatal c e = Lib l.
Proof. exact wrap_fatal_is_library. Qed.
Theorem C09_waiters_always_library : forall f, exists l, waiter_exc f = Lib l.
Proof. exact waiter_exc_is_library. Qed.
(* every way start_connection / a failing finish_connection ends: the result, or an error of the library hierarchy *)
Theorem C09_start_classified : forall c c' o, wake_start c = Some (c', o) -> done_ok TStart o.
Proof. exact start_task_classified. Qed.
Theorem C09_finish_failure_classified : forall c e, done_ok TFinish (snd (finish_fail c e)).
Proof. exact finish_fail_classified. Qed.
(* a request/response call: cancellation only when the task itself was cancelled, a timeout becomes TimeoutAPIError,
   a close hands over waiter_exc (first fatal cause) *)
Theorem C09_call_outcome : forall c cid c' o kk,
  wake_call c cid = Some (c', o) -> get_call c cid = Some kk ->
  In (OTaskDone (TCall cid)
        (if must_cancel (get_task c (TCall cid)) then TRaise CancelledErr
         else match deliver_cfut (c_fut kk) with DOk => TOk | DExc e => TRaise e end)) o.
Proof. exact wake_call_outcome. Qed.
Example C09_timeout_is_library : deliver_cfut (CExc PyTimeout) = DExc (Lib LTimeout). Proof. reflexivity. Qed.

(* first cause wins *)
Theorem C09_first_cause_kept : forall c e,
  fatal (fst (report_fatal c e)) = Some (match fatal c with Some f => f | None => e end).
Proof. exact first_cause_kept. Qed.
Theorem C09_waiters_get_first_cause : forall c k,
  cs c <> Closed -> In k (calls c) -> c_fut k = CPending -> existsb (Nat.eqb (c_id k)) (waiters c) = true ->
  exists k', In k' (calls (fst (cleanup c))) /\ c_id k' = c_id k /\ c_fut k' = CExc (waiter_exc (fatal c)).
Proof. exact waiters_get_first_cause. Qed.
(* requires-encryption is not masked by the socket-closed that follows it *)
Example C09_requires_encryption_not_masked :
  let c := fst (report_fatal (init false false 20480 []) (Lib LRequiresEncryption)) in
  (fatal (fst (report_fatal c (Lib LSocketClosed))), wrap_fatal c (Raw RReset), wrap_fatal c CancelledErr)
  = (Some (Lib LRequiresEncryption), Lib LRequiresEncryption, Lib LRequiresEncryption).
Proof. vm_compute. reflexivity. Qed.

(* timers: armed on entry, time cannot pass them, documented bounds *)
Theorem C09_start_arms_timer : forall c c',
  step c LStart = Some (c', []) -> conn_timer c' = Some (now c + RESOLVE_TIMEOUT) /\ In (now c + RESOLVE_TIMEOUT) (armed_deadlines c').
Proof. exact start_arms_resolve_timer. Qed.
Theorem C09_time_respects_deadlines : forall c t c' o,
  step c (LAdvance t) = Some (c', o) -> forall d, In d (armed_deadlines c) -> t <= d.
Proof. exact advance_respects_deadlines. Qed.
Example C09_documented_bounds :
  (RESOLVE_TIMEOUT, TCP_CONNECT_TIMEOUT, HANDSHAKE_TIMEOUT, CONNECT_REQUEST_TIMEOUT, DISCONNECT_CONNECT_TIMEOUT, DISCONNECT_RESPONSE_TIMEOUT)
  = (30 * UNITS_PER_SECOND, 60 * UNITS_PER_SECOND, 30 * UNITS_PER_SECOND, 30 * UNITS_PER_SECOND, 5 * UNITS_PER_SECOND, 10 * UNITS_PER_SECOND).
Proof. reflexivity. Qed.

(* ---------------------------------------------------------------- every outcome of every run *)
(* OTaskDone t r is the observation "the awaited operation t ended with r" (t = start_connection, finish_connection,
   disconnect, a request/response call).  In every run from the initial state - every interleaving of user calls, device
   frames, faults, timers and wake-ups - r is the result, an error of the library's hierarchy, or a cancellation, and a
   cancellation only ever ends disconnect() or a request/response call, never one of the two connect phases: no raw socket,
   time-out, index or attribute error escapes.  (Proofs/ConnOutcome.v: the futures of the call table of a reachable state hold
   only the result, asyncio's time-out - which the awaiter turns into TimeoutAPIError -, a library error or a cancellation.) *)
Theorem C09_every_outcome_classified : forall n e ka scr ls c os o t r,
  run (init n e ka scr) ls = Some (c, os) -> In o os -> In (OTaskDone t r) o ->
  r = TOk \/ (exists l, r = TRaise (Lib l)) \/ (r = TRaise CancelledErr /\ (t = TDisc \/ exists cid, t = TCall cid)).
Proof.
  intros n e ka scr ls c os o t r E Ho Hr.
  destruct (run_outcomes ls _ _ _ (F1_init n e ka scr) E) as [_ F]. rewrite Forall_forall in F.
  destruct (F o Ho t r Hr) as [A|[A|[A B]]]; auto. right. right. split; [exact A|].
  destruct t; try discriminate; eauto.
Qed.

Theorem C09_connect_phases_never_cancelled : forall n e ka scr ls c os o t r,
  run (init n e ka scr) ls = Some (c, os) -> In o os -> In (OTaskDone t r) o -> t = TStart \/ t = TFinish ->
  r = TOk \/ exists l, r = TRaise (Lib l).
Proof.
  intros n e ka scr ls c os o t r E Ho Hr Ht.
  destruct (C09_every_outcome_classified n e ka scr ls c os o t r E Ho Hr) as [A|[A|[_ [B|[cid B]]]]]; auto;
    destruct Ht; subst; discriminate.
Qed.

Theorem C09_reachable_futures_classified : forall n e ka scr ls c os k,
  run (init n e ka scr) ls = Some (c, os) -> In k (calls c) -> forall x, c_fut k = CExc x -> x = PyTimeout \/ exists l, x = Lib l.
Proof. exact reachable_futures_classified. Qed.

(* non-vacuity: a call that times out, one that is cancelled by its caller, one that meets a reset *)
Definition hello9 : msg := mkMsg T_HELLO_RESP true 0 1 NameEmpty false.
Definition connect9 : list label :=
  [LStart; LResolveDone None 1; LWake TStart; LTcpDone None; LWake TStart; LIntr true;
   LFinish false; LMade; LMadeWaiter; LWake TFinish; LData [DFrame hello9]; LWake TFinish; LIntr false].
Definition last_obs (ls : list label) := option_map (fun r => last (snd r) []) (run (init false false 20480 []) ls).
Example C09_timeout_outcome :
  last_obs (connect9 ++ [LCallStart [T_PING_REQ] [T_PING_RESP] PAny PAny 1024; LAdvance 1024; LTimer (TkCall 1); LWake (TCall 1)])
  = Some [OTaskDone (TCall 1) (TRaise (Lib LTimeout))].
Proof. vm_compute. reflexivity. Qed.
Example C09_cancelled_outcome :
  last_obs (connect9 ++ [LCallStart [T_PING_REQ] [T_PING_RESP] PAny PAny 1024; LCancel (TCall 1); LWake (TCall 1)])
  = Some [OTaskDone (TCall 1) (TRaise CancelledErr)].
Proof. vm_compute. reflexivity. Qed.
Example C09_reset_outcome :
  last_obs (connect9 ++ [LCallStart [T_PING_REQ] [T_PING_RESP] PAny PAny 1024; LLost (Some (Raw RReset)); LConnLostCb; LWake (TCall 1)])
  = Some [OTaskDone (TCall 1) (TRaise (Lib LReadFailed))].
Proof. vm_compute. reflexivity. Qed.

(* ---------------------------------------------------------------- a cancellation the caller did not request never escapes *)
(* user_cancelled is the model's ghost flag "the caller cancelled this very task"; Model/Conn.v assigns it in exactly one place,
   the LCancel label.  In every run: when disconnect() or a request/response call ends with CancelledError, the flag of that
   task was up before the step - neither the interrupt that a closing connection delivers to the two connect phases, nor the
   cancellation of another operation, nor a time-out ever surfaces as a cancellation of this one.
   (Proofs/ConnCancel.v: invariant over all 35 labels - call ids unique and below the counter, every awaited call exists and is
   owned by the task awaiting it, a pending cancel flag or a cancelled future only on tasks their caller cancelled.) *)
Theorem C09_cancellation_only_by_caller : forall n e ka scr l1 c1 os1 l c2 o t,
  run (init n e ka scr) l1 = Some (c1, os1) -> step c1 l = Some (c2, o) ->
  In (OTaskDone t (TRaise CancelledErr)) o -> (t = TDisc \/ exists cid, t = TCall cid) ->
  user_cancelled (get_task c1 t) = true.
Proof. exact cancellation_only_by_caller. Qed.

Theorem C09_awaited_call_owned : forall n e ka scr ls c os t cid,
  run (init n e ka scr) ls = Some (c, os) -> t <> TStart -> awaited (pc (get_task c t)) = Some cid ->
  exists kk, get_call c cid = Some kk /\ c_owner kk = t.
Proof. exact awaited_call_owned. Qed.

(* non-vacuity: C09_cancelled_outcome above is a run in which the caller cancels a call and it ends with CancelledError;
   here the flag of that task just before its last step *)
Example C09_cancelled_flag :
  option_map (fun r => user_cancelled (get_task (fst r) (TCall 1)))
    (run (init false false 20480 []) (connect9 ++ [LCallStart [T_PING_REQ] [T_PING_RESP] PAny PAny 1024; LCancel (TCall 1)])) = Some true.
Proof. vm_compute. reflexivity. Qed.

(* ---- no await is unguarded (bounded time, the part that is logic) *)
(* ready_now c t: the wake-up guard of task t holds; deadline_of c t: the timer standing behind what t awaits *)
Theorem C09_no_unguarded_await : forall n e ka scr ls c os t,
  run (init n e ka scr) ls = Some (c, os) -> task_running (get_task c t) = true ->
  ready_now c t \/ (exists d, deadline_of c t = Some d /\ In d (armed_deadlines c)) \/
  (t = TFinish /\ pc (get_task c t) = PF_Create /\ made_waiter c = EPending).
Proof. exact no_unguarded_await. Qed.
Theorem C09_ready_task_resumes : forall n e ka scr ls c os t,
  run (init n e ka scr) ls = Some (c, os) -> task_running (get_task c t) = true -> ready_now c t -> step c (LWake t) <> None.
Proof. exact ready_task_resumes. Qed.
Theorem C09_reached_deadline_fires : forall n e ka scr ls c os t d,
  run (init n e ka scr) ls = Some (c, os) -> task_running (get_task c t) = true -> deadline_of c t = Some d -> d <= now c ->
  exists k c' o, step c (LTimer k) = Some (c', o) /\ ready_now c' t.
Proof. exact reached_deadline_fires. Qed.
Theorem C09_connection_made_arrives : forall c, pc (t_finish c) = PF_Create -> made_waiter c = EPending ->
  exists c', step c LMadeWaiter = Some (c', []) /\ ready_now c' TFinish.
Proof. exact made_waiter_arrives. Qed.
(* the typing half of the invariant: a coroutine is only ever at one of its own program points *)
Theorem C09_every_await_guarded : forall n e ka scr ls c os t, run (init n e ka scr) ls = Some (c, os) -> tguard c t.
Proof. exact every_await_guarded. Qed.

(* every armed deadline is within its documented bound of the present: the two connect phases and disconnect()'s wait ... *)
Theorem C09_phase_deadlines_bounded : forall n e ka scr ls c os,
  run (init n e ka scr) ls = Some (c, os) ->
  (forall d, conn_timer c = Some d -> d <= now c + Z.max RESOLVE_TIMEOUT TCP_CONNECT_TIMEOUT) /\
  (forall d, hs_timer c = Some d -> d <= now c + HANDSHAKE_TIMEOUT) /\
  (forall d, disc_timer c = Some d -> d <= now c + DISCONNECT_CONNECT_TIMEOUT).
Proof. exact phase_deadlines_bounded. Qed.
(* ... and a call's timer is exactly the time its request was written plus its time-out, written no later than now *)
Theorem C09_call_timers_exact : forall n e ka scr ls c os k d,
  run (init n e ka scr) ls = Some (c, os) -> In k (calls c) -> c_timer k = Some d ->
  d = c_sent_at k + c_timeout k /\ c_sent_at k <= now c.
Proof. exact call_timers_exact. Qed.

(* non-vacuity: the deadline behind each await of a plain session (resolve, TCP, handshake, hello, a user call, disconnect) *)
Definition deadline9 (ls : list label) (t : tid) := option_map (fun r => deadline_of (fst r) t) (run (init false false 20480 []) ls).
Example C09_deadline_resolve : deadline9 [LStart] TStart = Some (Some RESOLVE_TIMEOUT).
Proof. vm_compute. reflexivity. Qed.
Example C09_deadline_tcp : deadline9 [LStart; LResolveDone None 1; LWake TStart] TStart = Some (Some TCP_CONNECT_TIMEOUT).
Proof. vm_compute. reflexivity. Qed.
Example C09_deadline_handshake :
  deadline9 [LStart; LResolveDone None 1; LWake TStart; LTcpDone None; LWake TStart; LIntr true; LFinish false; LMadeWaiter; LWake TFinish] TFinish
  = Some (Some HANDSHAKE_TIMEOUT).
Proof. vm_compute. reflexivity. Qed.
Example C09_deadline_call :
  deadline9 (connect9 ++ [LAdvance 100; LCallStart [T_PING_REQ] [T_PING_RESP] PAny PAny 1024]) (TCall 1) = Some (Some 1124).
Proof. vm_compute. reflexivity. Qed.
Example C09_deadline_disconnect : deadline9 (connect9 ++ [LDisconnect]) TDisc = Some (Some DISCONNECT_RESPONSE_TIMEOUT).
Proof. vm_compute. reflexivity. Qed.
