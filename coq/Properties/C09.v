(* C09 - operations end in bounded time with a classified error; first cause wins.
   Proved here: classification of every exit of start_connection, of the error wrapper and of what waiters receive; the first
   fatal cause is kept and is what every pending waiter gets; awaits are entered with their timers armed at the documented
   bounds and virtual time cannot pass an armed deadline.  PARTIAL in one named respect: the composition
   "hence every awaited operation is complete by start + bound" is not proved as one theorem about runs; it is
   checked on the implementation (completion times under the virtual clock, deadlock detector) on every run. *)
From Coq Require Import NArith ZArith List Bool.
From Verif Require Import Generated.GenConstants Model.Conn Proofs.ConnCalls Proofs.ConnErrors Proofs.ConnHello.
Import ListNotations.
Open Scope Z_scope.

Theorem C09_wrapper_always_library : forall c e, exists l, wrap_fatal c e = Lib l.
Proof. exact wrap_fatal_is_library. Qed.
Theorem C09_waiters_always_library : forall f, exists l, waiter_exc f = Lib l.
Proof. exact waiter_exc_is_library. Qed.
(* every way start_connection / a failing finish_connection ends: the result, or an error of the library hierarchy *)
Theorem C09_start_classified : forall c c' o, wake_start c = Some (c', o) -> done_ok TStart o.
Proof. exact start_task_classified. Qed.
Theorem C09_finish_failure_classified : forall c e, done_ok TFinish (snd (finish_fail c e)).
Proof. exact finish_fail_classified. Qed.
(* a request/response call: cancellation only when the task itself was cancelled, a timeout becomes TimeoutAPIError,
   a close hands over waiter_exc (first fatal cause) *)
Theorem C09_call_outcome : forall c cid c' o kk,
  wake_call c cid = Some (c', o) -> get_call c cid = Some kk ->
  In (OTaskDone (TCall cid)
        (if must_cancel (get_task c (TCall cid)) then TRaise CancelledErr
         else match deliver_cfut (c_fut kk) with DOk => TOk | DExc e => TRaise e end)) o.
Proof. exact wake_call_outcome. Qed.
Example C09_timeout_is_library : deliver_cfut (CExc PyTimeout) = DExc (Lib LTimeout). Proof. reflexivity. Qed.

(* first cause wins *)
Theorem C09_first_cause_kept : forall c e,
  fatal (fst (report_fatal c e)) = Some (match fatal c with Some f => f | None => e end).
Proof. exact first_cause_kept. Qed.
Theorem C09_waiters_get_first_cause : forall c k,
  cs c <> Closed -> In k (calls c) -> c_fut k = CPending -> existsb (Nat.eqb (c_id k)) (waiters c) = true ->
  exists k', In k' (calls (fst (cleanup c))) /\ c_id k' = c_id k /\ c_fut k' = CExc (waiter_exc (fatal c)).
Proof. exact waiters_get_first_cause. Qed.
(* requires-encryption is not masked by the socket-closed that follows it *)
Example C09_requires_encryption_not_masked :
  let c := fst (report_fatal (init false false 20480 []) (Lib LRequiresEncryption)) in
  (fatal (fst (report_fatal c (Lib LSocketClosed))), wrap_fatal c (Raw RReset), wrap_fatal c CancelledErr)
  = (Some (Lib LRequiresEncryption), Lib LRequiresEncryption, Lib LRequiresEncryption).
Proof. vm_compute. reflexivity. Qed.

(* timers: armed on entry, time cannot pass them, documented bounds *)
Theorem C09_start_arms_timer : forall c c',
  step c LStart = Some (c', []) -> conn_timer c' = Some (now c + RESOLVE_TIMEOUT) /\ In (now c + RESOLVE_TIMEOUT) (armed_deadlines c').
Proof. exact start_arms_resolve_timer. Qed.
Theorem C09_time_respects_deadlines : forall c t c' o,
  step c (LAdvance t) = Some (c', o) -> forall d, In d (armed_deadlines c) -> t <= d.
Proof. exact advance_respects_deadlines. Qed.
Example C09_documented_bounds :
  (RESOLVE_TIMEOUT, TCP_CONNECT_TIMEOUT, HANDSHAKE_TIMEOUT, CONNECT_REQUEST_TIMEOUT, DISCONNECT_CONNECT_TIMEOUT, DISCONNECT_RESPONSE_TIMEOUT)
  = (30 * UNITS_PER_SECOND, 60 * UNITS_PER_SECOND, 30 * UNITS_PER_SECOND, 30 * UNITS_PER_SECOND, 5 * UNITS_PER_SECOND, 10 * UNITS_PER_SECOND).
Proof. reflexivity. Qed.
