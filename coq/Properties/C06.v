(* C06 - sessions only with a compatible, correctly named, authenticated device. *)
From Coq Require Import NArith ZArith List Bool.
From Verif Require Import Generated.GenConstants Model.Conn Proofs.ConnCore Proofs.ConnRun Proofs.ConnHello.
Import ListNotations.
Open Scope Z_scope.

(* the decision made on the collected responses (process_hello_resp / process_login_response) accepts iff ... *)
Theorem C06_accept_iff : forall c rs,
  check_hello_login c rs = None <->
  exists h r, rs = h :: r /\ hello_ok c h /\ (login c = true -> exists l r', r = l :: r' /\ login_ok l).
Proof. exact check_ok_iff. Qed.

(* ... and otherwise names the specific error *)
Theorem C06_incompatible_version : forall c h r,
  m_ty h = T_HELLO_RESP -> MAX_SUPPORTED_MAJOR < Z.of_N (m_major h) -> check_hello_login c (h :: r) = Some (Lib LConn).
Proof. exact incompatible_version. Qed.
Theorem C06_bad_name : forall c h r,
  m_ty h = T_HELLO_RESP -> Z.of_N (m_major h) <= MAX_SUPPORTED_MAJOR -> m_name h = NameOther -> expect_name c = true ->
  check_hello_login c (h :: r) = Some (Lib LBadName).
Proof. exact bad_name. Qed.
Theorem C06_invalid_auth : forall c h l r,
  hello_ok c h -> login c = true -> m_ty l = T_CONNECT_RESP -> m_invalid_password l = true ->
  check_hello_login c (h :: l :: r) = Some (Lib LInvalidAuth).
Proof. exact invalid_auth. Qed.

(* finish_connection returns normally in exactly one way: its hello/login call completed with a result, the task was not
   cancelled, the decision accepted the responses, and the connection was not closed meanwhile - then it is CONNECTED *)
Theorem C06_success_only_if_accepted : forall c c' o,
  wake_finish c = Some (c', o) -> existsb is_finish_ok o = true ->
  exists cid kk, pc (t_finish c) = PF_Hello cid /\ get_call c cid = Some kk /\ c_fut kk = CResult /\
                 must_cancel (t_finish c) = false /\
                 check_hello_login (call_finally c cid) (c_responses kk) = None /\
                 cs c' = Connected /\ is_connected c' = true.
Proof. exact finish_ok_only_if_check. Qed.

(* the stop callback is only ever invoked for a connection that reached CONNECTED (C07), so a failed connect never calls it *)
Theorem C06_no_stop_unless_connected : forall c, reachable c -> stop_calls c <> [] -> ever_connected c = true.
Proof.
  intros c Hr Hn. destruct (stop_once c Hr) as (H1 & H2 & _). destruct H1 as [H1|[b Hb]]; [contradiction|].
  apply H2. eauto.
Qed.

(* boundary of the version check as read from connection.py, and non-vacuity *)
Example C06_boundary : MAX_SUPPORTED_MAJOR = 2. Proof. reflexivity. Qed.
Definition h1 : msg := mkMsg T_HELLO_RESP true 0 2 NameExpected false.
Definition h3 : msg := mkMsg T_HELLO_RESP true 0 3 NameExpected false.
Definition l0 : msg := mkMsg T_CONNECT_RESP true 0 0 NameEmpty false.
Example C06_examples :
  let c := (init false true 20480 []) in
  (check_hello_login c [h1], check_hello_login c [h3], check_hello_login c [l0; h1], check_hello_login c [])
  = (None, Some (Lib LConn), Some (Raw RAttribute), Some (Raw RIndex)).
Proof. vm_compute. reflexivity. Qed.
