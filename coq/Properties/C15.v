(* C15 - commands carry exactly the arguments the caller supplied.
   GenCommands.v is regenerated from client.py on every run by a fail-closed Python-ast translator (closed grammar:
   request construction, `if p is not None`, truthiness of a flag, API-version comparisons, `p == const`, assignments of a
   parameter / tuple component / int(round(p * 1000)) / enum constant / `p == Enum.X`). *)
From Coq Require Import NArith ZArith String List Bool.
From Verif Require Import Model.Schema Model.FloatFix Model.CommandIR Proofs.ConvertProofs Proofs.CommandProofs Generated.GenCommands.
Import ListNotations.
Open Scope string_scope.

(* cover_command has its own decision table below (legacy encodings); lock_command is known finding F6 *)
Definition exceptions : list string := ["cover_command"; "lock_command"].

(* (1) every other command method passes the static checks ... *)
Theorem C15_all_commands_wf : forall c, In c commands -> ~ In (c_name c) exceptions -> wf c = true.
Proof.
  assert (H : forallb (fun c => memb String.eqb (c_name c) exceptions || wf c) commands = true) by (vm_compute; reflexivity).
  intros c Hin Hne. rewrite forallb_forall in H. specialize (H c Hin). apply orb_true_iff in H. destruct H as [H|H]; [|exact H].
  exfalso. apply Hne. apply memb_In_str. exact H.
Qed.

(* (2) ... and for a command that passes them, for EVERY environment (every subset of supplied / omitted arguments, every
   value, falsy ones included) and every API version: an omitted optional argument leaves every field of its block unset
   (default); a supplied one puts its value (component, or whole milliseconds) into each field its block assigns - presence
   flags are such fields, assigned true; every field no statement mentions stays default *)
Theorem C15_wf_sound : forall c ev apiv,
  wf c = true ->
  (forall pre p th post, c_body c = (pre ++ SIf (CNotNone p) th [] :: post)%list ->
     (ev p = None -> forall f, In f (stmt_fields (SIf (CNotNone p) th [])) -> get f (exec c ev apiv) = None) /\
     (forall v, ev p = Some v -> forall f e, In (SAssign f e) th -> get f (exec c ev apiv) = Some (eval ev e))) /\
  (forall f, ~ In f (flat_map stmt_fields (c_init c ++ c_body c)%list) -> get f (exec c ev apiv) = None).
Proof. intros c ev apiv H. exact (wf_sound c ev apiv H). Qed.

(* known finding F6: lock_command writes the code but never the has_code flag the message declares *)
Definition lock_cmd := nth 12 commands (mkCmd "" "" [] [] [] [] []).
Theorem C15_lock_code_flag_refuted :
  c_name lock_cmd = "lock_command" /\ wf lock_cmd = false /\ In "has_code" (c_fields lock_cmd) /\
  forall ev apiv code, ev "code" = Some code ->
    get "code" (exec lock_cmd ev apiv) = Some (Some code) /\ get "has_code" (exec lock_cmd ev apiv) = None.
Proof.
  split; [reflexivity|]. split; [vm_compute; reflexivity|]. split; [vm_compute; tauto|].
  intros ev apiv code H. unfold lock_cmd, exec, exec_list. cbn. rewrite H. cbn. rewrite H. auto.
Qed.

(* (3) whole milliseconds: the integer nearest (ties to even) to the binary64 product x * 1000 *)
Theorem C15_round_half_unit : forall N D, (0 <= N -> 0 < D -> let r := rhe N D in - D <= 2 * (r * D - N) <= D)%Z.
Proof. exact rhe_half_unit. Qed.
Example C15_round_ms_examples :
  (* 1.001 s -> 1001 ms, 0.0006 s -> 1 ms, 0.1 (float32) -> 100 ms, 2.5 ms exactly -> 2 (ties to even) *)
  (round_ms false 4508103268041687 (-52), round_ms false 5534023222112865 (-63), round_ms false 13421773 (-27), round_ms false 5 (-11) ,
   round_ms false 5764607523034235 (-61))
  = (1001, 1, 100, 2, 2)%Z.
Proof. vm_compute. reflexivity. Qed.

(* (4) legacy encodings as decision tables over the generated IR *)
Definition cover_cmd := nth 0 commands (mkCmd "" "" [] [] [] [] []).
Definition climate_cmd := nth 4 commands (mkCmd "" "" [] [] [] [] []).
Definition stop_env (stop : bool) (pos : option cval) : env :=
  fun p => if String.eqb p "stop" then Some (VB stop) else if String.eqb p "position" then pos else if String.eqb p "key" then Some (VZ 7) else None.
Definition one := VF false 1 0.
Definition zero := VF false 0 0.
Definition half := VF false 1 (-1).
Definition view (m : message) (fs : list string) := map (fun f => get f m) fs.
Example C15_cover_legacy_table :
  c_name cover_cmd = "cover_command" /\
  (* below 1.1: stop wins, then position 1.0 = OPEN, 0.0 = CLOSE, anything else sends no command *)
  map (fun e => view (exec cover_cmd e (1, 0)%Z) ["legacy_command"; "has_legacy_command"; "has_position"; "position"; "stop"])
      [stop_env true (Some one); stop_env false (Some one); stop_env false (Some zero); stop_env false (Some half); stop_env false None]
  = [[Some (Some (VE "LegacyCoverCommand" "STOP")); Some (Some (VB true)); None; None; None];
     [Some (Some (VE "LegacyCoverCommand" "OPEN")); Some (Some (VB true)); None; None; None];
     [Some (Some (VE "LegacyCoverCommand" "CLOSE")); Some (Some (VB true)); None; None; None];
     [None; None; None; None; None];
     [None; None; None; None; None]] /\
  (* from 1.1 on: position / tilt with their flags, stop as a flag *)
  map (fun e => view (exec cover_cmd e (1, 1)%Z) ["legacy_command"; "has_legacy_command"; "has_position"; "position"; "stop"])
      [stop_env true (Some zero); stop_env false (Some half); stop_env false None]
  = [[None; None; Some (Some (VB true)); Some (Some zero); Some (Some (VB true))];
     [None; None; Some (Some (VB true)); Some (Some half); None];
     [None; None; None; None; None]].
Proof. vm_compute. repeat split; reflexivity. Qed.
Definition preset_env (v : cval) : env := fun p => if String.eqb p "preset" then Some v else if String.eqb p "key" then Some (VZ 7) else None.
Example C15_climate_preset_table :
  c_name climate_cmd = "climate_command" /\
  map (fun a => view (exec climate_cmd (preset_env (VE "ClimatePreset" "AWAY")) a) ["has_legacy_away"; "legacy_away"; "has_preset"; "preset"]) [(1, 4); (1, 5)]%Z
  = [[Some (Some (VB true)); Some (Some (VB true)); None; None]; [None; None; Some (Some (VB true)); Some (Some (VE "ClimatePreset" "AWAY"))]] /\
  view (exec climate_cmd (preset_env (VE "ClimatePreset" "HOME")) (1, 0)%Z) ["has_legacy_away"; "legacy_away"; "has_preset"; "preset"]
  = [Some (Some (VB true)); Some (Some (VB false)); None; None].
Proof. vm_compute. repeat split; reflexivity. Qed.
