(* C18 - reconnect manager: one attempt at a time, specified back-off, clean stop.
   Model/Reconnect.v: labelled transition system of reconnect_logic.py over a client whose attempt outcomes are adversarial
   (ok / auth error / other error, returning at any later time); user callbacks return at once; start() is issued while the
   connect task does not hold the lock.  Constants and the back-off expression are read from the source (GenConstants). *)
From Coq Require Import NArith ZArith List Bool.
From Verif Require Import Generated.GenConstants Model.FloatFix Model.Reconnect Proofs.ReconnectProofs.
Import ListNotations.
Open Scope Z_scope.

(* (1) for every history: at most one client connect call in flight - exactly while CONNECTING / HANDSHAKING *)
Theorem C18_one_attempt_at_a_time : forall s, rreachable s ->
  0 <= g_in_flight s <= 1 /\ (g_in_flight s = 1 <-> (r_state s = RConnecting \/ r_state s = RHandshaking)).
Proof. exact one_attempt_at_a_time. Qed.

(* (2) the wait after the n-th consecutive failure, for EVERY n >= 1: min(round(1.8^n), 60) s; 60 s from n = 7 on, hence also after
   authentication / encryption errors (tries := 100) *)
Theorem C18_backoff_spec : forall n, 1 <= n ->
  backoff_seconds n = (if 60 * 5 ^ n <=? 9 ^ n then 60 else rhe (9 ^ n) (5 ^ n)).
Proof. exact backoff_spec. Qed.
Theorem C18_backoff_capped : forall n, 7 <= n -> backoff_seconds n = 60.
Proof. exact backoff_capped. Qed.
Example C18_backoff_table : map backoff_seconds [1; 2; 3; 4; 5; 6; 7; 8; 100] = [2; 3; 6; 10; 19; 34; 60; 60; 60] /\ MAXIMUM_BACKOFF_TRIES = 100.
Proof. vm_compute. split; reflexivity. Qed.
Theorem C18_failure_schedules_backoff : forall s auth,
  let '(s', o) := failure s auth in
  r_timer s' = Some (r_now s + backoff_seconds (if auth then MAXIMUM_BACKOFF_TRIES else r_tries s + 1) * UNITS_PER_SECOND) /\
  r_tries s' = (if auth then MAXIMUM_BACKOFF_TRIES else r_tries s + 1) /\ r_state s' = RDisc /\ r_listening s' = true /\ In OConnectError o.
Proof. exact failure_schedules_backoff. Qed.
Theorem C18_unexpected_end_retries_at_once : forall s s' o,
  r_stopped s = false -> rstep s (LSessionEnd false) = Some (s', o) -> existsb is_attempt o = true.
Proof. exact unexpected_end_retries_at_once. Qed.
Theorem C18_expected_end_cools_down : forall s s' o,
  r_stopped s = false -> rstep s (LSessionEnd true) = Some (s', o) ->
  r_timer s' = Some (r_now s + EXPECTED_DISCONNECT_COOLDOWN) /\ existsb is_attempt o = false /\ r_state s' = RDisc.
Proof. exact expected_end_cools_down. Qed.
Example C18_cooldown : EXPECTED_DISCONNECT_COOLDOWN = 5 * UNITS_PER_SECOND. Proof. reflexivity. Qed.
Theorem C18_timer_exact : forall s s' o, rstep s LTimer = Some (s', o) -> r_timer s = Some (r_now s).
Proof. exact timer_exact. Qed.
Theorem C18_time_respects_timer : forall s t s' o d, rstep s (LAdv t) = Some (s', o) -> r_timer s = Some d -> t <= d.
Proof. exact time_respects_timer. Qed.

(* (3) mDNS records *)
Theorem C18_record_ignored_when_connected : forall s s' o,
  rreachable s -> (r_state s = RHandshaking \/ r_state s = RReady) -> rstep s LRecord = Some (s', o) -> s' = s /\ o = [].
Proof. exact record_ignored_when_connected. Qed.
Theorem C18_record_triggers_attempt_when_waiting : forall s s' o,
  r_state s = RDisc -> r_task s = TNone -> r_accept s = true -> r_stopped s = false -> r_listening s = true -> r_alive s = false ->
  rstep s LRecord = Some (s', o) -> existsb is_attempt o = true /\ r_state s' = RConnecting.
Proof. exact record_triggers_attempt_when_waiting. Qed.

(* (4) on_connect / on_disconnect strictly alternate, starting with on_connect, one pair per session *)
Theorem C18_callbacks_alternate : forall s, rreachable s -> alt (g_log s) (r_alive s).
Proof. exact callbacks_alternate. Qed.
Theorem C18_alternation_shape : forall l b, alt l b ->
  (forall i, nth_error l i = Some true -> Nat.even i = true) /\ (forall i, nth_error l i = Some false -> Nat.even i = false) /\
  Nat.even (length l) = negb b.
Proof. exact alt_shape. Qed.

(* (5) once stop() has returned: no attempt, no listener, no timer, whatever happens - until start() is called again *)
Theorem C18_stopped_stays_quiet : forall s l s' o,
  rreachable s -> r_stopped s = true -> r_stopping s = false -> l <> LStart -> rstep s l = Some (s', o) ->
  existsb is_attempt o = false /\ r_stopped s' = true /\ r_listening s' = false /\ r_timer s' = None /\ r_task s' = TNone.
Proof. exact stopped_stays_quiet. Qed.

(* non-vacuity: two failures, a record-triggered attempt that succeeds, an expected end, the cool-down retry, stop *)
Example C18_demo :
  option_map (fun r => (r_state (fst r), r_stopped (fst r), g_log (fst r), concat (snd r)))
    (rrun rl_init [LStart; LStartDone OErrOther; LAdv 2048; LTimer; LStartDone OErrOther; LRecord; LStartDone OOk; LFinishDone OOk;
                   LSessionEnd true; LAdv 7168; LTimer; LStop])
  = Some (RDisc, true, [true; false],
          [OAttempt; OConnectError; OListen true; OTimerSet 2048; OAttempt; OConnectError; OTimerSet 5120; OListen false; OAttempt; OConnect;
           ODisconnect true; OTimerSet 7168; OAttempt; OAttemptCancelled; OStopped]).
Proof. vm_compute. reflexivity. Qed.
