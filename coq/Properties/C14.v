(* C14 - models mirror the wire schema; conversion is total and value-preserving.
   Tables (GenModel.v) are regenerated from model.py / model_conversions.py / the compiled descriptors on every run. *)
From Coq Require Import NArith ZArith String List Bool.
From Verif Require Import Model.Schema Model.Convert Model.FloatFix Proofs.ConvertProofs Generated.GenModel.
Import ListNotations.
Open Scope string_scope.

(* known finding F7 (listed in known_findings.json): model.UpdateCommand.INSTALL mirrors the wire value UPDATE_COMMAND_UPDATE
   under another name; renaming a public enum member is not a safe repair *)
Definition enum_exceptions : list string := ["UpdateCommand"].
Definition excepted (p : string * string * list (string * Z) * list (string * Z)) : bool :=
  let '(me, _, _, _) := p in memb String.eqb me enum_exceptions.

(* (1) every model enum paired with a wire enum (pairing derived from the converters and from equal names): the same
   (name, value) pairs as the wire enum (names modulo the enum's common prefix), no two members sharing a value *)
Theorem C14_enums_mirror :
  forall me we mv wv, In (me, we, mv, wv) enum_pairs -> ~ In me enum_exceptions ->
    NoDup (map snd mv) /\ (forall n v, In (n, v) mv <-> In (n, v) wv).
Proof.
  assert (H : forallb (fun p => excepted p || enum_mirror_ok p) enum_pairs = true) by (vm_compute; reflexivity).
  intros me we mv wv Hin Hne. rewrite forallb_forall in H. specialize (H _ Hin). apply orb_true_iff in H. destruct H as [H|H].
  - exfalso. apply Hne. cbn in H. apply memb_In_str. exact H.
  - apply (enum_mirror_sound me we mv wv H).
Qed.
Theorem C14_update_command_refuted :
  exists p, In p enum_pairs /\ excepted p = true /\ enum_mirror_ok p = false.
Proof.
  assert (H : existsb (fun p => excepted p && negb (enum_mirror_ok p)) enum_pairs = true) by (vm_compute; reflexivity).
  apply existsb_exists in H. destruct H as (p & Hin & Hp). apply andb_true_iff in Hp. destruct Hp as [H1 H2].
  exists p. repeat split; auto. destruct (enum_mirror_ok p); [discriminate|reflexivity].
Qed.

(* (2) every model class built from a wire message has exactly that message's field names (no duplicates) *)
Theorem C14_fields_mirror :
  forall pbn mn fs wf, In (pbn, mn, fs, wf) class_pairs ->
    NoDup (map fst fs) /\ (forall n, In n (map fst fs) <-> In n wf).
Proof.
  assert (H : forallb class_mirror_ok class_pairs = true) by (vm_compute; reflexivity).
  intros pbn mn fs wf Hin. rewrite forallb_forall in H. exact (class_mirror_sound pbn mn fs wf (H _ Hin)).
Qed.

(* (3) conversion is total and converts each field by its own converter: enums -> member or None, enum lists filtered in
   order, designated floats presented by fix_float, everything else unchanged *)
Theorem C14_from_pb_total : forall members ffix fields w,
  (forall n, In n (map fst fields) -> In n (map fst w)) ->
  exists m, from_pb members ffix fields w = Some m /\ map fst m = map fst fields /\
            forall n k, In (n, k) fields -> exists v, lookup n w = Some v /\ In (n, conv members ffix k v) m.
Proof. exact from_pb_total. Qed.
Theorem C14_enum_known : forall members ffix e z, In z (members e) -> conv members ffix (KEnum e) (VInt z) = VInt z.
Proof. exact enum_convert_known. Qed.
Theorem C14_enum_unknown : forall members ffix e z, ~ In z (members e) -> conv members ffix (KEnum e) (VInt z) = VNone.
Proof. exact enum_convert_unknown. Qed.
Theorem C14_enum_list : forall members ffix e l, conv members ffix (KEnumList e) (VList l) = VList (filter (is_member members e) l).
Proof. exact enum_convert_list_spec. Qed.

(* (4) the float presentation: zero unchanged, sign kept, the decimal rounding is round-half-even to within half a unit of
   the last kept decimal place, the decimal exponent is the first k with |x| <= 10^k *)
Theorem C14_fix_zero : forall neg e, fix_float neg 0 e = (neg, 0, 0)%Z.
Proof. exact fix_zero. Qed.
Theorem C14_fix_sign : forall neg m e, fst (fst (fix_float neg m e)) = neg.
Proof. exact fix_sign. Qed.
Theorem C14_decimal_rounding : forall N D, (0 <= N -> 0 < D -> let r := rhe N D in - D <= 2 * (r * D - N) <= D)%Z.
Proof. exact rhe_half_unit. Qed.
Theorem C14_decimal_exponent : forall fuel m e k, let r := find_l10 fuel m e k in
  (le_pow10 m e r = true \/ r = (k + Z.of_nat fuel)%Z) /\ forall j, (k <= j < r)%Z -> le_pow10 m e j = false.
Proof. exact find_l10_first. Qed.

(* (5) to_dict / from_dict round-trips every value produced by from_pb.  PARTIAL in one named respect: idempotence of the
   float presentation function is a hypothesis here (it is checked bit-exactly on float32 inputs by the sweep, not proved) *)
Theorem C14_dict_roundtrip_partial : forall members ffix,
  (forall s m e, let '(s1, m1, e1) := ffix s m e in ffix s1 m1 e1 = (s1, m1, e1)) ->
  forall fields w m, NoDup (map fst fields) -> from_pb members ffix fields w = Some m ->
    from_dict members ffix fields (to_dict m) = Some m.
Proof. exact dict_roundtrip. Qed.

Example C14_float_examples :
  (fix_float false 13421773 (-27), fix_float true 8388608 100) = ((false, 7205759403792794, -56), (true, 9007195895171724, 70))%Z.
Proof. vm_compute. reflexivity. Qed.
