(* C07 - the stop callback fires exactly once per established session, never otherwise. *)
From Coq Require Import NArith ZArith List Bool.
From Verif Require Import Model.Conn Proofs.ConnCore Proofs.ConnRun Proofs.ConnQuiet.
Import ListNotations.

(* stop_calls is the history of on_stop invocations (appended in _cleanup together with the OStop observation).
   In every reachable state: at most one call; exactly one iff the connection was ever CONNECTED and is now CLOSED;
   ever_connected holds exactly in CONNECTED or in (CLOSED after a call). *)
Theorem C07_stop_exactly_once : forall c,
  reachable c ->
  (stop_calls c = [] \/ exists b, stop_calls c = [b]) /\
  ((exists b, stop_calls c = [b]) <-> (ever_connected c = true /\ cs c = Closed)) /\
  (ever_connected c = true <-> (cs c = Connected \/ (cs c = Closed /\ stop_calls c <> []))).
Proof. exact stop_once. Qed.

(* once closed, no transition calls the stop callback again (nor writes, nor delivers), whatever close causes follow *)
Theorem C07_no_second_stop : forall c l r,
  cs c = Closed -> handshake_complete c = false -> is_connected c = false ->
  step c l = Some r -> quietb (snd r) = true /\ cs (fst r) = Closed.
Proof.
  intros c l r H1 H2 H3 E. destruct (closed_quiet c l r E (conj H1 (conj H2 H3))) as [(A & _) B]. auto.
Qed.

(* the argument of the call is the expected-disconnect flag at the moment of closing (definition of cleanup);
   examples: peer request -> true, reset -> false, force_disconnect whose write fails -> true *)
Definition hello : msg := mkMsg T_HELLO_RESP true 0 1 NameEmpty false.
Definition discreq : msg := mkMsg T_DISC_REQ true 0 0 NameEmpty false.
Definition connect : list label :=
  [LStart; LResolveDone None 1; LWake TStart; LTcpDone None; LWake TStart; LIntr true;
   LFinish false; LMade; LMadeWaiter; LWake TFinish; LData [DFrame hello]; LWake TFinish; LIntr false].
Definition stops (ls : list label) := option_map (fun r => stop_calls (fst r)) (run (init false false 20480 []) ls).
Example C07_peer_request : stops (connect ++ [LData [DFrame discreq]; LConnLostCb; LForce]) = Some [true].
Proof. vm_compute. reflexivity. Qed.
Example C07_reset : stops (connect ++ [LLost (Some (Raw RReset)); LConnLostCb; LForce; LDisconnect]) = Some [false].
Proof. vm_compute. reflexivity. Qed.
Example C07_force_write_fails : stops (connect ++ [LWriteFails true; LForce]) = Some [true].
Proof. vm_compute. reflexivity. Qed.
Example C07_never_connected : stops [LStart; LResolveDone None 1; LWake TStart; LForce; LIntr true; LWake TStart] = Some [].
Proof. vm_compute. reflexivity. Qed.
