(* C07 - the stop callback fires exactly once per established session, never otherwise, and its argument is true iff a graceful
   disconnect had been initiated before the connection closed. *)
From Coq Require Import NArith ZArith List Bool.
From Verif Require Import Model.Conn Proofs.ConnCore Proofs.ConnRun Proofs.ConnQuiet Proofs.ConnReason Proofs.ConnReasonRun Proofs.Product Proofs.ConnPair.
Import ListNotations.

(* stop_calls is the history of on_stop invocations (appended in _cleanup together with the OStop observation).
   In every reachable state: at most one call; exactly one iff the connection was ever CONNECTED and is now CLOSED;
   ever_connected holds exactly in CONNECTED or in (CLOSED after a call). *)
Theorem C07_stop_exactly_once : forall c,
  reachable c ->
  (stop_calls c = [] \/ exists b, stop_calls c = [b]) /\
  ((exists b, stop_calls c = [b]) <-> (ever_connected c = true /\ cs c = Closed)) /\
  (ever_connected c = true <-> (cs c = Connected \/ (cs c = Closed /\ stop_calls c <> []))).
Proof. exact stop_once. Qed.

(* once closed, no transition calls the stop callback again (nor writes, nor delivers), whatever close causes follow *)
Theorem C07_no_second_stop : forall c l r,
  cs c = Closed -> handshake_complete c = false -> is_connected c = false ->
  step c l = Some r -> quietb (snd r) = true /\ cs (fst r) = Closed.
Proof.
  intros c l r H1 H2 H3 E. destruct (closed_quiet c l r E (conj H1 (conj H2 H3))) as [(A & _) B]. auto.
Qed.

(* the argument of the call is the expected-disconnect flag at the moment of closing (definition of cleanup);
   examples: peer request -> true, reset -> false, force_disconnect whose write fails -> true *)
Definition hello : msg := mkMsg T_HELLO_RESP true 0 1 NameEmpty false.
Definition discreq : msg := mkMsg T_DISC_REQ true 0 0 NameEmpty false.
Definition connect : list label :=
  [LStart; LResolveDone None 1; LWake TStart; LTcpDone None; LWake TStart; LIntr true;
   LFinish false; LMade; LMadeWaiter; LWake TFinish; LData [DFrame hello]; LWake TFinish; LIntr false].
Definition stops (ls : list label) := option_map (fun r => stop_calls (fst r)) (run (init false false 20480 []) ls).
Example C07_peer_request : stops (connect ++ [LData [DFrame discreq]; LConnLostCb; LForce]) = Some [true].
Proof. vm_compute. reflexivity. Qed.
Example C07_reset : stops (connect ++ [LLost (Some (Raw RReset)); LConnLostCb; LForce; LDisconnect]) = Some [false].
Proof. vm_compute. reflexivity. Qed.
Example C07_force_write_fails : stops (connect ++ [LWriteFails true; LForce]) = Some [true].
Proof. vm_compute. reflexivity. Qed.
Example C07_never_connected : stops [LStart; LResolveDone None 1; LWake TStart; LForce; LIntr true; LWake TStart] = Some [].
Proof. vm_compute. reflexivity. Qed.

(* ---------------------------------------------------------------- the argument of the call *)
(* The labels that initiate a graceful disconnect (Proofs/ConnReasonRun.v):
     initiates l  :=  l = LForce  \/  l = LDisconnect  \/  l = LData items with a DisconnectRequest frame among items.
   ONLY IF: in every run from the initial state, a stop call with argument true is preceded (or made) by such a label -
   every prefix of a run is a run, so the label lies at or before the step that made the call. *)
Theorem C07_true_only_if_initiated : forall n e ka scr ls c os,
  run (init n e ka scr) ls = Some (c, os) -> In true (stop_calls c) -> exists l, In l ls /\ initiates l.
Proof. exact true_only_if_initiated. Qed.

Theorem C07_true_only_if_initiated_before : forall n e ka scr l1 l2 c1 os1 c os,
  run (init n e ka scr) (l1 ++ l2) = Some (c, os) -> run (init n e ka scr) l1 = Some (c1, os1) ->
  In true (stop_calls c1) -> exists l, In l l1 /\ initiates l.
Proof. exact true_only_if_initiated_before. Qed.

(* IF: the expected-disconnect flag is never lowered, and from any reachable state in which it is up every later stop call
   has argument true - whatever close cause follows, in whatever order *)
Theorem C07_flag_up_then_true : forall c0 ls c os,
  reachable c0 -> expected_disconnect c0 = true -> run c0 ls = Some (c, os) ->
  expected_disconnect c = true /\ exists suf, stop_calls c = stop_calls c0 ++ suf /\ Forall (eq true) suf.
Proof. intros c0 ls c os Hr. apply flag_up_then_true. apply RI_reachable. exact Hr. Qed.

(* ... so a call with argument false means the flag was down in every earlier state of the run *)
Theorem C07_false_means_flag_never_up : forall n e ka scr l1 l2 c1 os1 c os,
  run (init n e ka scr) (l1 ++ l2) = Some (c, os) -> run (init n e ka scr) l1 = Some (c1, os1) ->
  stop_calls c1 = [] -> In false (stop_calls c) -> expected_disconnect c1 = false.
Proof. exact false_means_flag_never_up. Qed.

(* what raises the flag (Sets c c' = the flag is up in c', and every stop call made by the step has argument true):
   force_disconnect(), in any state; *)
Theorem C07_force_initiates : forall c c' o, step c LForce = Some (c', o) -> Sets c c'.
Proof. exact force_initiates. Qed.
(* disconnect(), as soon as it is past waiting for a pending connect; *)
Theorem C07_disconnect_initiates : forall c c' o,
  finish_fut c <> FPending -> step c LDisconnect = Some (c', o) -> Sets c c'.
Proof. exact disconnect_initiates. Qed.
Theorem C07_disconnect_wait_over_initiates : forall c c' o,
  pc (t_disc c) = PD_Wait -> must_cancel (t_disc c) = false -> step c (LWake TDisc) = Some (c', o) -> Sets c c'.
Proof. exact disconnect_wait_over_initiates. Qed.
(* a valid DisconnectRequest frame from the device, in every reachable state whose handshake is complete - the disconnect
   handler is registered there and no handler dispatched before it can abort the dispatch *)
Theorem C07_disconnect_request_initiates : forall c m rest c' o,
  reachable c -> handshake_complete c = true ->
  m_ty m = T_DISC_REQ -> registered (m_ty m) = true -> m_valid m = true ->
  step c (LData (DFrame m :: rest)) = Some (c', o) -> Sets c c'.
Proof. intros c m rest c' o Hr. apply disconnect_request_initiates. apply RI_reachable. exact Hr. Qed.

Theorem C07_disconnect_handler_registered : forall c,
  reachable c -> handshake_complete c = true -> In (T_DISC_REQ, HDisc) (handlers c).
Proof. exact disconnect_handler_registered. Qed.

(* non-vacuity: the hypotheses of C07_disconnect_request_initiates hold of the connected state reached by `connect` *)
Example C07_disconnect_request_applies :
  match run (init false false 20480 []) connect with
  | Some (c, _) => handshake_complete c = true /\ m_ty discreq = T_DISC_REQ /\ registered (m_ty discreq) = true /\
                   m_valid discreq = true /\ step c (LData [DFrame discreq]) <> None
  | None => False
  end.
Proof. vm_compute. repeat split; discriminate. Qed.
(* and a call with false exists: see C07_reset above (no initiating label in that run before the reset) *)

(* ---------------------------------------------------------------- several sessions in one process *)
(* The model of a process with two connections is the interleaving product of two connection machines (Proofs/Product.v,
   Proofs/ConnPair.v: the model has no state outside the connection). In every run of the pair each connection is in the state,
   and has made the observations, of its own run on its own labels - so every theorem above holds for each session of a
   process - and neither can disable a step of the other. That the CODE has no state outside the connection either is what
   the siblings probe of checks/c07.py tests. *)
Theorem C07_sibling_sessions_independent : forall ls a b a' b' os,
  pair_run (a, b) ls = Some ((a', b'), os) ->
  run a (mine ls) = Some (a', my_obs os) /\ run b (theirs ls) = Some (b', their_obs os).
Proof. exact pair_projects. Qed.

Theorem C07_sibling_never_blocks : forall ls a b a' b' oa ob,
  run a (mine ls) = Some (a', oa) -> run b (theirs ls) = Some (b', ob) ->
  exists os, pair_run (a, b) ls = Some ((a', b'), os) /\ my_obs os = oa /\ their_obs os = ob.
Proof. exact pair_enabled. Qed.

(* the reason reported by a connection's stop callback is about THAT connection: true only if a force_disconnect / disconnect
   call on it, or a DisconnectRequest in its own stream, is among ITS labels - whatever its sibling did or received *)
Theorem C07_sibling_true_only_if_initiated_here : forall n e ka scr n2 e2 ka2 scr2 ls a b os,
  pair_run (init n e ka scr, init n2 e2 ka2 scr2) ls = Some ((a, b), os) ->
  In true (stop_calls a) -> exists l, In l (mine ls) /\ initiates l.
Proof. exact sibling_true_only_if_initiated_here. Qed.

(* non-vacuity: two connections established step by step in turns; the device of the first sends a DisconnectRequest, the
   second is reset afterwards: the first reports an expected stop, the second an unexpected one *)
Example C07_siblings :
  option_map (fun r => (stop_calls (fst (fst r)), stop_calls (snd (fst r))))
    (pair_run (init false false 20480 [], init false false 20480 [])
       (interleave connect connect ++ [PA label label (LData [DFrame discreq]); PA label label LConnLostCb;
                                       PB label label (LLost (Some (Raw RReset))); PB label label LConnLostCb]))
  = Some ([true], [false]).
Proof. vm_compute. reflexivity. Qed.
