(* C03 - Noise sessions interoperate with any conformant responder, for any chunking.
   Model/NoiseFrame.v mirrors noise.py + base.py; the AEAD, the Noise handshake object and UTF-8 decoding are parameters.
   The theorems hold for EVERY instantiation that satisfies the stated hypotheses (an AEAD that decrypts what the device
   encrypted: decrypt n (enc n p) = Some p); that the real ChaCha20-Poly1305 / X25519 / SHA-256 code is such an instance
   is established by differential runs against an independent responder (a test), not by a theorem: PARTIAL in that respect. *)
From Coq Require Import NArith List Bool.
From Verif Require Import Model.NoiseFrame Proofs.NoiseProofs.
Import ListNotations.
Open Scope N_scope.

(* (1) for EVERY byte stream and EVERY way of cutting it into data_received calls: same events (in order), same final
   protocol state, same status as delivering it in one call - and for a stream that ends normally the very same state *)
Theorem C03_segmentation_independent :
  forall decrypt hs_read utf8_ok expected_name (cs : list bytes) (s : st) (c : bytes),
    let '(ev, s', x) := feed decrypt hs_read utf8_ok expected_name s (c :: cs) in
    let r := data_received decrypt hs_read utf8_ok expected_name s (concat (c :: cs)) in
    r_events r = ev /\ r_status r = x /\ core (r_st r) = core s' /\ (x = Ok -> r_st r = s').
Proof. exact segmentation_independent. Qed.

(* (2) one call on a stream of complete frames handles them one after the other *)
Theorem C03_frames_in_order :
  forall decrypt hs_read utf8_ok expected_name (s : st) (fs : list bytes),
    s_buffer s = [] -> Forall short fs ->
    let r := data_received decrypt hs_read utf8_ok expected_name s (flat_map frame_bytes fs) in
    let p := process decrypt hs_read utf8_ok expected_name s fs [] in
    r_events r = r_events p /\ r_status r = r_status p /\ core (r_st r) = core (r_st p).
Proof. exact data_received_frames. Qed.

(* (3) the honest responder: hello (protocol 1, optional NUL-terminated name), handshake reply accepted by the Noise
   object, then the device's messages encrypted under nonces 0, 1, 2, ...: readiness is signalled exactly once and before
   every delivery, the deliveries are exactly the messages in order; if an expected name is configured and a different
   name is announced: BadName carrying the received name for both the ready waiter and the connection, nothing delivered,
   readiness never signalled *)
Theorem C03_honest_session :
  forall decrypt hs_read utf8_ok expected_name (enc : N -> bytes -> bytes),
    (forall n p, decrypt n (enc n p) = Some p) ->
    forall (announced : option bytes) (hello_tail hs_msg : bytes) (pts : list bytes) (s0 : st),
      s_state s0 = NHello -> s_ready s0 = RPending ->
      take_until_nul hello_tail = announced ->
      (forall name, announced = Some name -> utf8_ok name = true) ->
      hs_read hs_msg = true -> Forall wellformed pts ->
      let r := process decrypt hs_read utf8_ok expected_name s0 ((1 :: hello_tail) :: (0 :: hs_msg) :: enc_from enc 0 pts) [] in
      if accepts expected_name announced then
        r_status r = Ok /\
        r_events r = NReadyOk :: map (fun p => NDeliver (be16 (nth 0 p 0) (nth 1 p 0)) (skipn 4 p)) pts /\
        s_state (r_st r) = NReady
      else
        exists name rest, announced = Some name /\
          r_events r = NReadyErr (EBadName name) :: NFatal (EBadName name) :: rest /\ Forall harmless rest.
Proof. intros decrypt hs_read utf8_ok expected_name enc H. exact (honest_session decrypt hs_read utf8_ok expected_name enc H). Qed.

(* the name rule: accepted iff no expected name is configured, or no name is announced, or they are equal *)
Example C03_accept_rule :
  (accepts None (Some [100]), accepts (Some [100]) None, accepts (Some [100]) (Some [100]), accepts (Some [100]) (Some [101]), accepts (Some [100]) (Some []))
  = (true, true, true, false, false).
Proof. reflexivity. Qed.
