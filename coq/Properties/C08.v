(* C08 - closing a connection releases everything and silences it. *)
From Coq Require Import NArith ZArith List Bool.
From Verif Require Import Model.Conn Proofs.ConnCore Proofs.ConnRun Proofs.ConnQuiet.
Import ListNotations.

(* (a) in every reachable closed state: keepalive and pong timers cancelled, no pending waiter, socket closed,
   frame helper released (or about to be: the one window where create_connection has returned the helper to a
   task that has not run yet - it fails in its next step, see C08_closed_stays_released), flags down *)
Theorem C08_closed_released : forall c,
  reachable c -> cs c = Closed ->
  ping_timer c = None /\ pong_timer c = None /\ waiters c = [] /\ socket c = false /\
  (helper c = HNone \/ pc (t_finish c) = PF_Ready) /\ is_connected c = false /\ handshake_complete c = false.
Proof. exact closed_released. Qed.

(* (b) from a closed state no transition writes an application message, delivers to a subscriber or calls the stop
   callback - this covers frames buffered behind the closing one, later frames, timers, task wake-ups, user calls *)
Theorem C08_closed_is_silent : forall c l c' o,
  reachable c -> cs c = Closed -> step c l = Some (c', o) ->
  quietb o = true /\ cs c' = Closed.
Proof.
  intros c l c' o Hr Hc E. destruct (closed_released c Hr Hc) as (_ & _ & _ & _ & _ & H3 & H2).
  destruct (closed_quiet c l (c', o) E (conj Hc (conj H2 H3))) as [(A & _) B]. auto.
Qed.

(* the closing step itself: whatever is in the same chunk after the frame that closes is not delivered *)
Definition hello : msg := mkMsg T_HELLO_RESP true 0 1 NameEmpty false.
Definition discreq : msg := mkMsg T_DISC_REQ true 0 0 NameEmpty false.
Definition switch : msg := mkMsg 26 true 1 0 NameEmpty false.
Definition ping : msg := mkMsg T_PING_REQ true 0 0 NameEmpty false.
Definition connect : list label :=
  [LStart; LResolveDone None 1; LWake TStart; LTcpDone None; LWake TStart; LIntr true;
   LFinish false; LMade; LMadeWaiter; LWake TFinish; LData [DFrame hello]; LWake TFinish; LIntr false; LSub 26 1].
Example C08_trailing_frames_dropped :
  option_map (fun r => last (snd r) [])
    (run (init false false 20480 []) (connect ++ [LData [DFrame switch; DFrame discreq; DFrame switch; DFrame ping]]))
  = Some [ODeliver 1 switch; OWrite [T_DISC_RESP]; OHelperClose; OTransportClose; OSocketClose; OStop true].
Proof. vm_compute. reflexivity. Qed.
