(* C08 - closing a connection releases everything and silences it. *)
From Coq Require Import NArith ZArith List Bool.
From Verif Require Import Model.Conn Proofs.ConnCore Proofs.ConnRun Proofs.ConnQuiet Proofs.ConnCancel Proofs.ConnGuard Proofs.ConnUnblock Proofs.ConnKick.
Import ListNotations.

(* (a) in every reachable closed state: keepalive and pong timers cancelled, no pending waiter, socket closed,
   frame helper released (or about to be: the one window where create_connection has returned the helper to a
   task that has not run yet - it fails in its next step, see C08_closed_stays_released), flags down *)
Theorem C08_closed_released : forall c,
  reachable c -> cs c = Closed ->
  ping_timer c = None /\ pong_timer c = None /\ waiters c = [] /\ socket c = false /\
  (helper c = HNone \/ pc (t_finish c) = PF_Ready) /\ is_connected c = false /\ handshake_complete c = false.
Proof. exact closed_released. Qed.

(* (b) from a closed state no transition writes an application message, delivers to a subscriber or calls the stop
   callback - this covers frames buffered behind the closing one, later frames, timers, task wake-ups, user calls *)
Theorem C08_closed_is_silent : forall c l c' o,
  reachable c -> cs c = Closed -> step c l = Some (c', o) ->
  quietb o = true /\ cs c' = Closed.
Proof.
  intros c l c' o Hr Hc E. destruct (closed_released c Hr Hc) as (_ & _ & _ & _ & _ & H3 & H2).
  destruct (closed_quiet c l (c', o) E (conj Hc (conj H2 H3))) as [(A & _) B]. auto.
Qed.

(* the closing step itself: whatever is in the same chunk after the frame that closes is not delivered *)
Definition hello : msg := mkMsg T_HELLO_RESP true 0 1 NameEmpty false.
Definition discreq : msg := mkMsg T_DISC_REQ true 0 0 NameEmpty false.
Definition switch : msg := mkMsg 26 true 1 0 NameEmpty false.
Definition ping : msg := mkMsg T_PING_REQ true 0 0 NameEmpty false.
Definition connect : list label :=
  [LStart; LResolveDone None 1; LWake TStart; LTcpDone None; LWake TStart; LIntr true;
   LFinish false; LMade; LMadeWaiter; LWake TFinish; LData [DFrame hello]; LWake TFinish; LIntr false; LSub 26 1].
Example C08_trailing_frames_dropped :
  option_map (fun r => last (snd r) [])
    (run (init false false 20480 []) (connect ++ [LData [DFrame switch; DFrame discreq; DFrame switch; DFrame ping]]))
  = Some [ODeliver 1 switch; OWrite [T_DISC_RESP]; OHelperClose; OTransportClose; OSocketClose; OStop true].
Proof. vm_compute. reflexivity. Qed.

(* (c) no request/response coroutine stays blocked on a closed connection.  Over all runs: a call future that is pending is
   registered as a waiter; the close fails every waiter, so a closed connection has no pending call future; and every task that
   awaits a call - a user request, the hello / login of finish_connection, the request of disconnect() - can be resumed at once *)
Theorem C08_pending_call_is_waiter : forall n e ka scr ls c os k,
  run (init n e ka scr) ls = Some (c, os) -> In k (calls c) -> c_fut k = CPending -> In (c_id k) (waiters c).
Proof. exact pending_call_is_waiter. Qed.
Theorem C08_closed_no_pending_call : forall n e ka scr ls c os k,
  run (init n e ka scr) ls = Some (c, os) -> cs c = Closed -> In k (calls c) -> c_fut k <> CPending.
Proof. exact closed_no_pending_call. Qed.
Theorem C08_closed_call_task_resumes : forall n e ka scr ls c os t cid,
  run (init n e ka scr) ls = Some (c, os) -> cs c = Closed -> awaited (pc (get_task c t)) = Some cid ->
  ready_now c t /\ step c (LWake t) <> None.
Proof. exact closed_call_task_resumes. Qed.

(* (d) the connect coroutines and the wait of disconnect(): on a closed connection a suspended connect coroutine has been
   interrupted already, or the done-callback of its connect future (label LIntr) is enabled - and for start_connection leaves
   it resumable; the wait of disconnect() for the connect phase is over or can be released right now (CK2, Proofs/ConnKick.v) *)
Theorem C08_closed_start_interruptible : forall n e ka scr ls c os,
  run (init n e ka scr) ls = Some (c, os) -> cs c = Closed -> phase_running (pc (t_start c)) = true ->
  intr_start c = IFired \/ exists c', step c (LIntr true) = Some (c', []) /\ ready_now c' TStart.
Proof. exact closed_start_interruptible. Qed.
Theorem C08_closed_finish_interruptible : forall n e ka scr ls c os,
  run (init n e ka scr) ls = Some (c, os) -> cs c = Closed -> phase_running (pc (t_finish c)) = true ->
  intr_finish c = IFired \/ exists c', step c (LIntr false) = Some (c', []) /\ ready_now c' TFinish.
Proof. exact closed_finish_interruptible_ready. Qed.
(* whoever cancels a suspended coroutine - the caller, an interrupt block, a time-out - leaves it resumable *)
Theorem C08_cancel_leaves_resumable : forall c t, task_running (get_task c t) = true -> ready_now (cancel_task c t) t.
Proof. exact cancel_task_ready. Qed.
Theorem C08_closed_disconnect_wait_released : forall n e ka scr ls c os,
  run (init n e ka scr) ls = Some (c, os) -> cs c = Closed -> pc (t_disc c) = PD_Wait ->
  disc_wait_done c = true \/ step c LDiscWaitDone <> None.
Proof. exact closed_disconnect_wait_released. Qed.
Example C08_force_during_resolve_interrupts :
  option_map (fun r => (cs (fst r), pc (t_start (fst r)), intr_start (fst r), start_fut (fst r)))
    (run (init false false 20480 []) [LStart; LForce]) = Some (Closed, PS_Resolve, IArmed, FDone).
Proof. vm_compute. reflexivity. Qed.

(* non-vacuity: two calls outstanding when the peer resets the connection; both futures hold the error, both tasks resume *)
Example C08_two_calls_fail_at_close :
  option_map (fun r => (cs (fst r), map c_fut (calls (fst r)), waiters (fst r)))
    (run (init false false 20480 [])
       (firstn 13 connect ++ [LCallStart [T_PING_REQ] [T_PING_RESP] PAny PAny 1024; LCallStart [T_TIME_REQ] [T_TIME_RESP] PAny PAny 2048;
                              LLost (Some (Raw RReset)); LConnLostCb]))
  = Some (Closed, [CResult; CExc (Lib LReadFailed); CExc (Lib LReadFailed)], []).
Proof. vm_compute. reflexivity. Qed.
