(* C04 - the encrypted transport fails closed with a specific error; no forged delivery.
   Ideal AEAD as a HYPOTHESIS of the theorems (not an axiom): what decrypts under nonce n is what the device really sent
   under nonce n.  Real ChaCha20-Poly1305 meets this only computationally: PARTIAL in that named respect (and the real
   crypto code is exercised by the exhaustive tamper sweep of the correspondence check). *)
From Coq Require Import NArith List Bool.
From Verif Require Import Model.NoiseFrame Proofs.NoiseProofs.
Import ListNotations.
Open Scope N_scope.

(* (1) data phase, EVERY sequence of frames the adversary puts on the wire (flipped, truncated and re-framed, duplicated,
   reordered, dropped, forged ...) under every chunking (C03_segmentation_independent): what is delivered is a prefix of
   what the device really sent under the consecutive nonces *)
Theorem C04_prefix_only :
  forall decrypt hs_read utf8_ok expected_name (sent : list bytes),
    (forall n c p, decrypt n c = Some p -> nth_error sent (N.to_nat n) = Some p) ->
    forall (fs : list bytes) (s : st) (acc : list nevent),
      s_state s = NReady ->
      exists j, (j <= length fs)%nat /\
        deliveries (r_events (process decrypt hs_read utf8_ok expected_name s fs acc)) =
        deliveries acc ++ flat_map handed (firstn j (skipn (N.to_nat (s_dec_nonce s)) sent)).
Proof. intros decrypt hs_read utf8_ok expected_name sent H. exact (data_phase_prefix_only decrypt hs_read utf8_ok expected_name sent H). Qed.

(* (2) the first frame that fails authentication raises InvalidTag out of data_received ... *)
Theorem C04_bad_data_frame :
  forall decrypt hs_read utf8_ok expected_name s f,
    s_state s = NReady -> decrypt (s_dec_nonce s) f = None ->
    dispatch decrypt hs_read utf8_ok expected_name s f = (s, [], Some RInvalidTag).
Proof. exact bad_data_frame. Qed.
(* ... which kills the transport, is reported as the invalid-encryption-key error, and nothing that follows is looked at *)
Theorem C04_raise_kills_transport :
  forall encrypt decrypt hs_init hs_read utf8_ok expected_name x c r,
    transport_dead x = false -> s_transport (ss x) = true ->
    r_status (data_received decrypt hs_read utf8_ok expected_name (ss x) c) = Raised r ->
    transport_dead (fst (step encrypt decrypt hs_init hs_read utf8_ok expected_name x (OData c))) = true /\
    In (NFatal (match r with RInvalidTag => EInvalidKey | _ => ERawOther end))
       (snd (step encrypt decrypt hs_init hs_read utf8_ok expected_name x (OData c))).
Proof. exact raise_kills_transport. Qed.
Theorem C04_dead_transport_ignores :
  forall encrypt decrypt hs_init hs_read utf8_ok expected_name x c,
    transport_dead x = true -> step encrypt decrypt hs_init hs_read utf8_ok expected_name x (OData c) = (x, []).
Proof. exact dead_transport_ignores. Qed.

(* (3) handshake-phase deviations: closed, the specific error for the connection AND for a pending readiness wait,
   readiness never signalled, nothing delivered *)
Theorem C04_hello_empty : forall d h u e s, s_state s = NHello -> closes_with EEmptyHello s (dispatch d h u e s []).
Proof. exact hello_empty. Qed.
Theorem C04_hello_unknown_protocol : forall d h u e s p rest,
  s_state s = NHello -> p <> 1 -> closes_with (EUnknownProto p) s (dispatch d h u e s (p :: rest)).
Proof. exact hello_unknown_protocol. Qed.
Theorem C04_hello_bad_name : forall d h u e s rest name en,
  s_state s = NHello -> take_until_nul rest = Some name -> u name = true ->
  e = Some en -> bytes_eqb en name = false -> closes_with (EBadName name) s (dispatch d h u e s (1 :: rest)).
Proof. exact hello_bad_name. Qed.
Theorem C04_handshake_empty : forall d h u e s, s_state s = NHandshake -> closes_with EEmptyHandshake s (dispatch d h u e s []).
Proof. exact handshake_empty. Qed.
Theorem C04_handshake_mac_failure : forall d h u e s b,
  s_state s = NHandshake -> b <> 0 -> u MAC_FAILURE = true -> closes_with EInvalidKey s (dispatch d h u e s (b :: MAC_FAILURE)).
Proof. exact handshake_mac_failure. Qed.
Theorem C04_handshake_other_failure : forall d h u e s b text,
  s_state s = NHandshake -> b <> 0 -> u text = true -> bytes_eqb text MAC_FAILURE = false ->
  closes_with (EHandshakeFail text) s (dispatch d h u e s (b :: text)).
Proof. exact handshake_other_failure. Qed.
Theorem C04_handshake_wrong_key : forall d h u e s msg,
  s_state s = NHandshake -> h msg = false -> dispatch d h u e s (0 :: msg) = (s, [], Some RInvalidTag).
Proof. exact handshake_wrong_key. Qed.

(* (4) the configured key *)
Theorem C04_psk_gate : forall a2b, (exists k, decode_psk a2b = Some k) <-> (exists k, a2b = Some k /\ length k = 32%nat).
Proof. exact psk_gate. Qed.

(* (5) the device that speaks the other framing to a PLAINTEXT client (Model/PlainFrame.v, Proofs/PlainSticky.v): once a read has
   reported a complete first byte that is not the plaintext preamble (0x01 = a Noise device: requires-encryption; anything else:
   protocol error), every later read - of any content, cut anywhere - ends in the error again and delivers nothing *)
From Verif Require Kernel.Varint Model.PlainFrame Proofs.PlainSticky.
Theorem C04_plaintext_error_is_final : forall buf c later,
  PlainFrame.r_status (PlainFrame.data_received buf c) = PlainFrame.Errored ->
  (exists pre rest, Varint.read_varuint (PlainFrame.r_buffer (PlainFrame.data_received buf c)) = Some (pre, rest)) ->
  PlainSticky.silent_from (PlainFrame.r_buffer (PlainFrame.data_received buf c)) later.
Proof. exact PlainSticky.plain_error_is_final. Qed.

(* non-vacuity: the Noise hello of a device named "dev", then two well-formed plaintext frames in later reads *)
Example C04_plaintext_error_example :
  let r := PlainFrame.data_received [] [1; 0; 5; 1; 100; 101; 118; 0] in
  PlainFrame.r_status r = PlainFrame.Errored /\ PlainFrame.r_events r = [PlainFrame.ErrRequiresEncryption] /\
  (exists pre rest, Varint.read_varuint (PlainFrame.r_buffer r) = Some (pre, rest)) /\
  PlainFrame.r_events (PlainFrame.data_received (PlainFrame.r_buffer r) [0; 0; 8; 0; 2; 25; 8; 1]) = [PlainFrame.ErrRequiresEncryption].
Proof. vm_compute. repeat split. eexists; eexists; reflexivity. Qed.
