(* C01 — plaintext stream reassembly is lossless and independent of TCP segmentation.
   Only statements here; proofs live in Proofs/PlainFrameProofs.v. *)
From Coq Require Import NArith List.
From Verif Require Import Kernel.Varint Model.PlainFrame Proofs.PlainFrameProofs.
Import ListNotations.
Open Scope N_scope.

(* For every frame list, every strict prefix [partial] of a further frame and every way of
   cutting the byte stream into chunks: no error, the deliveries (concatenated over the
   data_received calls) are exactly the frames, in order, each once, and exactly the bytes of
   the incomplete trailing frame are retained. *)
Theorem C01_reassembly :
  forall (fs : list (N * bytes)) (partial : bytes) (chunks : list bytes),
    SP partial ->
    concat chunks = enc_stream fs ++ partial ->
    exists evs, run [] chunks = (evs, partial, Ok) /\ concat evs = map deliver fs.
Proof. exact reassembly. Qed.

(* non-vacuity: a concrete two-frame stream cut inside the second header *)
Example C01_example :
  run [] [[0; 2; 1; 170]; [187; 0]; [3; 5; 9]] =
  ([[]; [Deliver 1 [170; 187]]; []], [0; 3; 5; 9], Ok).
Proof. vm_compute. reflexivity. Qed.
