(* C11 - request/response calls get exactly their responses and leave nothing behind. *)
From Coq Require Import NArith ZArith List Bool.
From Verif Require Import Generated.GenConstants Model.Conn Proofs.ConnCalls.
Import ListNotations.
Open Scope Z_scope.

(* what a call collects from ANY sequence of messages handed to its handler: the accepted ones, in arrival order, up to and
   including the first stop message; it is done iff a stop message arrived (handle_complex_message folded over the stream) *)
Theorem C11_collects : forall ms k,
  c_fut k = CPending ->
  c_responses (fold_left call_step ms k) = c_responses k ++ collect (c_append k) (c_stop k) ms /\
  c_fut (fold_left call_step ms k) = (if existsb (eval_pred (c_stop k)) ms then CResult else CPending).
Proof. exact call_collects. Qed.
Theorem C11_done_ignores_later : forall k m, c_fut k <> CPending -> call_step k m = k.
Proof. exact call_done_ignores. Qed.
(* call_step is what handle_complex_message does to its own call, and it touches no other call (non-interference) *)
Theorem C11_handler_is_call_step : forall c cid m k,
  get_call c cid = Some k -> get_call (handle_call_message c cid m) cid = Some (call_step k m).
Proof. exact handle_call_message_own. Qed.
Theorem C11_no_interference : forall c cid cid' m,
  cid' <> cid -> get_call (handle_call_message c cid m) cid' = get_call c cid'.
Proof. exact handle_call_message_others. Qed.

(* however it ends, the task runs the finally block, which removes every handler, the waiter and the timer *)
Theorem C11_finally_always_runs : forall c cid c' o,
  wake_call c cid = Some (c', o) ->
  exists c1 r, c' = fst (finish_task (call_finally c1 cid) (TCall cid) r) /\ c1 = fst (take_cancel c (TCall cid)).
Proof. exact wake_call_runs_finally. Qed.
Theorem C11_finally_leaves_nothing : forall c cid k,
  get_call c cid = Some k -> own_types_only c cid (c_types k) ->
  let c' := call_finally c cid in
  has_handler c' cid = false /\ existsb (Nat.eqb cid) (waiters c') = false /\
  (forall k', get_call c' cid = Some k' -> c_timer k' = None).
Proof. exact call_finally_clean. Qed.
(* outcome: cancellation wins; otherwise result / TimeoutAPIError / the error the closing connection handed over *)
Theorem C11_outcome : forall c cid c' o kk,
  wake_call c cid = Some (c', o) -> get_call c cid = Some kk ->
  In (OTaskDone (TCall cid)
        (if must_cancel (get_task c (TCall cid)) then TRaise CancelledErr
         else match deliver_cfut (c_fut kk) with DOk => TOk | DExc e => TRaise e end)) o.
Proof. exact wake_call_outcome. Qed.
(* the timeout fires exactly at its deadline: time cannot pass an armed deadline, and the timer is due iff reached *)
Theorem C11_time_respects_deadlines : forall c t c' o,
  step c (LAdvance t) = Some (c', o) -> forall d, In d (armed_deadlines c) -> t <= d.
Proof. exact advance_respects_deadlines. Qed.
Theorem C11_timeout_due_iff : forall c cid k,
  get_call c cid = Some k -> c_timer k = Some (c_sent_at k + c_timeout k) ->
  (step c (LTimer (TkCall cid)) <> None <-> c_sent_at k + c_timeout k <= now c).
Proof. exact call_timer_due_iff. Qed.

(* non-vacuity: list-entities style call (accept = not done, stop = done) over an interleaved stream *)
Definition mk ty tag : msg := mkMsg ty true tag 0 NameEmpty false.
Example C11_collect_example :
  collect (PTyNot 19) (PTyIs 19) [mk 16 1; mk 16 2; mk 19 0; mk 16 3] = [mk 16 1; mk 16 2].
Proof. vm_compute. reflexivity. Qed.
