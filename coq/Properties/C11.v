(* C11 - request/response calls get exactly their responses and leave nothing behind. *)
From Coq Require Import NArith ZArith List Bool.
From Verif Require Import Generated.GenConstants Model.Conn Proofs.ConnCalls Proofs.ConnLeak.
Import ListNotations.
Open Scope Z_scope.

(* what a call collects from ANY sequence of messages handed to its handler: the accepted ones, in arrival order, up to and
   including the first stop message; it is done iff a stop message arrived (handle_complex_message folded over the stream) *)
Theorem C11_collects : forall ms k,
  c_fut k = CPending ->
  c_responses (fold_left call_step ms k) = c_responses k ++ collect (c_append k) (c_stop k) ms /\
  c_fut (fold_left call_step ms k) = (if existsb (eval_pred (c_stop k)) ms then CResult else CPending).
Proof. exact call_collects. Qed.
Theorem C11_done_ignores_later : forall k m, c_fut k <> CPending -> call_step k m = k.
Proof. exact call_done_ignores. Qed.
(* call_step is what handle_complex_message does to its own call, and it touches no other call (non-interference) *)
Theorem C11_handler_is_call_step : forall c cid m k,
  get_call c cid = Some k -> get_call (handle_call_message c cid m) cid = Some (call_step k m).
Proof. exact handle_call_message_own. Qed.
Theorem C11_no_interference : forall c cid cid' m,
  cid' <> cid -> get_call (handle_call_message c cid m) cid' = get_call c cid'.
Proof. exact handle_call_message_others. Qed.

(* however it ends, the task runs the finally block, which removes every handler, the waiter and the timer *)
Theorem C11_finally_always_runs : forall c cid c' o,
  wake_call c cid = Some (c', o) ->
  exists c1 r, c' = fst (finish_task (call_finally c1 cid) (TCall cid) r) /\ c1 = fst (take_cancel c (TCall cid)).
Proof. exact wake_call_runs_finally. Qed.
Theorem C11_finally_leaves_nothing : forall c cid k,
  get_call c cid = Some k -> own_types_only c cid (c_types k) ->
  let c' := call_finally c cid in
  has_handler c' cid = false /\ existsb (Nat.eqb cid) (waiters c') = false /\
  (forall k', get_call c' cid = Some k' -> c_timer k' = None).
Proof. exact call_finally_clean. Qed.
(* outcome: cancellation wins; otherwise result / TimeoutAPIError / the error the closing connection handed over *)
Theorem C11_outcome : forall c cid c' o kk,
  wake_call c cid = Some (c', o) -> get_call c cid = Some kk ->
  In (OTaskDone (TCall cid)
        (if must_cancel (get_task c (TCall cid)) then TRaise CancelledErr
         else match deliver_cfut (c_fut kk) with DOk => TOk | DExc e => TRaise e end)) o.
Proof. exact wake_call_outcome. Qed.
(* the timeout fires exactly at its deadline: time cannot pass an armed deadline, and the timer is due iff reached *)
Theorem C11_time_respects_deadlines : forall c t c' o,
  step c (LAdvance t) = Some (c', o) -> forall d, In d (armed_deadlines c) -> t <= d.
Proof. exact advance_respects_deadlines. Qed.
Theorem C11_timeout_due_iff : forall c cid k,
  get_call c cid = Some k -> c_timer k = Some (c_sent_at k + c_timeout k) ->
  (step c (LTimer (TkCall cid)) <> None <-> c_sent_at k + c_timeout k <= now c).
Proof. exact call_timer_due_iff. Qed.

(* non-vacuity: list-entities style call (accept = not done, stop = done) over an interleaved stream *)
Definition mk ty tag : msg := mkMsg ty true tag 0 NameEmpty false.
Example C11_collect_example :
  collect (PTyNot 19) (PTyIs 19) [mk 16 1; mk 16 2; mk 19 0; mk 16 3] = [mk 16 1; mk 16 2].
Proof. vm_compute. reflexivity. Qed.

(* ---- over all runs: what a call leaves behind.  res c cid = some handler, the waiter or an armed timer of call cid exists in c *)
(* the wake-up that ends a request/response task - with its result, a time-out, the caller's cancellation or the connection's
   error - is the task's last step, leaves nothing of the call registered, and nothing of it ever comes back *)
Theorem C11_call_leaves_nothing : forall n e ka scr l1 c1 os1 cid c2 o l2 c3 os3,
  run (init n e ka scr) l1 = Some (c1, os1) -> step c1 (LWake (TCall cid)) = Some (c2, o) -> run c2 l2 = Some (c3, os3) ->
  (exists r, o = [OTaskDone (TCall cid) r]) /\ ~ res c2 cid /\ ~ res c3 cid.
Proof. exact call_leaves_nothing. Qed.
(* a call whose request could not be written ends at once and has registered nothing *)
Theorem C11_unsent_call_registers_nothing : forall n e ka scr l1 c1 os1 send types ap st tmo c2 o t r l2 c3 os3,
  run (init n e ka scr) l1 = Some (c1, os1) -> step c1 (LCallStart send types ap st tmo) = Some (c2, o) ->
  In (OTaskDone t r) o -> run c2 l2 = Some (c3, os3) ->
  t = TCall (next_cid c1) /\ ~ res c2 (next_cid c1) /\ ~ res c3 (next_cid c1).
Proof. exact unsent_call_registers_nothing. Qed.
(* the library's own calls: hello / login inside finish_connection and the request of disconnect() *)
Theorem C11_hello_call_leaves_nothing : forall n e ka scr l1 c1 os1 cid c2 o l2 c3 os3,
  run (init n e ka scr) l1 = Some (c1, os1) -> pc (t_finish c1) = PF_Hello cid ->
  step c1 (LWake TFinish) = Some (c2, o) -> run c2 l2 = Some (c3, os3) -> ~ res c2 cid /\ ~ res c3 cid.
Proof. exact hello_call_leaves_nothing. Qed.
Theorem C11_disconnect_call_leaves_nothing : forall n e ka scr l1 c1 os1 cid c2 o l2 c3 os3,
  run (init n e ka scr) l1 = Some (c1, os1) -> pc (t_disc c1) = PD_Resp cid ->
  step c1 (LWake TDisc) = Some (c2, o) -> run c2 l2 = Some (c3, os3) -> ~ res c2 cid /\ ~ res c3 cid.
Proof. exact disconnect_call_leaves_nothing. Qed.
(* a step never gives an existing call a handler, waiter or timer it did not have: calls cannot disturb each other's registrations *)
Theorem C11_resources_only_shrink : forall c l c' o cid,
  OT c -> step c l = Some (c', o) -> (cid < next_cid c)%nat -> res c' cid -> res c cid.
Proof. intros c l c' o cid HO E L H. destruct (step_R c l c' o HO E) as [Q1 _ _ _]. exact (Q_res c c' cid Q1 L H). Qed.
Theorem C11_call_handlers_typed : forall n e ka scr ls c os ty cid,
  run (init n e ka scr) ls = Some (c, os) -> In (ty, HCall cid) (handlers c) -> exists k, get_call c cid = Some k /\ In ty (c_types k).
Proof. exact call_handlers_typed. Qed.

(* non-vacuity: a connected session, one call; what is registered for it before and after each kind of ending *)
Definition hello11 : msg := mkMsg T_HELLO_RESP true 0 1 NameEmpty false.
Definition connect11 : list label :=
  [LStart; LResolveDone None 1; LWake TStart; LTcpDone None; LWake TStart; LIntr true;
   LFinish false; LMade; LMadeWaiter; LWake TFinish; LData [DFrame hello11]; LWake TFinish; LIntr false].
Definition registered11 (ls : list label) :=
  option_map (fun r => let c := fst r in
                       (has_handler c 1, existsb (Nat.eqb 1) (waiters c),
                        existsb (fun k => Nat.eqb (c_id k) 1 && match c_timer k with Some _ => true | None => false end) (calls c)))
             (run (init false false 20480 []) ls).
Definition call11 := LCallStart [T_PING_REQ] [T_PING_RESP] PAny PAny 1024.
Example C11_registered_while_waiting : registered11 (connect11 ++ [call11]) = Some (true, true, true).
Proof. vm_compute. reflexivity. Qed.
Example C11_nothing_after_timeout :
  registered11 (connect11 ++ [call11; LAdvance 1024; LTimer (TkCall 1); LWake (TCall 1)]) = Some (false, false, false).
Proof. vm_compute. reflexivity. Qed.
Example C11_nothing_after_cancel : registered11 (connect11 ++ [call11; LCancel (TCall 1); LWake (TCall 1)]) = Some (false, false, false).
Proof. vm_compute. reflexivity. Qed.
Example C11_nothing_after_close :
  registered11 (connect11 ++ [call11; LLost (Some (Raw RReset)); LConnLostCb; LWake (TCall 1)]) = Some (false, false, false).
Proof. vm_compute. reflexivity. Qed.
Example C11_nothing_after_result :
  registered11 (connect11 ++ [call11; LData [DFrame (mkMsg T_PING_RESP true 0 0 NameEmpty false)]; LWake (TCall 1)]) = Some (false, false, false).
Proof. vm_compute. reflexivity. Qed.

(* "fails with a timeout error exactly at its timeout", over all runs: while a call's timer is armed, it is armed at exactly
   (time the request was written) + (its time-out); the timer label is enabled from that instant on and not before, and time
   cannot pass it (C11_time_respects_deadlines) *)
Theorem C11_timeout_exactly_at_its_timeout : forall n e ka scr ls c os cid k,
  run (init n e ka scr) ls = Some (c, os) -> get_call c cid = Some k -> c_timer k <> None ->
  c_timer k = Some (c_sent_at k + c_timeout k) /\ c_sent_at k <= now c /\
  (step c (LTimer (TkCall cid)) <> None <-> c_sent_at k + c_timeout k <= now c).
Proof.
  intros n e ka scr ls c os cid k E G T. destruct (c_timer k) as [d|] eqn:Ed; [|congruence].
  pose proof G as G'. unfold get_call in G'. apply find_some in G'. destruct G' as [I _].
  destruct (call_timers_exact n e ka scr ls c os k d E I Ed) as [H1 H2]. subst d.
  split; [reflexivity|]. split; [exact H2|]. apply call_timer_due_iff; assumption.
Qed.
Example C11_timeout_example :
  option_map (fun r => map c_timer (calls (fst r)))
    (run (init false false 20480 []) (connect11 ++ [LAdvance 100; call11])) = Some [None; Some 1124].
Proof. vm_compute. reflexivity. Qed.
