(* C16 - Bluetooth operations are matched by address and handle and never cross-talk.
   Model/Ble.v mirrors the filters of client_callbacks.py (on_bluetooth_handle_message, on_bluetooth_message_types,
   on_bluetooth_gatt_notify_data_response, on_bluetooth_device_connection_response) and every Bluetooth operation of
   client.py as a state machine over the events of the connection; the request/response machinery underneath
   (registration before the write, removal in every ending) is C11. *)
From Coq Require Import NArith ZArith List Bool.
From Verif Require Import Generated.GenConstants Model.Ble Proofs.BleProofs.
Import ListNotations.
Open Scope N_scope.

(* ---- the outcome table of a GATT read / write / notify request ---- *)
Theorem C16_first_own_message_decides : forall resp a h pre m post,
  (forall x, In x pre -> passes resp a h x = false) -> passes resp a h m = true ->
  handle_op resp a h (pre ++ m :: post) =
  match b_kind m with KGattError => OGattError m | KConnection _ => OConnectionDropped m | _ => OResult m end.
Proof. intros. rewrite <- classify_table. apply own_response_completes; assumption. Qed.
Theorem C16_result_carries_own_address_and_handle : forall resp a h ms m,
  handle_op resp a h ms = OResult m -> b_addr m = a /\ b_handle m = h /\ kind_eqb (b_kind m) resp = true.
Proof. exact result_is_own. Qed.
Theorem C16_nothing_own_stays_pending : forall resp a h ms,
  (forall x, In x ms -> passes resp a h x = false) -> handle_op resp a h ms = OPending.
Proof. exact nothing_own_stays_pending. Qed.

(* ---- messages for other addresses or handles never complete, fail or delay it ---- *)
Theorem C16_other_address_is_foreign : forall resp a h m, b_addr m <> a -> passes resp a h m = false.
Proof. exact other_address_is_foreign. Qed.
Theorem C16_other_handle_is_foreign : forall resp a h m, is_conn (b_kind m) = false -> b_handle m <> h -> passes resp a h m = false.
Proof. exact other_handle_is_foreign. Qed.
Theorem C16_foreign_messages_irrelevant : forall resp a h pre x post,
  passes resp a h x = false -> handle_op resp a h (pre ++ x :: post) = handle_op resp a h (pre ++ post).
Proof. exact foreign_messages_irrelevant. Qed.
Theorem C16_no_cross_talk : forall resp1 resp2 a1 h1 a2 h2 m,
  (a1 <> a2 \/ h1 <> h2) -> is_conn (b_kind m) = false -> passes resp1 a1 h1 m = true -> passes resp2 a2 h2 m = false.
Proof. exact no_cross_talk. Qed.
(* every operation (read, write, notify, pair, unpair, clear cache, disconnect, get services, connect), in every phase:
   an event that is none of its business changes nothing and produces nothing *)
Theorem C16_foreign_event_ignored : forall now st e, foreign st e -> op_step now st e = (st, []).
Proof. exact foreign_event_ignored. Qed.
(* concurrency: what an operation does and reports is the same whether or not other operations run beside it,
   for every event sequence *)
Theorem C16_others_do_not_matter : forall id evs s,
  restrict id (fst (brun s evs)) = fst (brun (restrict id s) (filter (keep id) evs)) /\
  obs_of id (snd (brun s evs)) = snd (brun (restrict id s) (filter (keep id) evs)).
Proof. exact others_do_not_matter. Qed.
(* the state machine of a handle operation computes exactly the table above *)
Theorem C16_handle_op_refines : forall now st rq resp a h t ms,
  o_phase st = PRunning -> o_spec st = OpHandle rq resp a h t ->
  snd (run_op now st (map EMsg ms ++ [ETurnEnd])) = match handle_op resp a h ms with OPending => [] | o => [BDone (RMsg o)] end.
Proof. exact handle_op_refines. Qed.
Theorem C16_notify_data_own_only : forall a h pre x post,
  (b_addr x <> a \/ b_handle x <> h \/ kind_eqb (b_kind x) KNotifyData = false) ->
  notify_data a h (pre ++ x :: post) = notify_data a h (pre ++ post).
Proof. exact notify_data_foreign. Qed.

(* ---- a connect that times out: unsubscribe, disconnect for that address, then only the time-out error ---- *)
Theorem C16_connect_waits_until_deadline : forall now st a hc ff t dt e,
  o_phase st = PRunning -> o_spec st = OpConnect a hc ff t dt ->
  match e with EMsg m => is_conn_for a m = false | ETime tm => (tm < o_deadline st)%Z | ECancel id => id <> o_id st | _ => True end ->
  op_step now st e = (st, []).
Proof. exact connect_waits_until_deadline. Qed.
Theorem C16_connect_timeout_disconnects_first : forall now st a hc ff t dt tm,
  o_phase st = PRunning -> o_spec st = OpConnect a hc ff t dt -> (o_deadline st <= tm)%Z ->
  op_step now st (ETime tm) =
  (mkOp (o_id st) (o_spec st) PDisconnecting (now + dt) [], [BUnsubscribed; BWrite (RqDevice BLE_REQ_DISCONNECT) a 0]).
Proof. exact connect_timeout_step. Qed.
Theorem C16_after_timeout_only_the_error : forall now st e,
  timing_out st -> (forall r, o_phase st = PResolved r false -> exists b, r = RConnectTimeout b) ->
  timing_out (fst (op_step now st e)) /\
  (forall r, o_phase (fst (op_step now st e)) = PResolved r false -> exists b, r = RConnectTimeout b) /\
  Forall timeout_obs (snd (op_step now st e)).
Proof. exact after_timeout_only_the_error. Qed.

(* ---- every finished operation leaves nothing subscribed ---- *)
Theorem C16_reachable_well_formed : forall evs, Forall wf (bs_ops (fst (brun bs_init evs))).
Proof. intro evs. apply reachable_wf. constructor. Qed.
Theorem C16_done_means_unsubscribed : forall now st e st' o r,
  wf st -> op_step now st e = (st', o) -> In (BDone r) o -> r <> RReturned -> subscriptions st' = [].
Proof. exact done_unsubscribed. Qed.
Theorem C16_finished_is_inert : forall now st e, o_phase st = PFinished -> op_step now st e = (st, []) /\ subscriptions st = [].
Proof. intros. split; [apply finished_is_inert|apply finished_unsubscribed]; assumption. Qed.
Theorem C16_unsubscribe_is_immediate : forall now st, o_phase st = PActive -> wf st ->
  subscriptions (fst (op_step now st (EUnsub (o_id st)))) = [] /\
  forall m, snd (op_step now (fst (op_step now st (EUnsub (o_id st)))) (EMsg m)) = [].
Proof. exact unsubscribe_is_immediate. Qed.

(* ---- non-vacuity: three concurrent operations, near misses, an error, a connection change, a connect time-out ---- *)
Example C16_concurrent_story :
  let a1 := 5 in let a2 := 6 in
  snd (brun bs_init
    [EStart 1 (OpHandle RqRead KReadResp a1 3 10240); EStart 2 (OpHandle RqWrite KWriteResp a1 4 10240);
     EStart 3 (OpNotify a2 3 10240); EStart 4 (OpConnect 9 false 4 2048 1024);
     EMsg (mkB KReadResp a2 3 70); EMsg (mkB KReadResp a1 4 71); EMsg (mkB KGattError a1 4 72); EMsg (mkB KNotifyData a2 3 73);
     EMsg (mkB KReadResp a1 3 74); EMsg (mkB (KConnection false) a2 0 75); ETurnEnd;
     ETime 2048; ETime 3072])
  = [(1%nat, BWrite RqRead 5 3); (2%nat, BWrite RqWrite 5 4); (3%nat, BWrite (RqNotify true) 6 3); (4%nat, BWrite (RqDevice 5) 9 0);
     (3%nat, BNotifyCb 3 73);
     (1%nat, BDone (RMsg (OResult (mkB KReadResp 5 3 74)))); (2%nat, BDone (RMsg (OGattError (mkB KGattError 5 4 72))));
     (3%nat, BDone (RMsg (OConnectionDropped (mkB (KConnection false) 6 0 75))));
     (4%nat, BUnsubscribed); (4%nat, BWrite (RqDevice 1) 9 0); (4%nat, BDone (RConnectTimeout true))].
Proof. vm_compute. reflexivity. Qed.
Example C16_hypotheses_met :
  foreign (fst (start_op 0 1 (OpHandle RqRead KReadResp 5 3 10240))) (EMsg (mkB KReadResp 5 4 71)) /\
  wf (fst (start_op 0 1 (OpHandle RqRead KReadResp 5 3 10240))) /\
  passes KReadResp 5 3 (mkB KReadResp 5 3 74) = true /\ passes KReadResp 5 3 (mkB KReadResp 5 4 71) = false.
Proof. repeat split; try exact I. right. exists 3. repeat split. discriminate. Qed.

