(* C05 - connection state only moves forward; closed is final; one connect per object.
   Model: Model/Conn.v (labelled transition system mirroring connection.py; one label = one event-loop
   callback or synchronous user call; every interleaving of labels is a run). *)
From Coq Require Import NArith ZArith List Bool.
From Verif Require Import Model.Conn Proofs.ConnCore Proofs.ConnRun Proofs.ConnQuiet Proofs.Product Proofs.ConnPair.
Import ListNotations.

(* every transition of every reachable state - whatever the interleaving of user calls, device events, timers,
   task wake-ups and interrupt callbacks, including several in the same event-loop turn *)
Theorem C05_state_forward : forall c l c' o,
  reachable c -> step c l = Some (c', o) ->
  trans_ok (cs c) (cs c') /\ (cs c = Closed -> cs c' = Closed) /\ flags_ok c /\ flags_ok c'.
Proof. exact state_forward. Qed.

(* over whole runs: the rank never decreases, so a state once left is never re-entered and closed is final *)
Theorem C05_runs_monotone : forall ls c c' os,
  reachable c -> run c ls = Some (c', os) -> (rank (cs c) <= rank (cs c'))%nat.
Proof. intros ls c c' os H. apply run_rank. apply reachable_inv. exact H. Qed.

(* single use: start / finish in any other state raise RuntimeError and change nothing;
   an accepted start needs INITIALIZED and a start task that never ran *)
Theorem C05_start_guard : forall c, cs c <> Init -> step c LStart = Some (c, [ORaise RuntimeErr]).
Proof. exact start_guard. Qed.
Theorem C05_finish_guard : forall c lg, cs c <> SockOpen -> step c (LFinish lg) = Some (c, [ORaise RuntimeErr]).
Proof. exact finish_guard. Qed.
Theorem C05_start_accepted_once : forall c c' o,
  step c LStart = Some (c', o) -> o = [] -> cs c = Init /\ pc (t_start c) = PNone /\ pc (t_start c') = PS_Resolve.
Proof. exact start_accepted. Qed.

(* non-vacuity: a run that connects (plaintext, no login) and is then closed by the peer *)
Definition hello : msg := mkMsg T_HELLO_RESP true 0 1 NameEmpty false.
Definition discreq : msg := mkMsg T_DISC_REQ true 0 0 NameEmpty false.
Definition demo_run : list label :=
  [LStart; LResolveDone None 1; LWake TStart; LTcpDone None; LWake TStart; LIntr true;
   LFinish false; LMade; LMadeWaiter; LWake TFinish; LData [DFrame hello]; LWake TFinish; LIntr false;
   LData [DFrame discreq]].
Example C05_demo_states :
  option_map (fun r => (cs (fst r), stop_calls (fst r))) (run (init false false 20480 []) demo_run) = Some (Closed, [true]).
Proof. vm_compute. reflexivity. Qed.
(* the F1 window: hello response and disconnect request in one chunk while finish_connection waits *)
Example C05_same_turn_close_is_final :
  option_map (fun r => (cs (fst r), is_connected (fst r), ping_timer (fst r)))
    (run (init false false 20480 [])
       [LStart; LResolveDone None 1; LWake TStart; LTcpDone None; LWake TStart; LIntr true;
        LFinish false; LMade; LMadeWaiter; LWake TFinish; LData [DFrame hello; DFrame discreq]; LWake TFinish; LIntr false])
  = Some (Closed, false, None).
Proof. vm_compute. reflexivity. Qed.

(* ---------------------------------------------------------------- several connections in one process *)
(* However many other connections are starting, connected or closing in the same process (Proofs/ConnPair.v: the product of
   connection machines), the state of each one only moves forward along ITS OWN events: *)
Theorem C05_crowd_monotone : forall ls a b a' b' os,
  reachable a -> pair_run (a, b) ls = Some ((a', b'), os) -> (rank (cs a) <= rank (cs a'))%nat.
Proof.
  intros ls a b a' b' os Hr H. destruct (pair_projects _ _ _ _ _ _ H) as [HA _].
  exact (C05_runs_monotone _ _ _ _ Hr HA).
Qed.
(* (that the code has no state outside the connection - no process-wide throttle a start could queue behind - is what
   crowd_probe of checks/c05.py tests) *)
