(* C02 — everything the client writes conforms to the documented wire format.
   Statements only; proofs in Proofs/WireProofs.v, Proofs/VarintProofs.v. *)
From Coq Require Import NArith List Bool.
From Verif Require Import Kernel.Varint Model.PlainFrame Model.NoiseFrame Model.WireSpec.
From Verif Require Import Proofs.VarintProofs Proofs.WireProofs Generated.GenRegistry.
Import ListNotations.
Open Scope N_scope.

(* (1) plaintext: for every packet list, the bytes of the single write decode under the documented
   format (zero byte, minimal varint length, minimal varint type, payload) to exactly the packets *)
Theorem C02_plain_conforms :
  forall (pkts : list (N * PlainFrame.bytes)) (fuel : nat), (length pkts < fuel)%nat ->
    spec_decode_plain fuel (PlainFrame.write_packets pkts) = Some pkts.
Proof. exact plain_conforms. Qed.

(* the varints the client writes are minimal: one byte below 128, otherwise the last 7-bit group
   is non-zero; and every element written is a byte *)
Theorem C02_varint_minimal :
  forall v : N,
    (v <= 127 /\ enc v = [v]) \/
    (127 < v /\ exists init last, enc v = init ++ [last] /\ init <> [] /\ last <> 0 /\ last <= 127).
Proof. exact enc_minimal. Qed.
Theorem C02_varint_bytes : forall v : N, Forall (fun b => b < 256) (enc v).
Proof. exact enc_bytes. Qed.

(* (2) noise: for every AEAD that decrypts what it encrypted and adds a 16-byte tag, and every
   history of write_packets calls whose packets fit the 16-bit fields, the concatenation of all
   writes decodes — 0x01, 16-bit BE length, ciphertext under nonces n, n+1, n+2, ... of
   (16-bit type, 16-bit length, payload) — to exactly the packets, in order, the nonce advancing by
   one per packet; and each call produced exactly one write *)
Theorem C02_noise_conforms :
  forall (encrypt : N -> list N -> list N) (decrypt : N -> list N -> option (list N)),
    (forall n pt, decrypt n (encrypt n pt) = Some pt) ->
    (forall n pt, length (encrypt n pt) = (length pt + 16)%nat) ->
    forall (calls : list (list (N * list N))) (nonce : N) (fuel : nat),
      Forall (Forall fits) calls -> (length (concat calls) < fuel)%nat ->
      spec_decode_noise decrypt fuel nonce (concat (snd (session encrypt nonce calls)))
        = Some (nonce + N.of_nat (length (concat calls)), concat calls) /\
      length (snd (session encrypt nonce calls)) = length calls.
Proof. exact noise_conforms. Qed.

(* (3) known finding F9: without the size guard the statement is false — a 65516-byte payload is
   written under a header that does not describe the frame *)
Theorem C02_noise_oversize_refuted :
  exists pkts : list (N * list N),
    spec_decode_noise toy_decrypt 2 0 (snd (write_frames toy_encrypt 0 pkts)) <> Some (1, pkts).
Proof. exact noise_oversize_refuted. Qed.

(* (4) every registered message id fits the 16-bit type field (table regenerated from core.py) *)
Theorem C02_ids_fit : forallb (fun p => fst p <? 65536) registry = true.
Proof. vm_compute. reflexivity. Qed.

(* non-vacuity: the toy cipher meets both AEAD hypotheses, and a concrete two-call session decodes *)
Example C02_example :
  (forall n pt, toy_decrypt n (toy_encrypt n pt) = Some pt) /\
  (forall n pt, length (toy_encrypt n pt) = (length pt + 16)%nat) /\
  spec_decode_noise toy_decrypt 9 0
    (concat (snd (session toy_encrypt 0 [[(7, [1; 2]); (300, [])]; [(1, [9])]]))) =
    Some (3, [(7, [1; 2]); (300, []); (1, [9])]).
Proof. split; [exact toy_correct|]. split; [exact toy_length|]. vm_compute. reflexivity. Qed.
