(* C19 - the client never wedges and refuses work unless a session is alive.
   Model/Client.v: APIClient's bookkeeping over a sequence of Model/Conn.v connections.
   Proved here: the acceptance rule, the refusal of commands and requests without a live session (nothing written, state
   untouched), that every way a connection ends or a connect phase fails clears the client's reference in the very callback
   in which it happens, and - for every sequence of client calls and connection events - that whenever the connection is
   closed and neither connect phase is in flight the client holds no connection, so that the next start_connection is
   accepted (C19_never_wedged; the invariant behind it, preserved by every label of the connection machine, is in
   Proofs/ConnWedge.v and Proofs/ClientProofs.v). *)
From Coq Require Import NArith ZArith List Bool.
From Verif Require Import Model.Conn Model.Client Proofs.ConnWedge Proofs.ClientProofs Proofs.Product.
Import ListNotations.

Theorem C19_start_accepted_iff_free : forall k k' o,
  cstep k CStart = Some (k', o) -> (In CRaiseAlready o <-> cl_has k = true).
Proof.
  intros k k' o. cbn [cstep]. destruct (cl_has k) eqn:E.
  - intro H. injection H as _ <-. split; auto. intros _. left. reflexivity.
  - destruct (step _ LStart) as [[c1 o1]|]; [|discriminate]. intro H. injection H as _ <-.
    split; [|discriminate]. intro Hin. apply in_map_iff in Hin. destruct Hin as (x & Hx & _). discriminate.
Qed.
(* a refused start changes nothing; an accepted one works on a brand-new connection object *)
Theorem C19_refused_start_is_noop : forall k k' o, cstep k CStart = Some (k', o) -> cl_has k = true -> k' = k /\ o = [CRaiseAlready].
Proof. intros k k' o. cbn [cstep]. intros E H. rewrite H in E. injection E as <- <-. auto. Qed.
Theorem C19_accepted_start_is_fresh : forall k k' o,
  cstep k CStart = Some (k', o) -> cl_has k = false -> cl_sessions k' = S (cl_sessions k) /\ cs (cl_conn k') = Init /\ cl_has k' = true.
Proof.
  intros k k' o. cbn [cstep]. intros E H. rewrite H in E.
  unfold new_conn in E. destruct (cl_cfg k) as [[[nz ex] ka] scr]. cbn [step] in E. cbn in E.
  injection E as <- _. cbn. auto.
Qed.

(* commands and requests without a live, authenticated session: a connection error, nothing written, nothing changed *)
Theorem C19_command_refused : forall k tys k' o,
  cstep k (CCommand tys) = Some (k', o) -> (cl_has k = false \/ is_connected (cl_conn k) = false) ->
  k' = k /\ (o = [CRaiseNotConnected] \/ o = [CRaiseNotReady]).
Proof.
  intros k tys k' o. cbn [cstep]. destruct (cl_has k); [|intros E _; injection E as <- <-; auto].
  destruct (is_connected (cl_conn k)); [intros _ [H|H]; discriminate|]. intros E _. injection E as <- <-. auto.
Qed.
Theorem C19_request_refused : forall k k' o,
  cstep k CRequest = Some (k', o) -> (cl_has k = false \/ is_connected (cl_conn k) = false) ->
  k' = k /\ (o = [CRaiseNotConnected] \/ o = [CRaiseNotReady]).
Proof.
  intros k k' o. cbn [cstep]. destruct (cl_has k); [|intros E _; injection E as <- <-; auto].
  destruct (is_connected (cl_conn k)); [intros _ [H|H]; discriminate|]. intros E _. injection E as <- <-. auto.
Qed.

(* every ending clears the reference at once: the stop hook, a failed connect phase, a returned disconnect() *)
Theorem C19_endings_clear : forall k l k' o,
  cstep k (CConn l) = Some (k', o) ->
  (exists b, In (CO (OStop b)) o) \/ (exists e, In (CO (OTaskDone TStart (TRaise e))) o) \/
  (exists e, In (CO (OTaskDone TFinish (TRaise e))) o) \/ In (CO (OTaskDone TDisc TOk)) o ->
  cl_has k' = false.
Proof.
  intros k l k' o. cbn [cstep]. destruct (allowed_conn_label l); [|discriminate].
  destruct (step (cl_conn k) l) as [[c1 o1]|]; [|discriminate]. unfold after. intro E. injection E as <- <-. cbn.
  intro H. assert (Hc : clears o1 = true).
  { unfold clears. apply existsb_exists.
    destruct H as [[b H]|[[e H]|[[e H]|H]]]; apply in_map_iff in H; destruct H as (x & Hx & Hin); injection Hx as ->; eexists; (split; [exact Hin|reflexivity]). }
  rewrite Hc. reflexivity.
Qed.
Theorem C19_forced_disconnect_clears : forall k k' o, cstep k (CDisconnect true) = Some (k', o) -> cl_has k' = false.
Proof.
  intros k k' o. cbn [cstep]. destruct (cl_has k) eqn:E; [|intro H; injection H as <- _; exact E].
  destruct (step (cl_conn k) LForce) as [[c1 o1]|]; [|discriminate]. intro H. injection H as <- _. reflexivity.
Qed.

(* for EVERY run of the client from a fresh object: a closed connection with no connect phase in flight is not referred to any more,
   and the next start_connection is accepted *)
Theorem C19_never_wedged : forall nz ex ka scr ls k os,
  crun (client_init nz ex ka scr) ls = Some (k, os) ->
  cs (cl_conn k) = Closed -> SF (cl_conn k) = false -> cl_has k = false.
Proof. exact never_wedged. Qed.
Theorem C19_then_start_is_accepted : forall nz ex ka scr ls k os k' o,
  crun (client_init nz ex ka scr) ls = Some (k, os) ->
  cs (cl_conn k) = Closed -> SF (cl_conn k) = false -> cstep k CStart = Some (k', o) -> ~ In CRaiseAlready o.
Proof.
  intros nz ex ka scr ls k os k' o E Hc Hs Es Hin.
  apply (C19_start_accepted_iff_free k k' o Es) in Hin. rewrite (never_wedged nz ex ka scr ls k os E Hc Hs) in Hin. discriminate.
Qed.
(* the invariant holds in every reachable client state: the connection object is well formed and, while referred to, open or in progress *)
Theorem C19_invariant_all_runs : forall nz ex ka scr ls k os, crun (client_init nz ex ka scr) ls = Some (k, os) -> CI k.
Proof. intros. eapply crun_CI; [apply CI_init|eassumption]. Qed.

(* non-vacuity: connect, peer closes, connect again; a command in between is refused *)
Definition hello : msg := mkMsg T_HELLO_RESP true 0 1 NameEmpty false.
Definition discreq : msg := mkMsg T_DISC_REQ true 0 0 NameEmpty false.
Definition session : list clabel :=
  [CStart; CConn (LResolveDone None 1); CConn (LWake TStart); CConn (LTcpDone None); CConn (LWake TStart); CConn (LIntr true);
   CFinish false; CConn LMade; CConn LMadeWaiter; CConn (LWake TFinish); CConn (LData [DFrame hello]); CConn (LWake TFinish); CConn (LIntr false)].
Example C19_two_sessions :
  option_map (fun r => (cl_has (fst r), cl_sessions (fst r), cs (cl_conn (fst r)), last (snd r) []))
    (crun (client_init false false 20480 []) (session ++ [CStart; CConn (LData [DFrame discreq]); CCommand [33%N]; CStart]))
  = Some (true, 2%nat, Init, []).
Proof. vm_compute. reflexivity. Qed.

(* the hypotheses of C19_never_wedged are met after a session the device ended, and after a failed attempt *)
Example C19_never_wedged_applies :
  option_map (fun r => (cs (cl_conn (fst r)), SF (cl_conn (fst r)), cl_has (fst r)))
    (crun (client_init false false 20480 []) (session ++ [CConn (LData [DFrame discreq])]))
  = Some (Closed, false, false) /\
  option_map (fun r => (cs (cl_conn (fst r)), SF (cl_conn (fst r)), cl_has (fst r)))
    (crun (client_init false false 20480 []) [CStart; CConn (LResolveDone (Some (Lib LResolve)) 1); CConn (LWake TStart)])
  = Some (Closed, false, false).
Proof. split; vm_compute; reflexivity. Qed.

(* ---------------------------------------------------------------- several clients in one process *)
(* Two APIClient objects of one process are the interleaving product of two client machines (Proofs/Product.v: the model has no
   state outside the client). Each of them runs its own calls and events only, so it never wedges whatever the other one goes
   through - failed attempts, write failures, sessions that die of any cause. (That the code has no state outside the client
   and its connection is what the two-client probes of the checks test.) *)
Definition client_pair_run := prun client client clabel clabel (list cobs) (list cobs) cstep cstep.

Lemma crun_is_runA : forall ls k, crun k ls = runA client clabel (list cobs) cstep k ls.
Proof.
  induction ls as [|l r IH]; intro k; cbn; [reflexivity|].
  destruct (cstep k l) as [[k1 o]|]; [|reflexivity]. rewrite IH. reflexivity.
Qed.

Theorem C19_two_clients_independent : forall ls a b a' b' os,
  client_pair_run (a, b) ls = Some ((a', b'), os) ->
  crun a (labelsA clabel clabel ls) = Some (a', obsA (list cobs) (list cobs) os).
Proof.
  intros ls a b a' b' os H. rewrite crun_is_runA.
  exact (proj1 (product_projects _ _ _ _ _ _ cstep cstep ls a b a' b' os H)).
Qed.

Theorem C19_never_wedged_beside_another_client : forall nz ex ka scr b ls k b' os,
  client_pair_run (client_init nz ex ka scr, b) ls = Some ((k, b'), os) ->
  cs (cl_conn k) = Closed -> SF (cl_conn k) = false -> cl_has k = false.
Proof.
  intros nz ex ka scr b ls k b' os H. apply C19_two_clients_independent in H.
  exact (C19_never_wedged nz ex ka scr _ k _ H).
Qed.
