(* C19 - the client never wedges and refuses work unless a session is alive (placeholder, extended below). *)
From Coq Require Import NArith ZArith List Bool.
From Verif Require Import Model.Conn Model.Client.
Import ListNotations.

Theorem C19_start_accepted_iff_free : forall k k' o,
  cstep k CStart = Some (k', o) -> (In CRaiseAlready o <-> cl_has k = true).
Proof.
  intros k k' o. cbn [cstep]. destruct (cl_has k) eqn:E.
  - intro H. injection H as _ <-. split; auto. intros _. left. reflexivity.
  - destruct (step _ LStart) as [[c1 o1]|]; [|discriminate]. intro H. injection H as _ <-.
    split; [|discriminate]. intro Hin. apply in_map_iff in Hin. destruct Hin as (x & Hx & _). discriminate.
Qed.
