(* C12 - dispatch exactly once, in order; unknown types ignored; bad payload closes; peer requests answered. *)
From Coq Require Import NArith ZArith List Bool.
From Verif Require Import Generated.GenRegistry Model.Conn Proofs.ConnDispatch Proofs.ConnRun Proofs.Product Proofs.ConnPair.
Import ListNotations.

(* a well-formed message of a known type: exactly the subscribers registered for the type when the dispatch starts,
   each once, in registration order - whatever the subscribers do to the handler table from inside their callbacks *)
Theorem C12_known_type_dispatched : forall c m c' o,
  cs c <> Closed -> registered (m_ty m) = true -> m_valid m = true ->
  process_packet c m = (c', o, None) ->
  deliveries o = map (fun u => (u, m)) (users_of (snapshot c (m_ty m))).
Proof. exact known_type_dispatched. Qed.

Theorem C12_dispatch_prefix_on_error : forall hs m c c' o ex,
  run_handlers c hs m = (c', o, ex) -> exists k, deliveries o = map (fun u => (u, m)) (firstn k (users_of hs)).
Proof. exact dispatch_prefix. Qed.

(* every type number outside 1..n (0, n+1, 65535, any large varint): no effect at all *)
Theorem C12_unknown_type_ignored : forall c m, registered (m_ty m) = false -> process_packet c m = (c, [], None).
Proof. exact unknown_type_ignored. Qed.
Theorem C12_registered_iff : forall ty, registered ty = true <-> (1 <= ty <= N.of_nat (length registry))%N.
Proof. exact registered_iff. Qed.

(* an undecodable payload of a known type: protocol error (first fatal cause kept), closed, nothing delivered,
   the exception propagates out of data_received *)
Theorem C12_bad_payload_closes : forall c m,
  cs c <> Closed -> registered (m_ty m) = true -> m_valid m = false ->
  exists c' o, process_packet c m = (c', o, Some (Raw ROther)) /\ cs c' = Closed /\ deliveries o = [] /\
               fatal c' = Some (match fatal c with Some e => e | None => Lib LProtocol end).
Proof. exact bad_payload_closes. Qed.

(* peer requests *)
Theorem C12_ping_answered : forall c m, can_write c -> call_handler c HPing m = (c, [OWrite [T_PING_RESP]], None).
Proof. exact ping_answered. Qed.
Theorem C12_time_answered : forall c m, can_write c -> call_handler c HTime m = (c, [OWrite [T_TIME_RESP]], None).
Proof. exact time_answered. Qed.
Theorem C12_disconnect_answered_then_expected_close : forall c m,
  can_write c ->
  exists c' o, call_handler c HDisc m = (c', OWrite [T_DISC_RESP] :: o, None) /\ cs c' = Closed /\ expected_disconnect c' = true.
Proof. exact disconnect_answered_then_expected_close. Qed.

(* re-entrant scripts: subscriber 2 subscribes 3 and unsubscribes itself, subscriber 1 unsubscribes itself *)
Definition hello : msg := mkMsg T_HELLO_RESP true 0 1 NameEmpty false.
Definition switch : msg := mkMsg 26 true 1 0 NameEmpty false.
Definition scr : list (nat * list action) := [(1%nat, [AUnsub 26 1]); (2%nat, [ASub 26 3; AUnsub 26 2])].
Definition connect : list label :=
  [LStart; LResolveDone None 1; LWake TStart; LTcpDone None; LWake TStart; LIntr true;
   LFinish false; LMade; LMadeWaiter; LWake TFinish; LData [DFrame hello]; LWake TFinish; LIntr false; LSub 26 1; LSub 26 2].
Example C12_reentrant :
  option_map (fun r => last (snd r) [])
    (run (init false false 20480 scr) (connect ++ [LData [DFrame switch; DFrame switch]]))
  = Some [ODeliver 1 switch; ODeliver 2 switch; ODeliver 3 switch].
Proof. vm_compute. reflexivity. Qed.
Example C12_id0_and_beyond :
  forallb (fun ty => negb (registered ty)) [0; 124; 65535; 70000; 1180591620717411303424]%N = true.
Proof. vm_compute. reflexivity. Qed.

(* ---------------------------------------------------------------- several sessions in one process *)
(* Two connections of one process are the interleaving product of two connection machines (Proofs/ConnPair.v): what each one
   dispatches, answers and writes is what it does in its own run on its own events; in particular a write that session A's
   transport refuses changes nothing in what session B answers to a peer request. (That the code keeps no write state outside
   the connection is what neighbour_answer_probe of checks/c12.py tests.) *)
Theorem C12_neighbour_sessions_independent : forall ls a b a' b' os,
  pair_run (a, b) ls = Some ((a', b'), os) ->
  run a (mine ls) = Some (a', my_obs os) /\ run b (theirs ls) = Some (b', their_obs os).
Proof. exact pair_projects. Qed.

(* non-vacuity: A and B connect in turns; A's device pings it and A's transport refuses the answer (A closes); then B's
   device pings B: B's observations for that read are exactly one write of a PingResponse *)
Definition c12_hello : msg := mkMsg T_HELLO_RESP true 0 1 NameEmpty false.
Definition c12_ping : msg := mkMsg T_PING_REQ true 0 0 NameEmpty false.
Definition c12_connect : list label :=
  [LStart; LResolveDone None 1; LWake TStart; LTcpDone None; LWake TStart; LIntr true;
   LFinish false; LMade; LMadeWaiter; LWake TFinish; LData [DFrame c12_hello]; LWake TFinish; LIntr false].
Example C12_neighbour_answer :
  option_map (fun r => (cs (fst (fst r)), cs (snd (fst r)), last (snd r) (OPA _ _ [])))
    (pair_run (init false false 20480 [], init false false 20480 [])
       (interleave c12_connect c12_connect ++
        [PA label label (LWriteFails true); PA label label (LData [DFrame c12_ping]); PB label label (LData [DFrame c12_ping])]))
  = Some (Closed, Connected, OPB _ _ [OWrite [T_PING_RESP]]).
Proof. vm_compute. reflexivity. Qed.
