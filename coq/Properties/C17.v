(* C17 - one converted callback per subscribed message; camera images reassemble per key.
   Model/Subs.v mirrors on_state_msg (client_callbacks.py) with the per-subscription camera buffer, the subscribe_*
   wrappers of client.py with their unsubscribe closures, and subscribe_voice_assistant with its start task.
   The conversion of a message into its model object is C14's; dispatch to the registered handlers is C12's. *)
From Coq Require Import NArith List Bool.
From Verif Require Import Model.Subs Proofs.SubsProofs.
Import ListNotations.
Open Scope N_scope.

(* ---- states: exactly one callback per state message, that message's type and values, in arrival order ---- *)
Theorem C17_state_message_one_callback : forall st ty key vals,
  states_sub st -> on_msg st (MState ty key vals) = (st, [CbState ty key vals]).
Proof. exact state_message_one_callback. Qed.
Theorem C17_one_callback_per_state_message : forall ms st,
  states_sub st -> filter is_state_cb (snd (feed st ms)) = state_cbs ms.
Proof. exact one_callback_per_state_message. Qed.

(* ---- camera: for EVERY interleaving of chunk streams of several keys (and any other messages in between), the images
        completed for a key are the concatenations of that key's chunks since its previous completion ---- *)
Theorem C17_camera_reassembly_per_key : forall k ms st, states_sub st ->
  filter (is_camera_of k) (snd (feed st ms)) = map (CbCamera k) (images (pending (s_stream st) k) (chunks_of k ms)).
Proof. exact camera_reassembly_per_key. Qed.
Theorem C17_camera_reassembly_fresh : forall k ms st, states_sub st -> s_stream st = [] ->
  filter (is_camera_of k) (snd (feed st ms)) = map (CbCamera k) (images [] (chunks_of k ms)).
Proof. exact camera_reassembly_fresh. Qed.

(* ---- the other subscriptions: the matching handler once per message ---- *)
Theorem C17_other_subscriptions_one_call : forall st, s_live st = true ->
  (s_kind st = SubLogs -> forall p, on_msg st (MLog p) = (st, [CbLog p])) /\
  (s_kind st = SubServiceCalls -> forall p, on_msg st (MServiceCall p) = (st, [CbServiceCall p])) /\
  (forall wr, s_kind st = SubHaStates wr -> forall e a once,
     on_msg st (MHaState e a once) = (st, [if wr && once then CbHaRequest e a else CbHaSub e a])) /\
  (s_kind st = SubAdv -> forall p, on_msg st (MAdv p) = (st, [CbAdv p])) /\
  (s_kind st = SubRawAdv -> forall p, on_msg st (MRawAdv p) = (st, [CbRawAdv p])) /\
  (s_kind st = SubConnFree -> forall f l, on_msg st (MConnFree f l) = (st, [CbConnFree f l])) /\
  (forall a n, s_kind st = SubVa a n -> forall c f w, on_msg st (MVaRequest false c f w) = (st, [CbVaStop true])) /\
  (forall n, s_kind st = SubVa true n -> forall d last, on_msg st (MVaAudio d last) = (st, [if last then CbVaStop false else CbVaAudio d])) /\
  (forall a, s_kind st = SubVa a true -> forall p, on_msg st (MVaAnnounce p) = (st, [CbVaAnnounce p])).
Proof. exact other_subscriptions_one_call. Qed.

(* ---- voice assistant: a start is answered with the port its handler returned, or an error response ---- *)
Theorem C17_va_start_calls_handler : forall st a n conv flags wake,
  s_live st = true -> s_kind st = SubVa a n -> va_inv st ->
  exists st', on_msg st (MVaRequest true conv flags wake) =
              (st', [CbVaStart (s_next_task st) conv flags (if wake =? 0 then None else Some wake)]) /\
              ~ In (s_next_task st) (s_running st) /\ In (s_next_task st) (s_running st') /\
              (forall t, In t (s_running st) -> In t (s_running st')).
Proof. exact va_start_calls_handler. Qed.
Theorem C17_va_start_answered : forall st t r, va_inv st -> In t (s_running st) ->
  snd (on_start_done st t r) =
    match r with HPort p => [OWrite (WVaResponse (Some p))] | HNone => [OWrite (WVaResponse None)] | HRaise => [] end /\
  ~ In t (s_running (fst (on_start_done st t r))) /\
  (forall x, x <> t -> (In x (s_running (fst (on_start_done st t r))) <-> In x (s_running st))).
Proof. exact va_start_answered. Qed.
Theorem C17_va_answered_at_most_once : forall st t r, ~ In t (s_running st) -> on_start_done st t r = (st, []).
Proof. exact va_not_running_is_silent. Qed.
Theorem C17_va_unsub_cancels_latest : forall st a n t, s_kind st = SubVa a n -> s_latest st = Some t -> In t (s_running st) ->
  snd (on_unsub st) = [OWrite WVaUnsub; OCancelStart t] /\ ~ In t (s_running (fst (on_unsub st))) /\ s_live (fst (on_unsub st)) = false.
Proof. exact va_unsub_cancels_latest. Qed.
Theorem C17_va_invariant_all_runs : forall es id k, va_inv (fst (sub_run (new_sub id k) es)).
Proof. intros. apply va_inv_run. apply va_inv_new. Qed.

(* ---- an unsubscribe function stops deliveries at once, and for good ---- *)
Theorem C17_unsubscribe_is_immediate : forall st, can_unsub (s_kind st) = true ->
  s_live (fst (on_unsub st)) = false /\ filter is_cb (snd (on_unsub st)) = [].
Proof. exact unsubscribe_is_immediate. Qed.
Theorem C17_no_callback_after_unsubscribe : forall es st, s_live st = false -> filter is_cb (snd (sub_run st es)) = [].
Proof. exact no_callback_after_unsubscribe. Qed.
Theorem C17_other_id_ignored : forall st e,
  match e with SUnsub id | SStartDone id _ _ => id <> s_id st | SSubscribe _ _ => True | SMsg _ => False end ->
  sub_step st e = (st, []).
Proof. exact other_id_ignored. Qed.

(* ---- non-vacuity ---- *)
Example C17_interleaved_cameras :
  snd (srun [] [SSubscribe 1 SubStates;
                SMsg (MCamera 5 [1; 2] false); SMsg (MState 21 9 100); SMsg (MCamera 6 [10] false); SMsg (MCamera 5 [3] true);
                SMsg (MCamera 6 [] false); SMsg (MCamera 5 [4] true); SMsg (MCamera 6 [11] true); SMsg (MCamera 7 [] true)])
  = [(1%nat, OWrite (WSubscribe SubStates)); (1%nat, CbState 21 9 100); (1%nat, CbCamera 5 [1; 2; 3]); (1%nat, CbCamera 5 [4]);
     (1%nat, CbCamera 6 [10; 11]); (1%nat, CbCamera 7 [])].
Proof. vm_compute. reflexivity. Qed.
Example C17_voice_assistant_story :
  snd (srun [] [SSubscribe 2 (SubVa true false); SMsg (MVaRequest true 7 1 0); SMsg (MVaRequest true 8 1 9); SMsg (MVaAudio 3 false);
                SStartDone 2 0 (HPort 5000); SStartDone 2 0 (HPort 1); SUnsub 2; SStartDone 2 1 HNone; SMsg (MVaAudio 4 false)])
  = [(2%nat, OWrite (WSubscribe (SubVa true false))); (2%nat, CbVaStart 0 7 1 None); (2%nat, CbVaStart 1 8 1 (Some 9)); (2%nat, CbVaAudio 3);
     (2%nat, OWrite (WVaResponse (Some 5000))); (2%nat, OWrite WVaUnsub); (2%nat, OCancelStart 1)].
Proof. vm_compute. reflexivity. Qed.
Example C17_hypotheses_met : states_sub (new_sub 1 SubStates) /\ va_inv (new_sub 2 (SubVa true true)) /\ can_unsub (SubVa true true) = true.
Proof. split; [split; reflexivity|split; [apply va_inv_new|reflexivity]]. Qed.
