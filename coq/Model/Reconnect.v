(* ReconnectLogic (reconnect_logic.py) over a client whose attempt outcomes are adversarial.
   One label = one external event; user callbacks return at once; the connect task is "pending" while a client call
   (start_connection / finish_connection) has not returned - it holds the connected-lock during that time. *)
From Coq Require Import NArith ZArith List Bool.
From Verif Require Import Generated.GenConstants Model.FloatFix.
Import ListNotations.
Open Scope Z_scope.

Inductive rstate := RDisc | RConnecting | RHandshaking | RReady.
Inductive rtask := TNone | TStartPending | TFinishPending.
Inductive outcome := OOk | OErrAuth | OErrOther.

Record rl := mkRl {
  r_state : rstate; r_accept : bool (* _accept_zeroconf_records *); r_stopped : bool; r_listening : bool; r_tries : Z; r_timer : option Z; r_task : rtask;
  r_stopping : bool;            (* stop() is waiting for the lock held by a handshaking connect task *)
  r_alive : bool;               (* the client has a live session (its on_stop has not fired yet) *)
  r_now : Z;
  (* ghost *)
  g_in_flight : Z;              (* client connect calls that have not returned *)
  g_log : list bool             (* on_connect = true / on_disconnect = false, in call order *) }.

Inductive rlabel :=
| LStart | LStop | LTimer | LRecord | LStartDone (r : outcome) | LFinishDone (r : outcome) | LSessionEnd (expected : bool) | LAdv (t : Z).
Inductive robs :=
| OAttempt | OAttemptCancelled | OConnect | ODisconnect (expected : bool) | OConnectError | OStopped | OListen (on : bool) | OTimerSet (deadline : Z).

Definition rl_init : rl := mkRl RDisc true true false 0 None TNone false false 0 0 [].

(* wait after the n-th consecutive failure, in seconds: int(round(min(BASE ** min(tries, CAP), MAX))) *)
Definition backoff_seconds (tries : Z) : Z :=
  let k := Z.min tries BACKOFF_TRIES_CAP in
  let num := BACKOFF_BASE_NUM ^ k in
  let den := BACKOFF_BASE_DEN ^ k in
  if BACKOFF_MAX * den <=? num then BACKOFF_MAX else rhe num den.

Definition accepts_records (st : rstate) : bool := match st with RDisc | RConnecting => true | _ => false end.
(* set_fields: the connection state is (re)assigned through _async_set_connection_state_*, which recomputes the accept flag;
   keep_fields: the state attribute is not touched *)
Definition set_fields (s : rl) st stopped listening tries timer task stopping alive inflight log : rl :=
  mkRl st (accepts_records st) stopped listening tries timer task stopping alive (r_now s) inflight log.
Definition keep_fields (s : rl) stopped listening tries timer task stopping alive inflight log : rl :=
  mkRl (r_state s) (r_accept s) stopped listening tries timer task stopping alive (r_now s) inflight log.

Definition stop_listen (s : rl) : rl * list robs :=
  if r_listening s then (keep_fields s (r_stopped s) false (r_tries s) (r_timer s) (r_task s) (r_stopping s) (r_alive s) (g_in_flight s) (g_log s), [OListen false])
  else (s, []).
Definition start_listen (s : rl) : rl * list robs :=
  if r_listening s then (s, [])
  else (keep_fields s (r_stopped s) true (r_tries s) (r_timer s) (r_task s) (r_stopping s) (r_alive s) (g_in_flight s) (g_log s), [OListen true]).

(* the tail of stop() once it holds the lock *)
Definition stop_tail (s : rl) : rl * list robs :=
  let cancelled := match r_task s with TNone => [] | _ => [OAttemptCancelled] end in
  let inflight := match r_task s with TNone => g_in_flight s | _ => g_in_flight s - 1 end in
  let s1 := set_fields s RDisc true (r_listening s) (r_tries s) None TNone false (r_alive s) inflight (g_log s) in
  let '(s2, o) := stop_listen s1 in (s2, cancelled ++ o ++ [OStopped]).

(* _handle_connection_failure and the re-schedule that follows it *)
Definition failure (s : rl) (auth : bool) : rl * list robs :=
  let tries := if auth then MAXIMUM_BACKOFF_TRIES else r_tries s + 1 in
  let s1 := set_fields s RDisc (r_stopped s) (r_listening s) tries (r_timer s) TNone (r_stopping s) (r_alive s) (g_in_flight s - 1) (g_log s) in
  let '(s2, o) := start_listen s1 in
  let d := r_now s + backoff_seconds tries * UNITS_PER_SECOND in
  (keep_fields s2 (r_stopped s2) (r_listening s2) (r_tries s2) (Some d) (r_task s2) (r_stopping s2) (r_alive s2) (g_in_flight s2) (g_log s2),
   OConnectError :: o ++ [OTimerSet d]).

(* _connect_once_or_reschedule up to its first await; a client that still has a live session refuses at once
   ("Already connected"), which is an ordinary failed attempt *)
Definition connect_once (s : rl) : rl * list robs :=
  match r_state s with
  | RDisc => if r_stopped s then (s, [])
             else
               let s1 := set_fields s RConnecting false (r_listening s) (r_tries s) (r_timer s) TStartPending (r_stopping s) (r_alive s) (g_in_flight s + 1) (g_log s) in
               if r_alive s then let '(s2, o) := failure s1 false in (s2, OAttempt :: o) else (s1, [OAttempt])
  | _ => (s, [])
  end.

(* _call_connect_once *)
Definition call_connect_once (s : rl) : rl * list robs :=
  match r_task s with
  | TNone => connect_once s
  | _ =>
    match r_state s with
    | RConnecting =>
      let s1 := set_fields s RDisc (r_stopped s) (r_listening s) (r_tries s) (r_timer s) TNone (r_stopping s) (r_alive s) (g_in_flight s - 1) (g_log s) in
      let '(s2, o) := connect_once s1 in (s2, OAttemptCancelled :: o)
    | _ => (s, [])
    end
  end.

Definition after_task (r : rl * list robs) : rl * list robs :=
  let '(s, o) := r in
  if r_stopping s then let '(s2, o2) := stop_tail s in (s2, o ++ o2) else (s, o).

Definition rstep (s : rl) (l : rlabel) : option (rl * list robs) :=
  match l with
  | LStart =>
    match r_task s, r_stopping s with
    | TNone, false =>
      let s1 := keep_fields s false (r_listening s) (r_tries s) (r_timer s) (r_task s) false (r_alive s) (g_in_flight s) (g_log s) in
      match r_state s with
      | RDisc => Some (call_connect_once (keep_fields s false (r_listening s) 0 (r_timer s) TNone false (r_alive s) (g_in_flight s) (g_log s)))
      | _ => Some (s1, [])
      end
    | _, _ => None
    end
  | LStop =>
    if r_stopping s then None else
    match r_state s with
    | RHandshaking =>   (* the handshaking task keeps the lock: stop() waits for it *)
      Some (keep_fields s (r_stopped s) (r_listening s) (r_tries s) (r_timer s) (r_task s) true (r_alive s) (g_in_flight s) (g_log s), [])
    | _ => Some (stop_tail s)
    end
  | LTimer =>
    match r_timer s with
    | Some d => if Z.eqb d (r_now s) then
                  Some (call_connect_once (keep_fields s (r_stopped s) (r_listening s) (r_tries s) None (r_task s) (r_stopping s) (r_alive s) (g_in_flight s) (g_log s)))
                else None
    | None => None
    end
  | LRecord =>   (* a matching mDNS record reaches the registered listener *)
    if r_listening s then
      if negb (r_accept s) || r_stopped s then Some (s, [])
      else let '(s1, o1) := stop_listen s in
           let '(s2, o2) := call_connect_once s1 in
           (* records are ignored from now on until the state is assigned again *)
           Some (mkRl (r_state s2) false (r_stopped s2) (r_listening s2) (r_tries s2) (r_timer s2) (r_task s2) (r_stopping s2) (r_alive s2) (r_now s2) (g_in_flight s2) (g_log s2), o1 ++ o2)
    else None
  | LStartDone r =>
    match r_task s with
    | TStartPending =>
      match r with
      | OOk => if r_alive s then None   (* the client refuses a second session: modelled as not enabled *)
               else let '(s1, o1) := stop_listen s in
                    Some (set_fields s1 RHandshaking (r_stopped s1) (r_listening s1) (r_tries s1) (r_timer s1) TFinishPending (r_stopping s1) (r_alive s1) (g_in_flight s1) (g_log s1), o1)
      | OErrAuth => Some (failure s true)
      | OErrOther => Some (failure s false)
      end
    | _ => None
    end
  | LFinishDone r =>
    match r_task s with
    | TFinishPending =>
      match r with
      | OOk => Some (after_task (set_fields s RReady (r_stopped s) (r_listening s) 0 (r_timer s) TNone (r_stopping s) true (g_in_flight s - 1) (g_log s ++ [true]), [OConnect]))
      | OErrAuth => Some (after_task (failure s true))
      | OErrOther => Some (after_task (failure s false))
      end
    | _ => None
    end
  | LSessionEnd expected =>
    match r_alive s, r_task s with
    | true, TNone =>
      let s1 := set_fields s RDisc (r_stopped s) (r_listening s) (r_tries s) (r_timer s) TNone (r_stopping s) false (g_in_flight s) (g_log s ++ [false]) in
      if r_stopped s then Some (s1, [ODisconnect expected])
      else if expected then
        let d := r_now s + EXPECTED_DISCONNECT_COOLDOWN in
        Some (keep_fields s1 false (r_listening s1) (r_tries s1) (Some d) TNone (r_stopping s1) false (g_in_flight s1) (g_log s1), [ODisconnect expected; OTimerSet d])
      else let '(s2, o2) := call_connect_once s1 in Some (s2, ODisconnect expected :: o2)
    | _, _ => None
    end
  | LAdv t =>
    if (r_now s <=? t) && match r_timer s with Some d => t <=? d | None => true end then
      Some (mkRl (r_state s) (r_accept s) (r_stopped s) (r_listening s) (r_tries s) (r_timer s) (r_task s) (r_stopping s) (r_alive s) t (g_in_flight s) (g_log s), [])
    else None
  end.

Fixpoint rrun (s : rl) (ls : list rlabel) : option (rl * list (list robs)) :=
  match ls with
  | [] => Some (s, [])
  | l :: r => match rstep s l with
              | None => None
              | Some (s1, o) => match rrun s1 r with Some (s2, os) => Some (s2, o :: os) | None => None end
              end
  end.
