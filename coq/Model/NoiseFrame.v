(* Noise frame helper: mirrors aioesphomeapi/_frame_helper/noise.py on top of base.py's buffer
   discipline.  Cryptography is NOT modelled: the AEAD and the Noise handshake object are
   parameters (oracles) of the model; theorems state what they assume about them as section
   hypotheses (an ideal AEAD), the correspondence check instantiates them with tables computed
   by real ChaCha20-Poly1305 / the independent responder. *)
From Coq Require Import NArith List Bool.
Import ListNotations.
Open Scope N_scope.

Definition bytes := list N.

Inductive nstate := NHello | NHandshake | NReady | NClosed.

Inductive nerr :=
| EBadMarker (b : N)                 (* ProtocolAPIError "Marker byte invalid" *)
| EEmptyHello                        (* HandshakeAPIError "ServerHello is empty" *)
| EUnknownProto (p : N)              (* HandshakeAPIError "Unknown protocol selected" *)
| EBadName (name : bytes)            (* BadNameAPIError carrying the received name *)
| EEmptyHandshake                    (* HandshakeAPIError "Handshake frame is empty" *)
| EHandshakeFail (text : bytes)      (* HandshakeAPIError "Handshake failure: <text>" *)
| EInvalidKey                        (* InvalidEncryptionKeyAPIError *)
| EClosedFrame                       (* ProtocolAPIError "Connection closed" (frame after close) *)
| EConnClosed                        (* APIConnectionError "Connection closed" (ready future on close()) *)
| EDroppedAfterHello                 (* HandshakeAPIError: reset during hello *)
| ESocketClosed                      (* SocketClosedAPIError: connection lost / EOF *)
| ERawOther.                         (* any other exception object handed to connection_lost *)

(* exceptions that escape data_received (asyncio then calls connection_lost with them) *)
Inductive nraise := RInvalidTag | RIndexError | RUnicode.

Inductive nevent :=
| NDeliver (ty : N) (payload : bytes)   (* connection.process_packet *)
| NReadyOk                              (* ready_future.set_result(None) *)
| NReadyErr (e : nerr)                  (* ready_future.set_exception *)
| NFatal (e : nerr)                     (* connection.report_fatal_error(e) *)
| NTransportClose                       (* transport.close() *)
| NWrite (data : bytes)                 (* transport.write(data): exactly one per call *)
| NRaise (r : nraise).                  (* exception escaping the call *)

Inductive ready := RPending | RDone.

Record st := mkSt {
  s_state : nstate; s_buffer : bytes; s_dec_nonce : N; s_enc_nonce : N;
  s_ready : ready; s_transport : bool (* transport attribute is set *) }.

Definition set_state (s : st) (x : nstate) := mkSt x (s_buffer s) (s_dec_nonce s) (s_enc_nonce s) (s_ready s) (s_transport s).
Definition set_buffer (s : st) (b : bytes) := mkSt (s_state s) b (s_dec_nonce s) (s_enc_nonce s) (s_ready s) (s_transport s).
Definition set_dec (s : st) (n : N) := mkSt (s_state s) (s_buffer s) n (s_enc_nonce s) (s_ready s) (s_transport s).
Definition set_enc (s : st) (n : N) := mkSt (s_state s) (s_buffer s) (s_dec_nonce s) n (s_ready s) (s_transport s).
Definition set_ready (s : st) (r : ready) := mkSt (s_state s) (s_buffer s) (s_dec_nonce s) (s_enc_nonce s) r (s_transport s).
Definition set_transport (s : st) (t : bool) := mkSt (s_state s) (s_buffer s) (s_dec_nonce s) (s_enc_nonce s) (s_ready s) t.

Definition init : st := mkSt NHello [] 0 0 RPending false.

Section Noise.
  (* ---- oracles ------------------------------------------------------------------- *)
  Variable encrypt : N -> bytes -> bytes.            (* nonce -> plaintext -> ciphertext *)
  Variable decrypt : N -> bytes -> option bytes.     (* nonce -> ciphertext -> plaintext | InvalidTag *)
  Variable hs_init : bytes.                          (* proto.write_message() of the initiator *)
  Variable hs_read : bytes -> bool.                  (* proto.read_message(msg) accepted (else InvalidTag) *)
  Variable utf8_ok : bytes -> bool.                  (* bytes.decode() succeeds *)
  Variable expected_name : option bytes.             (* UTF-8 encoding of the configured expected name *)

  Definition be16 (hi lo : N) : N := N.lor (N.shiftl hi 8) lo.
  Definition hi8 (v : N) : N := N.land (N.shiftr v 8) 255.
  Definition lo8 (v : N) : N := N.land v 255.

  (* _set_ready_future_exception *)
  Definition ready_exc (s : st) (e : nerr) : st * list nevent :=
    match s_ready s with
    | RPending => (set_ready s RDone, [NReadyErr e])
    | RDone => (s, [])
    end.

  (* noise _handle_error (with the two rewrites) + base _handle_error *)
  Definition handle_error (s : st) (e : nerr) : st * list nevent :=
    let '(s1, ev) := ready_exc s e in (s1, ev ++ [NFatal e]).

  (* close(): noise override + base close *)
  Definition close (s : st) : st * list nevent :=
    let '(s1, ev) := ready_exc s EConnClosed in
    let s2 := set_state s1 NClosed in
    if s_transport s2 then (set_transport s2 false, ev ++ [NTransportClose]) else (s2, ev).

  Definition handle_error_and_close (s : st) (e : nerr) : st * list nevent :=
    let '(s1, ev1) := handle_error s e in
    let '(s2, ev2) := close s1 in (s2, ev1 ++ ev2).

  (* index of the first NUL at or after position 1 (bytes.find(b"\0", 1)), as the name bytes *)
  Fixpoint take_until_nul (bs : bytes) : option bytes :=
    match bs with
    | [] => None
    | b :: r => if b =? 0 then Some [] else
                match take_until_nul r with Some n => Some (b :: n) | None => None end
    end.

  Definition bytes_eqb (a b : bytes) : bool :=
    (fix go a b := match a, b with
                   | [], [] => true
                   | x :: a', y :: b' => (x =? y) && go a' b'
                   | _, _ => false end) a b.

  (* result of handling one complete frame: new state, events, optional escaping exception *)
  Definition handle_hello (s : st) (frame : bytes) : st * list nevent * option nraise :=
    match frame with
    | [] => let '(s1, ev) := handle_error_and_close s EEmptyHello in (s1, ev, None)
    | p :: rest =>
      if negb (p =? 1) then
        let '(s1, ev) := handle_error_and_close s (EUnknownProto p) in (s1, ev, None)
      else
        match take_until_nul rest with
        | Some name0 =>
          (* bytes.decode(errors="replace"): an undecodable name is presented with U+FFFD (abstracted to one marker element) *)
          let name := if utf8_ok name0 then name0 else [65533] in
          match expected_name with
          | Some en =>
            if bytes_eqb en name then (set_state s NHandshake, [], None)
            else let '(s1, ev) := handle_error_and_close s (EBadName name) in (s1, ev, None)
          | None => (set_state s NHandshake, [], None)
          end
        | None => (set_state s NHandshake, [], None)
        end
    end.

  Definition MAC_FAILURE : bytes :=  (* "Handshake MAC failure" *)
    [72;97;110;100;115;104;97;107;101;32;77;65;67;32;102;97;105;108;117;114;101].

  Definition handle_handshake (s : st) (frame : bytes) : st * list nevent * option nraise :=
    match frame with
    | [] => let '(s1, ev) := handle_error_and_close s EEmptyHandshake in (s1, ev, None)
    | b :: rest =>
      if negb (b =? 0) then
        let text := if utf8_ok rest then rest else [65533] in
        if bytes_eqb text MAC_FAILURE
        then let '(s1, ev) := handle_error_and_close s EInvalidKey in (s1, ev, None)
        else let '(s1, ev) := handle_error_and_close s (EHandshakeFail text) in (s1, ev, None)
      else if hs_read rest then
        let s1 := set_state s NReady in
        (* ciphers start at nonce 0; ready_future.set_result(None) *)
        (set_ready (set_enc (set_dec s1 0) 0) RDone, [NReadyOk], None)
      else (s, [], Some RInvalidTag)
    end.

  Definition handle_frame (s : st) (frame : bytes) : st * list nevent * option nraise :=
    match decrypt (s_dec_nonce s) frame with
    | None => (s, [], Some RInvalidTag)
    | Some msg =>
      let s1 := set_dec s (s_dec_nonce s + 1) in
      match msg with
      | t_hi :: t_lo :: _ => (s1, [NDeliver (be16 t_hi t_lo) (skipn 4 msg)], None)
      | _ => (s1, [], Some RIndexError)
      end
    end.

  Definition handle_closed (s : st) : st * list nevent * option nraise :=
    let '(s1, ev) := handle_error s EClosedFrame in (s1, ev, None).

  Inductive status := Ok | Stopped | Raised (r : nraise) | OutOfFuel.
  Record result := { r_st : st; r_events : list nevent; r_status : status }.

  Fixpoint loop (fuel : nat) (s : st) (acc : list nevent) : result :=
    match fuel with
    | O => {| r_st := s; r_events := acc; r_status := OutOfFuel |}
    | S f =>
      match s_buffer s with
      | [] => {| r_st := s; r_events := acc; r_status := Ok |}
      | b0 :: b1 :: b2 :: body =>
        if negb (b0 =? 1) then
          let '(s1, ev) := handle_error_and_close s (EBadMarker b0) in
          {| r_st := s1; r_events := acc ++ ev; r_status := Stopped |}
        else
          let len := N.to_nat (be16 b1 b2) in
          if Nat.ltb (length body) len then {| r_st := s; r_events := acc; r_status := Ok |}
          else
            let frame := firstn len body in
            let '(s1, ev, ex) :=
              match s_state s with
              | NReady => handle_frame s frame
              | NHello => handle_hello s frame
              | NHandshake => handle_handshake s frame
              | NClosed => handle_closed s
              end in
            match ex with
            | Some r => {| r_st := s1; r_events := acc ++ ev ++ [NRaise r]; r_status := Raised r |}
            | None => loop f (set_buffer s1 (skipn len body)) (acc ++ ev)
            end
      | _ => {| r_st := s; r_events := acc; r_status := Ok |}
      end
    end.

  Definition data_received (s : st) (chunk : bytes) : result :=
    let b := s_buffer s ++ chunk in loop (S (length b)) (set_buffer s b) [].

  (* ---- connection_made: hello + handshake in one write ------------------------------- *)
  Definition NOISE_HELLO : bytes := [1; 0; 0].
  Definition connection_made (s : st) : st * list nevent :=
    let frame_len := N.of_nat (length hs_init) + 1 in
    (set_transport s true,
     [NWrite (NOISE_HELLO ++ [1; hi8 frame_len; lo8 frame_len] ++ [0] ++ hs_init)]).

  (* ---- write_packets ------------------------------------------------------------------ *)
  Definition inner_header (ty : N) (len : N) : bytes := [hi8 ty; lo8 ty; hi8 len; lo8 len].

  Fixpoint write_frames (nonce : N) (pkts : list (N * bytes)) : N * bytes :=
    match pkts with
    | [] => (nonce, [])
    | (ty, data) :: r =>
      let frame := encrypt nonce (inner_header ty (N.of_nat (length data)) ++ data) in
      let flen := N.of_nat (length frame) in
      let '(n', out) := write_frames (nonce + 1) r in
      (n', [1; hi8 flen; lo8 flen] ++ frame ++ out)
    end.

  Definition write_packets (s : st) (pkts : list (N * bytes)) : st * list nevent :=
    let '(n', out) := write_frames (s_enc_nonce s) pkts in (set_enc s n', [NWrite out]).

  (* ---- transport callbacks ---------------------------------------------------------- *)
  (* connection_lost(exc): exc kind given as the error it maps to after the noise rewrites *)
  Inductive lost := LostNone | LostReset | LostInvalidTag | LostOther.
  Definition connection_lost (s : st) (l : lost) : st * list nevent :=
    let e := match l with
             | LostNone => ESocketClosed
             | LostReset => match s_state s with NHello => EDroppedAfterHello | _ => ERawOther end
             | LostInvalidTag => EInvalidKey
             | LostOther => ERawOther
             end in
    handle_error s e.
  Definition eof_received (s : st) : st * list nevent := handle_error s ESocketClosed.
End Noise.

(* ---- a helper-level session: the helper driven by a transport that follows rule K10 and a
   connection stub whose report_fatal_error closes the helper once (APIConnection._cleanup) ---- *)
Inductive op :=
| OMade
| OData (c : bytes)
| OWrite (pkts : list (N * bytes))
| OLost (l : lost)
| OEof
| OClose.

Record sess := mkSess { ss : st; conn_closed : bool; transport_dead : bool }.
Definition sess_init : sess := mkSess init false false.

Section Session.
  Variable encrypt : N -> bytes -> bytes.
  Variable decrypt : N -> bytes -> option bytes.
  Variable hs_init : bytes.
  Variable hs_read : bytes -> bool.
  Variable utf8_ok : bytes -> bool.
  Variable expected_name : option bytes.

  Definition is_fatal (e : nevent) : bool := match e with NFatal _ => true | _ => false end.

  (* the connection reacts to the first fatal report by closing the helper *)
  Definition after_events (x : sess) (s : st) (evs : list nevent) : sess * list nevent :=
    if existsb is_fatal evs && negb (conn_closed x) then
      let '(s1, ev) := close s in (mkSess s1 true (transport_dead x), evs ++ ev)
    else (mkSess s (conn_closed x) (transport_dead x), evs).

  Definition lost_of_raise (r : nraise) : lost :=
    match r with RInvalidTag => LostInvalidTag | _ => LostOther end.

  Definition step (x : sess) (o : op) : sess * list nevent :=
    match o with
    | OMade => let '(s, ev) := connection_made hs_init (ss x) in (mkSess s (conn_closed x) (transport_dead x), ev)
    | OData c =>
      if transport_dead x || negb (s_transport (ss x)) then (x, [])
      else
        let r := data_received decrypt hs_read utf8_ok expected_name (ss x) c in
        let '(x1, ev1) := after_events x (r_st r) (r_events r) in
        match r_status r with
        | Raised e =>
          (* K10: the transport force-closes and calls connection_lost(exc); no more data *)
          let '(s2, ev2) := connection_lost (ss x1) (lost_of_raise e) in
          let '(x2, ev3) := after_events (mkSess (ss x1) (conn_closed x1) true) s2 ev2 in
          (x2, ev1 ++ ev3)
        | _ => (x1, ev1)
        end
    | OWrite pkts =>
      let '(s, ev) := write_packets encrypt (ss x) pkts in (mkSess s (conn_closed x) (transport_dead x), ev)
    | OLost l =>
      let '(s, ev) := connection_lost (ss x) l in
      after_events (mkSess (ss x) (conn_closed x) true) s ev
    | OEof =>
      let '(s, ev) := eof_received (ss x) in after_events x s ev
    | OClose =>
      let '(s, ev) := close (ss x) in (mkSess s (conn_closed x) (transport_dead x), ev)
    end.

  Fixpoint run (x : sess) (ops : list op) : list (list nevent) * sess :=
    match ops with
    | [] => ([], x)
    | o :: r => let '(x1, ev) := step x o in let '(evs, xf) := run x1 r in (ev :: evs, xf)
    end.
End Session.
