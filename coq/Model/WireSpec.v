(* Independent decoders for the documented wire formats (api.proto comment block; Noise framing):
   written from the documentation, not from the client's writer.  Used as the specification in C02. *)
From Coq Require Import NArith List Bool.
From Verif Require Import Kernel.Varint.
Import ListNotations.
Open Scope N_scope.

Definition bytes := list N.

Fixpoint bytes_eqb (a b : bytes) : bool :=
  match a, b with
  | [], [] => true
  | x :: a', y :: b' => (x =? y) && bytes_eqb a' b'
  | _, _ => false
  end.

(* minimal varint: base-128, little endian groups, no superfluous trailing zero group.
   Decoded with the generic reader, then required to be the canonical (shortest) encoding. *)
Definition spec_varint (bs : bytes) : option (N * bytes) :=
  match read_varuint bs with
  | Some (v, rest) => if bytes_eqb (enc v ++ rest) bs then Some (v, rest) else None
  | None => None
  end.

(* plaintext: zero byte, minimal varint payload length, minimal varint type, payload *)
Fixpoint spec_decode_plain (fuel : nat) (bs : bytes) : option (list (N * bytes)) :=
  match fuel with
  | O => None
  | S f =>
    match bs with
    | [] => Some []
    | 0 :: r0 =>
      match spec_varint r0 with
      | Some (len, r1) =>
        match spec_varint r1 with
        | Some (ty, r2) =>
          if N.of_nat (length r2) <? len then None
          else match spec_decode_plain f (skipn (N.to_nat len) r2) with
               | Some rest => Some ((ty, firstn (N.to_nat len) r2) :: rest)
               | None => None
               end
        | None => None
        end
      | None => None
      end
    | _ => None
    end
  end.

Section NoiseSpec.
  Variable decrypt : N -> bytes -> option bytes.

  Definition be16 (hi lo : N) : N := hi * 256 + lo.

  (* Noise: 0x01, 16-bit big-endian length, AEAD ciphertext under consecutive nonces of
     (16-bit type, 16-bit length, payload of exactly that length) *)
  Fixpoint spec_decode_noise (fuel : nat) (nonce : N) (bs : bytes) : option (N * list (N * bytes)) :=
    match fuel with
    | O => None
    | S f =>
      match bs with
      | [] => Some (nonce, [])
      | 1 :: hi :: lo :: body =>
        let len := N.to_nat (be16 hi lo) in
        if (hi <? 256) && (lo <? 256) && negb (Nat.ltb (length body) len) then
          match decrypt nonce (firstn len body) with
          | Some (t_hi :: t_lo :: l_hi :: l_lo :: payload) =>
            if (t_hi <? 256) && (t_lo <? 256) && (l_hi <? 256) && (l_lo <? 256) &&
               (N.of_nat (length payload) =? be16 l_hi l_lo) then
              match spec_decode_noise f (nonce + 1) (skipn len body) with
              | Some (n', rest) => Some (n', (be16 t_hi t_lo, payload) :: rest)
              | None => None
              end
            else None
          | _ => None
          end
        else None
      | _ => None
      end
    end.
End NoiseSpec.
