(* Bluetooth proxy operations of client.py (on top of the request/response machinery proved in C11):
   the two filters of client_callbacks.py and what each kind of operation makes of the first message that passes. *)
From Coq Require Import NArith List Bool.
Import ListNotations.
Open Scope N_scope.

Inductive bkind :=
| KReadResp | KWriteResp | KNotifyResp          (* responses to GATT read / write / notify requests *)
| KGattError | KConnection (connected : bool)    (* BluetoothGATTErrorResponse / BluetoothDeviceConnectionResponse *)
| KPairResp | KUnpairResp | KClearCacheResp | KNotifyData | KServices | KServicesDone.
Record bmsg := mkB { b_kind : bkind; b_addr : N; b_handle : N; b_data : N }.

Definition kind_eqb (a b : bkind) : bool :=
  match a, b with
  | KReadResp, KReadResp | KWriteResp, KWriteResp | KNotifyResp, KNotifyResp | KGattError, KGattError
  | KPairResp, KPairResp | KUnpairResp, KUnpairResp | KClearCacheResp, KClearCacheResp | KNotifyData, KNotifyData
  | KServices, KServices | KServicesDone, KServicesDone => true
  | KConnection _, KConnection _ => true
  | _, _ => false
  end.
Definition is_conn (k : bkind) : bool := match k with KConnection _ => true | _ => false end.

(* on_bluetooth_handle_message *)
Definition handle_filter (a h : N) (m : bmsg) : bool :=
  if is_conn (b_kind m) then b_addr m =? a else (b_addr m =? a) && (b_handle m =? h).
(* on_bluetooth_message_types *)
Definition types_filter (a : N) (kinds : list bkind) (m : bmsg) : bool :=
  existsb (kind_eqb (b_kind m)) kinds && (b_addr m =? a).

(* a handle operation (read / write with response / notify start): registered for its response type, GATT errors and
   connection changes; accept = stop = handle_filter *)
Definition registered_for (resp : bkind) (m : bmsg) : bool :=
  kind_eqb (b_kind m) resp || kind_eqb (b_kind m) KGattError || is_conn (b_kind m).

Inductive outcome := OResult (m : bmsg) | OGattError (m : bmsg) | OConnectionDropped (m : bmsg) | OPending.

Definition classify (m : bmsg) : outcome :=
  match b_kind m with
  | KGattError => OGattError m
  | KConnection _ => OConnectionDropped m
  | _ => OResult m
  end.

Definition passes (resp : bkind) (a h : N) (m : bmsg) : bool := registered_for resp m && handle_filter a h m.

(* what the operation ends with, given everything the device sent after the request (OPending = only the timeout ends it) *)
Definition handle_op (resp : bkind) (a h : N) (ms : list bmsg) : outcome :=
  match find (passes resp a h) ms with Some m => classify m | None => OPending end.

(* device requests watched for a connection change: pair / unpair / clear cache *)
Definition passes_dev (resp : bkind) (a : N) (m : bmsg) : bool := types_filter a [KConnection true; resp] m.
Definition device_op (resp : bkind) (a : N) (ms : list bmsg) : outcome :=
  match find (passes_dev resp a) ms with Some m => classify m | None => OPending end.

(* disconnect: only a connection response for the address with connected = false ends it *)
Definition passes_disc (a : N) (m : bmsg) : bool :=
  match b_kind m with KConnection c => (b_addr m =? a) && negb c | _ => false end.

(* notify data: the callback of (a, h) gets exactly the data messages of (a, h) *)
Definition notify_data (a h : N) (ms : list bmsg) : list N :=
  map b_data (filter (fun m => kind_eqb (b_kind m) KNotifyData && (b_addr m =? a) && (b_handle m =? h)) ms).

(* bluetooth_device_connect: observations when the connect response does not arrive in time *)
Inductive cobs := CSubscribe | CWriteConnect (a : N) | CUnsubscribe | CWriteDisconnect (a : N) | CRaiseTimeout | CReturn | CStateCallback (m : bmsg).
Definition connect_timeout_trace (a : N) : list cobs :=
  [CSubscribe; CWriteConnect a; CUnsubscribe; CWriteDisconnect a; CRaiseTimeout].
Definition connect_trace (a : N) (ms : list bmsg) : list cobs :=
  (* before the timeout: every connection response for a is handed to the state callback; the first one ends the wait *)
  match find (fun m => is_conn (b_kind m) && (b_addr m =? a)) ms with
  | Some m => [CSubscribe; CWriteConnect a; CStateCallback m; CReturn]
  | None => connect_timeout_trace a
  end.

(* ------------------------------------------------------------------------------------------------------------------
   The operations as state machines: every operation of client.py evolves on its own over the events of the
   connection (device messages, time, its own cancellation / unsubscribe call); the client is the collection of them. *)
From Coq Require Import ZArith.
From Verif Require Import Generated.GenConstants.
Open Scope N_scope.

Inductive reqkind := RqRead | RqReadDesc | RqWrite | RqWriteDesc | RqNotify (enable : bool) | RqDevice (request_type : Z) | RqServices.

Inductive opspec :=
| OpHandle (rq : reqkind) (resp : bkind) (a h : N) (timeout : Z)        (* read / read descriptor / write / write descriptor with response *)
| OpWriteNoResponse (rq : reqkind) (a h : N)                            (* write without response: one frame, nothing awaited *)
| OpDevice (request_type : Z) (resp : bkind) (a : N) (timeout : Z)      (* pair / unpair / clear cache *)
| OpDisconnect (a : N) (timeout : Z)
| OpServices (a : N)
| OpNotify (a h : N) (timeout : Z)
| OpConnect (a : N) (has_cache : bool) (feature_flags : N) (timeout disconnect_timeout : Z).

Definition connect_request_type (has_cache : bool) (feature_flags : N) : Z :=
  if has_cache then BLE_REQ_CONNECT_V3_WITH_CACHE
  else if negb (N.land feature_flags (Z.to_N BLE_FEATURE_REMOTE_CACHING) =? 0)%N then BLE_REQ_CONNECT_V3_WITHOUT_CACHE
  else BLE_REQ_CONNECT.

Inductive result :=
| RMsg (o : outcome)                      (* result / GATT error / connection dropped, with the deciding message *)
| RServices (chunks : list N)             (* get_services: the data of the collected service messages, in order *)
| RSent                                   (* nothing awaited *)
| RReturned                               (* connect returned its unsubscribe function; notify returned its two functions *)
| RTimeout                                (* TimeoutAPIError of the operation's own await *)
| RConnectTimeout (disconnect_timed_out : bool)
| RCancelled.

Inductive bobs :=
| BWrite (rq : reqkind) (a h : N)
| BDone (r : result)
| BNotifyCb (h : N) (data : N)
| BStateCb (m : bmsg)
| BUnsubscribed.                          (* connect: the state callback is removed before the disconnect is issued *)

(* PResolved r act: the operation's future has been resolved (the outcome is decided) and its coroutine resumes when the
   current chunk has been processed; act = it then stays subscribed (what it returns is an unsubscribe function) *)
Inductive phase := PRunning | PDisconnecting | PActive | PResolved (r : result) (act : bool) | PFinished.
Record opst := mkOp { o_id : nat; o_spec : opspec; o_phase : phase; o_deadline : Z; o_acc : list bmsg }.

Inductive bevent :=
| EMsg (m : bmsg)
| ETime (t : Z)                           (* virtual time reaches t: timers due by then fire *)
| ECancel (id : nat)                      (* the awaiting task is cancelled *)
| EUnsub (id : nat)                       (* the function returned by connect / remove_callback of notify is called *)
| EStopNotify (id : nat)                  (* the stop_notify coroutine returned by notify is awaited *)
| ETurnEnd                                (* the chunk has been processed: coroutines whose future was resolved resume *)
| EStart (id : nat) (spec : opspec).

Definition services_accept (a : N) := types_filter a [KGattError; KConnection true; KServices].
Definition services_stop (a : N) := types_filter a [KGattError; KConnection true; KServicesDone].
Definition services_registered (m : bmsg) : bool :=
  existsb (kind_eqb (b_kind m)) [KServices; KServicesDone; KGattError; KConnection true].
Fixpoint services_result (acc : list bmsg) (got : list N) : result :=
  match acc with
  | [] => RServices got
  | m :: rest => match b_kind m with
                 | KConnection _ => RMsg (OConnectionDropped m)
                 | KGattError => RMsg (OGattError m)
                 | _ => services_result rest (got ++ [b_data m])
                 end
  end.

Definition is_notify_data (a h : N) (m : bmsg) : bool := kind_eqb (b_kind m) KNotifyData && (b_addr m =? a) && (b_handle m =? h).
Definition is_conn_for (a : N) (m : bmsg) : bool := is_conn (b_kind m) && (b_addr m =? a).

Definition finish (st : opst) (r : result) : opst * list bobs :=
  (mkOp (o_id st) (o_spec st) PFinished (o_deadline st) [], [BDone r]).
Definition to_phase (st : opst) (p : phase) : opst := mkOp (o_id st) (o_spec st) p (o_deadline st) (o_acc st).
Definition resolve (st : opst) (r : result) (act : bool) : opst := to_phase st (PResolved r act).
Definition is_connect (sp : opspec) : bool := match sp with OpConnect _ _ _ _ _ => true | _ => false end.
Definition cancelled (st : opst) : opst * list bobs :=
  (fst (finish st RCancelled), if is_connect (o_spec st) then [BUnsubscribed; BDone RCancelled] else [BDone RCancelled]).

(* timers and cancellation while the operation awaits *)
Definition await_other (st : opst) (e : bevent) : opst * list bobs :=
  match e with
  | ETime t => if (o_deadline st <=? t)%Z then finish st RTimeout else (st, [])
  | ECancel id => if Nat.eqb id (o_id st) then cancelled st else (st, [])
  | _ => (st, [])
  end.
Definition await_step (st : opst) (pass : bmsg -> bool) (e : bevent) : opst * list bobs :=
  match e with
  | EMsg m => if pass m then (resolve st (RMsg (classify m)) false, []) else (st, [])
  | _ => await_other st e
  end.

Definition op_step (now : Z) (st : opst) (e : bevent) : opst * list bobs :=
  match o_phase st, o_spec st with
  | PFinished, _ => (st, [])
  | PResolved r act, sp =>
      match e with
      | EMsg m => match sp with
                  | OpNotify a h _ => if is_notify_data a h m then (st, [BNotifyCb h (b_data m)]) else (st, [])
                  | OpConnect a _ _ _ _ => if act && is_conn_for a m then (st, [BStateCb m]) else (st, [])
                  | _ => (st, [])
                  end
      | ETurnEnd => if act then (to_phase st PActive, [BDone r]) else finish st r
      | ECancel id => if Nat.eqb id (o_id st) then
                        (fst (finish st RCancelled), if is_connect sp && act then [BUnsubscribed; BDone RCancelled] else [BDone RCancelled])
                      else (st, [])
      | _ => (st, [])
      end
  | PRunning, OpHandle _ resp a h _ => await_step st (passes resp a h) e
  | PRunning, OpDevice _ resp a _ => await_step st (passes_dev resp a) e
  | PRunning, OpDisconnect a _ =>
      match e with
      | EMsg m => if passes_disc a m then (resolve st (RMsg (OResult m)) false, []) else (st, [])
      | _ => await_other st e
      end
  | PRunning, OpServices a =>
      match e with
      | EMsg m => if services_registered m then
                    let acc := if services_accept a m then o_acc st ++ [m] else o_acc st in
                    if services_stop a m then (resolve st (services_result acc []) false, [])
                    else (mkOp (o_id st) (o_spec st) PRunning (o_deadline st) acc, [])
                  else (st, [])
      | _ => await_other st e
      end
  | PRunning, OpNotify a h _ =>
      match e with
      | EMsg m => if is_notify_data a h m then (st, [BNotifyCb h (b_data m)])
                  else if passes KNotifyResp a h m then
                    match classify m with
                    | OResult _ => (resolve st RReturned true, [])
                    | o => (resolve st (RMsg o) false, [])   (* the data callback is removed when the coroutine resumes *)
                    end
                  else (st, [])
      | _ => await_other st e
      end
  | PActive, OpNotify a h _ =>
      match e with
      | EMsg m => if is_notify_data a h m then (st, [BNotifyCb h (b_data m)]) else (st, [])
      | EUnsub id => if Nat.eqb id (o_id st) then (to_phase st PFinished, []) else (st, [])
      | EStopNotify id => if Nat.eqb id (o_id st) then (to_phase st PFinished, [BWrite (RqNotify false) a h]) else (st, [])
      | _ => (st, [])
      end
  | PRunning, OpConnect a _ _ _ dt =>
      match e with
      | EMsg m => if is_conn_for a m then (resolve st RReturned true, [BStateCb m]) else (st, [])
      | ETime t => if (o_deadline st <=? t)%Z
                   then (mkOp (o_id st) (o_spec st) PDisconnecting (now + dt) [], [BUnsubscribed; BWrite (RqDevice BLE_REQ_DISCONNECT) a 0])
                   else (st, [])
      | ECancel id => if Nat.eqb id (o_id st) then cancelled st else (st, [])
      | _ => (st, [])
      end
  | PDisconnecting, OpConnect a _ _ _ _ =>
      match e with
      | EMsg m => if passes_disc a m then (resolve st (RConnectTimeout false) false, []) else (st, [])
      | ETime t => if (o_deadline st <=? t)%Z then finish st (RConnectTimeout true) else (st, [])
      | ECancel id => if Nat.eqb id (o_id st) then finish st RCancelled else (st, [])
      | _ => (st, [])
      end
  | PActive, OpConnect a _ _ _ _ =>
      match e with
      | EMsg m => if is_conn_for a m then (st, [BStateCb m]) else (st, [])
      | EUnsub id => if Nat.eqb id (o_id st) then (to_phase st PFinished, []) else (st, [])
      | _ => (st, [])
      end
  | _, _ => (st, [])
  end.

(* what the operation is subscribed to (message kinds of its handlers on the connection) *)
Definition subscriptions (st : opst) : list bkind :=
  match o_phase st, o_spec st with
  | PRunning, OpHandle _ resp _ _ _ => [resp; KGattError; KConnection true]
  | PRunning, OpDevice _ resp _ _ => [KConnection true; resp]
  | PRunning, OpDisconnect _ _ => [KConnection true]
  | PRunning, OpServices _ => [KServices; KServicesDone; KGattError; KConnection true]
  | PRunning, OpNotify _ _ _ => [KNotifyData; KNotifyResp; KGattError; KConnection true]
  | PActive, OpNotify _ _ _ => [KNotifyData]
  | PRunning, OpConnect _ _ _ _ _ => [KConnection true]
  | PActive, OpConnect _ _ _ _ _ => [KConnection true]
  | PDisconnecting, OpConnect _ _ _ _ _ => [KConnection true]
  | PResolved _ _, OpHandle _ resp _ _ _ => [resp; KGattError; KConnection true]
  | PResolved _ _, OpDevice _ resp _ _ => [KConnection true; resp]
  | PResolved _ _, OpDisconnect _ _ => [KConnection true]
  | PResolved _ _, OpServices _ => [KServices; KServicesDone; KGattError; KConnection true]
  | PResolved _ _, OpNotify _ _ _ => [KNotifyData; KNotifyResp; KGattError; KConnection true]
  | PResolved _ _, OpConnect _ _ _ _ _ => [KConnection true]
  | _, _ => []
  end.

(* starting an operation: the request frame and the initial state *)
Definition start_op (now : Z) (id : nat) (spec : opspec) : opst * list bobs :=
  match spec with
  | OpHandle rq _ a h t => (mkOp id spec PRunning (now + t) [], [BWrite rq a h])
  | OpWriteNoResponse rq a h => (mkOp id spec PFinished now [], [BWrite rq a h; BDone RSent])
  | OpDevice rt _ a t => (mkOp id spec PRunning (now + t) [], [BWrite (RqDevice rt) a 0])
  | OpDisconnect a t => (mkOp id spec PRunning (now + t) [], [BWrite (RqDevice BLE_REQ_DISCONNECT) a 0])
  | OpServices a => (mkOp id spec PRunning (now + DEFAULT_BLE_TIMEOUT) [], [BWrite RqServices a 0])
  | OpNotify a h t => (mkOp id spec PRunning (now + t) [], [BWrite (RqNotify true) a h])
  | OpConnect a hc ff t _ => (mkOp id spec PRunning (now + t) [], [BWrite (RqDevice (connect_request_type hc ff)) a 0])
  end.

Record bstate := mkBS { bs_now : Z; bs_ops : list opst }.
Definition bs_init : bstate := mkBS 0 [].

Fixpoint step_all (now : Z) (ops : list opst) (e : bevent) : list opst * list (nat * bobs) :=
  match ops with
  | [] => ([], [])
  | st :: rest => let '(st', o) := op_step now st e in
                  let '(rest', o') := step_all now rest e in
                  (st' :: rest', map (pair (o_id st)) o ++ o')
  end.

Definition bstep (s : bstate) (e : bevent) : bstate * list (nat * bobs) :=
  match e with
  | EStart id spec => let '(st, o) := start_op (bs_now s) id spec in (mkBS (bs_now s) (bs_ops s ++ [st]), map (pair id) o)
  | ETime t => let now := Z.max (bs_now s) t in
               let '(ops, o) := step_all now (bs_ops s) e in (mkBS now ops, o)
  | _ => let '(ops, o) := step_all (bs_now s) (bs_ops s) e in (mkBS (bs_now s) ops, o)
  end.

Fixpoint brun (s : bstate) (es : list bevent) : bstate * list (nat * bobs) :=
  match es with
  | [] => (s, [])
  | e :: rest => let '(s1, o1) := bstep s e in let '(s2, o2) := brun s1 rest in (s2, o1 ++ o2)
  end.

Definition all_subscriptions (s : bstate) : list (nat * list bkind) := map (fun st => (o_id st, subscriptions st)) (bs_ops s).
