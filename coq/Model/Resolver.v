(* host_resolver.async_resolve_host and zeroconf.ZeroconfManager.
   ipaddress.ip_address, the mDNS lookup and the OS resolver are oracles: their answers are inputs of the model. *)
From Coq Require Import NArith String Ascii List Bool.
Import ListNotations.
Open Scope string_scope.
Open Scope list_scope.

(* ---- util.py string predicates ---- *)
Fixpoint has_char (c : ascii) (s : string) : bool :=
  match s with EmptyString => false | String a r => Ascii.eqb a c || has_char c r end.
Definition host_is_name_part (h : string) : bool := negb (has_char "." h) && negb (has_char ":" h).

Fixpoint rev_string (s : string) (acc : string) : string :=
  match s with EmptyString => acc | String a r => rev_string r (String a acc) end.
Definition remove_suffix_dot (h : string) : string :=     (* str.removesuffix(".") *)
  match rev_string h "" with String "." r => rev_string r "" | _ => h end.
Definition ends_with (suffix s : string) : bool := String.prefix (rev_string suffix "") (rev_string s "").
Definition address_is_local (h : string) : bool := ends_with ".local" (remove_suffix_dot h).
Fixpoint before_first_dot (s : string) : string :=       (* str.partition(".")[0] *)
  match s with EmptyString => EmptyString | String a r => if Ascii.eqb a "." then EmptyString else String a (before_first_dot r) end.

(* ---- resolution ---- *)
Definition addr := N.                                    (* an opaque resolved address *)
Inductive mdns_out := MdnsOk (v6 v4 : list addr) | MdnsErr.
Inductive os_out := OsOk (l : list addr) | OsErr.
Record host := mkHost { h_name : string; h_literal : option addr; h_mdns : mdns_out; h_os : os_out }.

Inductive call := CallMdns (name : string) | CallOs (h : string).
Inductive rerr := ErrOs | ErrMdns | ErrNoResults.        (* APIConnectionError(getaddrinfo) | the mDNS ResolveAPIError | ResolveAPIError *)

Definition is_local_name (h : host) : bool := host_is_name_part (h_name h) || address_is_local (h_name h).

(* one host: (addresses | OS error, mDNS error seen, calls made) *)
Definition resolve_one (h : host) : option (list addr) * bool * list call :=
  let local := is_local_name h in
  let '(a1, zerr, c1) :=
    if local then
      match h_mdns h with
      | MdnsOk v6 v4 => (v6 ++ v4, false, [CallMdns (before_first_dot (h_name h))])
      | MdnsErr => ([], true, [CallMdns (before_first_dot (h_name h))])
      end
    else (match h_literal h with Some a => [a] | None => [] end, false, []) in
  match a1 with
  | [] => match h_os h with
          | OsOk l => (Some l, zerr, c1 ++ [CallOs (h_name h)])
          | OsErr => (None, zerr, c1 ++ [CallOs (h_name h)])
          end
  | _ => (Some a1, zerr, c1)
  end.

Fixpoint resolve_loop (hs : list host) (acc : list addr) (zerr : bool) (calls : list call) : (list addr + rerr) * list call :=
  match hs with
  | [] => (match acc with
           | [] => inr (if zerr then ErrMdns else ErrNoResults)
           | _ => inl acc
           end, calls)
  | h :: r =>
    let '(res, z, c) := resolve_one h in
    match res with
    | None => (inr ErrOs, calls ++ c)            (* an OS resolver error aborts the whole call *)
    | Some l => resolve_loop r (acc ++ l) (zerr || z) (calls ++ c)
    end
  end.
Definition resolve (hs : list host) : (list addr + rerr) * list call := resolve_loop hs [] false [].

(* ---- ZeroconfManager ---- *)
Inductive origin := App | Lib.
Record zcm := mkZcm { z_created : bool; z_inst : option origin }.
Inductive zop :=
| ZSetInstance            (* the application hands over its instance *)
| ZGet                    (* get_async_zeroconf(): creates one if none (listener start) *)
| ZServiceInfo (ok : bool)  (* _async_zeroconf_get_service_info: lookup succeeds / fails *)
| ZGetNoSockets           (* get_async_zeroconf() on a host where AsyncZeroconf() cannot open its sockets (OSError) *)
| ZServiceInfoNoSockets   (* a lookup on such a host *)
| ZClose.                 (* async_close(): ReconnectLogic.stop() *)
Inductive zobs := ZCreated | ZClosed (o : origin) | ZRaise.

Definition z_get (s : zcm) : zcm * list zobs :=
  match z_inst s with Some _ => (s, []) | None => (mkZcm true (Some Lib), [ZCreated]) end.
Definition z_close (s : zcm) : zcm * list zobs :=
  match z_created s, z_inst s with
  | true, Some o => (mkZcm false None, [ZClosed o])
  | _, _ => (s, [])
  end.
Definition zstep (s : zcm) (o : zop) : zcm * list zobs :=
  match o with
  | ZSetInstance => match z_inst s with
                    | None => (mkZcm (z_created s) (Some App), [])
                    | Some App => (s, [])                 (* the same instance again *)
                    | Some Lib => (s, [ZRaise])           (* RuntimeError: already set to a different instance *)
                    end
  | ZGet => z_get s
  | ZServiceInfo _ =>
    let had := match z_inst s with Some _ => true | None => false end in
    let '(s1, o1) := z_get s in
    if had then (s1, o1) else let '(s2, o2) := z_close s1 in (s2, o1 ++ o2)
  (* the engine is created first and recorded as the library's own only afterwards (_create_async_zeroconf): a failed creation
     leaves the manager exactly as it was; with an engine already present nothing is created, so nothing fails *)
  | ZGetNoSockets => match z_inst s with Some _ => (s, []) | None => (s, [ZRaise]) end
  | ZServiceInfoNoSockets => match z_inst s with Some _ => (s, []) | None => (s, [ZRaise]) end
  | ZClose => z_close s
  end.
Fixpoint zrun (s : zcm) (ops : list zop) : zcm * list zobs :=
  match ops with [] => (s, []) | o :: r => let '(s1, e1) := zstep s o in let '(s2, e2) := zrun s1 r in (s2, e1 ++ e2) end.
