(* APIClient's bookkeeping of its connection (client.py: start_connection, finish_connection, _execute_connection_coro,
   _on_stop, disconnect, _get_connection) over a SEQUENCE of connection objects, each a Model/Conn.v machine.
   A client coroutine awaits the connection's coroutine in the same task, so the client's reaction to the end of a
   connection task happens in the very callback that ends it: it is derived from that callback's observations. *)
From Coq Require Import NArith ZArith List Bool String.
From RecordUpdate Require Import RecordSet.
From Verif Require Import Generated.GenRegistry Generated.GenConstants Model.Conn.
Import ListNotations RecordSetNotations.
Open Scope Z_scope.
Open Scope list_scope.

Record client := mkClient {
  cl_has : bool;                (* APIClient._connection is not None *)
  cl_conn : conn;               (* the most recently created connection object (meaningful once one was created) *)
  cl_sessions : nat;            (* how many connection objects were created so far *)
  cl_cfg : bool * bool * Z * list (nat * list action)  (* noise, expected name, keepalive, subscriber scripts *) }.
#[export] Instance eta_client : Settable _ := settable! mkClient <cl_has; cl_conn; cl_sessions; cl_cfg>.

Definition new_conn (k : client) (at_time : Z) : conn :=
  (* the clock and the fault state of the network belong to the environment and carry over *)
  let '(nz, ex, ka, scr) := cl_cfg k in (init nz ex ka scr) <| now := at_time |> <| write_fails := write_fails (cl_conn k) |>.

Definition client_init (nz ex : bool) (ka : Z) (scr : list (nat * list action)) : client :=
  mkClient false (init nz ex ka scr) 0 (nz, ex, ka, scr).

Inductive clabel :=
| CStart                          (* APIClient.start_connection() *)
| CFinish (lg : bool)             (* APIClient.finish_connection(login) *)
| CDisconnect (force : bool)      (* APIClient.disconnect(force) *)
| CCommand (tys : list N)         (* any command / subscription entry point: _get_connection() then send *)
| CRequest                        (* a request/response entry point (device_info): _get_connection() then send and wait *)
| CConn (l : label).              (* a callback of the current connection object / an environment event *)

Inductive cobs := CO (o : obs) | CRaiseAlready | CRaiseNotConnected | CRaiseNotReady.

(* what the client does when a callback of its connection produced these observations *)
Definition clears (o : list obs) : bool :=
  existsb (fun x => match x with
                    | OStop _ => true                                   (* _on_stop hook *)
                    | OTaskDone TStart (TRaise _) => true               (* _execute_connection_coro: except -> None *)
                    | OTaskDone TFinish (TRaise _) => true
                    | OTaskDone TDisc TOk => true                       (* disconnect() returned: drop a closed connection *)
                    | _ => false end) o.

Definition after (k : client) (c' : conn) (o : list obs) : client * list cobs :=
  (k <| cl_conn := c' |> <| cl_has := if clears o then false else cl_has k |>, map CO o).

Definition allowed_conn_label (l : label) : bool :=
  match l with
  | LStart | LFinish _ | LDisconnect | LForce | LCallStart _ _ _ _ _ | LSend _ => false   (* only through the client *)
  | _ => true
  end.

Definition cstep (k : client) (l : clabel) : option (client * list cobs) :=
  match l with
  | CStart =>
    if cl_has k then Some (k, [CRaiseAlready])
    else
      let c0 := new_conn k (now (cl_conn k)) in
      match step c0 LStart with
      | Some (c1, o) => Some (fst (after (k <| cl_has := true |> <| cl_sessions := S (cl_sessions k) |>) c1 o), map CO o)
      | None => None
      end
  | CFinish lg =>
    if cl_has k then
      match step (cl_conn k) (LFinish lg) with
      | Some (c1, o) =>
        (* the single-use guard raising inside finish_connection is an exception of the awaited coroutine: cleared *)
        let k1 := if existsb (fun x => match x with ORaise _ => true | _ => false end) o then k <| cl_has := false |> else k in
        Some (after k1 c1 o)
      | None => None
      end
    else None
  | CDisconnect force =>
    if cl_has k then
      if force then
        match step (cl_conn k) LForce with
        | Some (c1, o) => Some (fst (after k c1 o) <| cl_has := false |>, map CO o)
        | None => None
        end
      else
        match step (cl_conn k) LDisconnect with
        | Some (c1, o) => Some (after k c1 o)
        | None => None
        end
    else Some (k, [])
  | CCommand tys =>
    if cl_has k then
      if is_connected (cl_conn k) then
        match step (cl_conn k) (LSend tys) with
        | Some (c1, o) => Some (after k c1 o)
        | None => None
        end
      else Some (k, [CRaiseNotReady])
    else Some (k, [CRaiseNotConnected])
  | CRequest =>
    if cl_has k then
      if is_connected (cl_conn k) then
        match step (cl_conn k) (LCallStart [id_of "DeviceInfoRequest"] [id_of "DeviceInfoResponse"] PAny PAny (10 * UNITS_PER_SECOND)) with
        | Some (c1, o) => Some (after k c1 o)
        | None => None
        end
      else Some (k, [CRaiseNotReady])
    else Some (k, [CRaiseNotConnected])
  | CConn l' =>
    if allowed_conn_label l' then
      match step (cl_conn k) l' with
      | Some (c1, o) => Some (after k c1 o)
      | None => None
      end
    else None
  end.

Fixpoint crun (k : client) (ls : list clabel) : option (client * list (list cobs)) :=
  match ls with
  | [] => Some (k, [])
  | l :: r =>
    match cstep k l with
    | None => None
    | Some (k1, o) => match crun k1 r with Some (k2, os) => Some (k2, o :: os) | None => None end
    end
  end.
