(* Conversion of wire messages to model objects (model.py: APIIntEnum.convert / convert_list, APIModelBase.__post_init__,
   from_pb, to_dict, from_dict) over a small universe of values, driven by the translator-generated field tables. *)
From Coq Require Import NArith ZArith String List Bool.
From Verif Require Import Model.Schema.
Import ListNotations.
Open Scope string_scope.

Inductive ckind :=
| KNone | KEnum (e : string) | KEnumList (e : string) | KFloatFix | KListCopy | KNestedList (c : string).

(* ---- table checkers (C14 (1), (2)) ---- *)
Definition enum_mirror_ok (p : string * string * list (string * Z) * list (string * Z)) : bool :=
  let '(_, _, mv, wv) := p in
  nodupb Z.eqb (map snd mv) &&                                   (* no aliases *)
  forallb (fun x => memb sz_eqb x wv) mv && forallb (fun x => memb sz_eqb x mv) wv.   (* same (name, value) set *)

Definition class_mirror_ok (p : string * string * list (string * ckind) * list string) : bool :=
  let '(_, _, fs, wf) := p in
  nodupb String.eqb (map fst fs) &&
  forallb (fun n => memb String.eqb n wf) (map fst fs) && forallb (fun n => memb String.eqb n (map fst fs)) wf.

(* ---- values ---- *)
Inductive value :=
| VInt (z : Z) | VBool (b : bool) | VFloat (neg : bool) (m e : Z) | VSpecialFloat (code : N)   (* inf / nan: unchanged *)
| VStr (s : list N) | VNone | VList (l : list value) | VRec (fields : list (string * value)).

Section Conv.
  Variable members : string -> list Z.                    (* values of a model enum *)
  Variable ffix : bool -> Z -> Z -> bool * Z * Z.           (* fix_float_single_double_conversion on exact values *)

  Definition is_member (e : string) (v : value) : bool :=
    match v with VInt z => memb Z.eqb z (members e) | _ => false end.

  (* one converter: never fails *)
  Definition conv (k : ckind) (v : value) : value :=
    match k with
    | KNone | KListCopy | KNestedList _ => v
    | KEnum e => if is_member e v then v else VNone               (* unknown number (or None again) -> None *)
    | KEnumList e => match v with VList l => VList (filter (is_member e) l) | _ => v end
    | KFloatFix => match v with VFloat s m ex => let '(s', m', e') := ffix s m ex in VFloat s' m' e' | _ => v end
    end.

  Fixpoint lookup (n : string) (w : list (string * value)) : option value :=
    match w with [] => None | (k, v) :: r => if String.eqb k n then Some v else lookup n r end.

  (* from_pb: getattr for every model field (AttributeError = None), then __post_init__ applies the converters *)
  Fixpoint from_pb (fields : list (string * ckind)) (w : list (string * value)) : option (list (string * value)) :=
    match fields with
    | [] => Some []
    | (n, k) :: r =>
      match lookup n w, from_pb r w with
      | Some v, Some rest => Some ((n, conv k v) :: rest)
      | _, _ => None
      end
    end.

  (* to_dict is asdict: the same association list; from_dict constructs the class again (converters run again) *)
  Definition to_dict (m : list (string * value)) : list (string * value) := m.
  Definition from_dict (fields : list (string * ckind)) (d : list (string * value)) : option (list (string * value)) := from_pb fields d.
End Conv.
