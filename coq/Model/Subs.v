(* The subscriptions of client.py: what the user's handlers receive for a stream of device messages.
   on_state_msg and the camera reassembly of client_callbacks.py, the subscribe_* wrappers with their unsubscribe
   closures, and subscribe_voice_assistant with its start task.  Dispatch to the registered handlers is C12's. *)
From Coq Require Import NArith List Bool.
Import ListNotations.
Open Scope N_scope.

Inductive smsg :=
| MState (ty key vals : N)                          (* a state message of one of the state types, with its values *)
| MCamera (key : N) (data : list N) (done : bool)
| MLog (p : N)
| MServiceCall (p : N)
| MHaState (entity attr : N) (once : bool)
| MAdv (p : N)
| MRawAdv (p : N)
| MConnFree (free limit : N)
| MVaRequest (start : bool) (conv flags : N) (wake : N)     (* wake = 0: empty wake word phrase *)
| MVaAudio (data : N) (last : bool)
| MVaAnnounce (p : N)
| MOther (ty : N).

Inductive subkind :=
| SubStates | SubLogs | SubServiceCalls | SubHaStates (with_request : bool) | SubAdv | SubRawAdv | SubConnFree
| SubVa (audio announce : bool).

Inductive hresult := HPort (p : N) | HNone | HRaise.

Inductive wire :=
| WSubscribe (k : subkind)
| WUnsubAdv
| WVaUnsub
| WVaResponse (port : option N).                    (* None = error response *)

Inductive sobs :=
| CbState (ty key vals : N)
| CbCamera (key : N) (data : list N)
| CbLog (p : N) | CbServiceCall (p : N)
| CbHaSub (entity attr : N) | CbHaRequest (entity attr : N)
| CbAdv (p : N) | CbRawAdv (p : N) | CbConnFree (free limit : N)
| CbVaStart (task : nat) (conv flags : N) (wake : option N)
| CbVaStop (abort : bool) | CbVaAudio (data : N) | CbVaAnnounce (p : N)
| OWrite (w : wire)
| OCancelStart (task : nat).

(* ---- camera reassembly: the per-subscription dict key -> chunks ---- *)
Definition stream := list (N * list (list N)).
Fixpoint s_get (s : stream) (k : N) : option (list (list N)) :=
  match s with [] => None | (k', v) :: r => if k' =? k then Some v else s_get r k end.
Fixpoint s_del (s : stream) (k : N) : stream :=
  match s with [] => [] | (k', v) :: r => if k' =? k then s_del r k else (k', v) :: s_del r k end.
Definition s_set (s : stream) (k : N) (v : list (list N)) : stream := (k, v) :: s_del s k.

Definition camera_step (s : stream) (k : N) (data : list N) (done : bool) : stream * list sobs :=
  let parts := match s_get s k with Some (x :: r) => x :: r | _ => [] end in   (* "if not data_parts: data_parts = []" *)
  let parts' := parts ++ [data] in
  if done then (s_del s k, [CbCamera k (concat parts')]) else (s_set s k parts', []).

(* ---- one subscription ---- *)
Record sub := mkSub { s_id : nat; s_kind : subkind; s_live : bool; s_stream : stream;
                      s_next_task : nat; s_latest : option nat; s_running : list nat }.

Definition on_msg (st : sub) (m : smsg) : sub * list sobs :=
  if negb (s_live st) then (st, []) else
  match s_kind st, m with
  | SubStates, MState ty key vals => (st, [CbState ty key vals])
  | SubStates, MCamera k data done =>
      let '(s', o) := camera_step (s_stream st) k data done in
      (mkSub (s_id st) (s_kind st) true s' (s_next_task st) (s_latest st) (s_running st), o)
  | SubLogs, MLog p => (st, [CbLog p])
  | SubServiceCalls, MServiceCall p => (st, [CbServiceCall p])
  | SubHaStates wr, MHaState e a once => (st, [if wr && once then CbHaRequest e a else CbHaSub e a])
  | SubAdv, MAdv p => (st, [CbAdv p])
  | SubRawAdv, MRawAdv p => (st, [CbRawAdv p])
  | SubConnFree, MConnFree f l => (st, [CbConnFree f l])
  | SubVa _ _, MVaRequest true conv flags wake =>
      let t := s_next_task st in
      (mkSub (s_id st) (s_kind st) true (s_stream st) (S t) (Some t) (s_running st ++ [t]),
       [CbVaStart t conv flags (if wake =? 0 then None else Some wake)])
  | SubVa _ _, MVaRequest false _ _ _ => (st, [CbVaStop true])
  | SubVa true _, MVaAudio data last => (st, [if last then CbVaStop false else CbVaAudio data])
  | SubVa _ true, MVaAnnounce p => (st, [CbVaAnnounce p])
  | _, _ => (st, [])
  end.

Definition mem (t : nat) (l : list nat) : bool := existsb (Nat.eqb t) l.
Definition remove_task (t : nat) (l : list nat) : list nat := filter (fun x => negb (Nat.eqb x t)) l.

(* the unsubscribe function returned by the subscribe call (None = the call returns nothing to unsubscribe with) *)
Definition can_unsub (k : subkind) : bool :=
  match k with SubAdv | SubRawAdv | SubConnFree | SubVa _ _ => true | _ => false end.

Definition on_unsub (st : sub) : sub * list sobs :=
  let dead := mkSub (s_id st) (s_kind st) false (s_stream st) (s_next_task st) (s_latest st) in
  match s_kind st with
  | SubAdv | SubRawAdv => (dead (s_running st), [OWrite WUnsubAdv])          (* every call removes and writes *)
  | SubConnFree => (dead (s_running st), [])
  | SubVa _ _ =>
      match s_latest st with
      | Some t => if mem t (s_running st)
                  then (dead (remove_task t (s_running st)), [OWrite WVaUnsub; OCancelStart t])
                  else (dead (s_running st), [OWrite WVaUnsub])
      | None => (dead (s_running st), [OWrite WVaUnsub])
      end
  | _ => (st, [])
  end.

(* handle_start of task t returns / raises *)
Definition on_start_done (st : sub) (t : nat) (r : hresult) : sub * list sobs :=
  if mem t (s_running st) then
    (mkSub (s_id st) (s_kind st) (s_live st) (s_stream st) (s_next_task st) (s_latest st) (remove_task t (s_running st)),
     match r with HPort p => [OWrite (WVaResponse (Some p))] | HNone => [OWrite (WVaResponse None)] | HRaise => [] end)
  else (st, []).

Inductive sevent :=
| SSubscribe (id : nat) (k : subkind)
| SMsg (m : smsg)
| SUnsub (id : nat)
| SStartDone (id : nat) (task : nat) (r : hresult).

Definition new_sub (id : nat) (k : subkind) : sub := mkSub id k true [] 0 None [].

Definition sub_step (st : sub) (e : sevent) : sub * list sobs :=
  match e with
  | SMsg m => on_msg st m
  | SUnsub id => if Nat.eqb id (s_id st) then on_unsub st else (st, [])
  | SStartDone id t r => if Nat.eqb id (s_id st) then on_start_done st t r else (st, [])
  | SSubscribe _ _ => (st, [])
  end.

Fixpoint step_subs (subs : list sub) (e : sevent) : list sub * list (nat * sobs) :=
  match subs with
  | [] => ([], [])
  | st :: rest => let '(st', o) := sub_step st e in let '(rest', o') := step_subs rest e in
                  (st' :: rest', map (pair (s_id st)) o ++ o')
  end.

Definition sstep (subs : list sub) (e : sevent) : list sub * list (nat * sobs) :=
  match e with
  | SSubscribe id k => (subs ++ [new_sub id k], [(id, OWrite (WSubscribe k))])
  | _ => step_subs subs e
  end.

Fixpoint srun (subs : list sub) (es : list sevent) : list sub * list (nat * sobs) :=
  match es with
  | [] => (subs, [])
  | e :: rest => let '(s1, o1) := sstep subs e in let '(s2, o2) := srun s1 rest in (s2, o1 ++ o2)
  end.

(* ---- specification of the camera reassembly: per key, cut the chunk stream at the done flags ---- *)
Definition chunks_of (k : N) (ms : list smsg) : list (list N * bool) :=
  flat_map (fun m => match m with MCamera k' d dn => if k' =? k then [(d, dn)] else [] | _ => [] end) ms.
Fixpoint images (acc : list N) (cs : list (list N * bool)) : list (list N) :=
  match cs with
  | [] => []
  | (d, true) :: r => (acc ++ d) :: images [] r
  | (d, false) :: r => images (acc ++ d) r
  end.
