(* The connection state machine: mirrors aioesphomeapi/connection.py (after the fix: commits in
   /repo) as a labelled transition system.  One label = one event-loop callback (or one synchronous
   user call).  The scheduler is NOT modelled: every internal callback (task wake-up, interrupt
   done-callback, transport connection_lost, timer) is a label that is enabled by the state alone, so
   theorems quantify over all interleavings (a superset of what asyncio's FIFO queue allows), and the
   correspondence check replays the labels observed on the real event loop (trace validation). *)
From Coq Require Import NArith ZArith List Bool String.
From RecordUpdate Require Import RecordSet.
From Verif Require Import Generated.GenRegistry Generated.GenConstants.
Import ListNotations RecordSetNotations.
Open Scope Z_scope.
Open Scope list_scope.

(* ---------------------------------------------------------------- basic types *)
Inductive cstate := Init | SockOpen | HsDone | Connected | Closed.

Inductive lerr :=   (* classes of the APIConnectionError hierarchy that the model distinguishes *)
| LConn | LSocketClosed | LPingFailed | LProtocol | LRequiresEncryption | LHandshake | LInvalidKey
| LBadName | LInvalidAuth | LTimeout | LResolve | LSocket | LReadFailed | LNotEstablished
| LCancelled | LUnhandled.
Inductive rawk := ROSError | RReset | RAttribute | RIndex | ROther.
Inductive exc :=
| Lib (e : lerr)        (* a library connection error *)
| Raw (r : rawk)        (* any other exception object *)
| Interrupted           (* ConnectionInterruptedError *)
| CancelledErr          (* asyncio.CancelledError *)
| PyTimeout             (* asyncio.TimeoutError *)
| RuntimeErr.           (* RuntimeError of the single-use guards *)

Definition is_oserror (e : exc) : bool :=
  match e with Raw ROSError | Raw RReset | PyTimeout => true | _ => false end.

(* message ids come from the generated registry, by class name *)
Definition id_of (name : string) : N :=
  match find (fun p => String.eqb (snd p) name) registry with Some p => fst p | None => 0%N end.
Definition T_HELLO_REQ := id_of "HelloRequest".
Definition T_HELLO_RESP := id_of "HelloResponse".
Definition T_CONNECT_REQ := id_of "ConnectRequest".
Definition T_CONNECT_RESP := id_of "ConnectResponse".
Definition T_DISC_REQ := id_of "DisconnectRequest".
Definition T_DISC_RESP := id_of "DisconnectResponse".
Definition T_PING_REQ := id_of "PingRequest".
Definition T_PING_RESP := id_of "PingResponse".
Definition T_TIME_REQ := id_of "GetTimeRequest".
Definition T_TIME_RESP := id_of "GetTimeResponse".
Definition registered (ty : N) : bool := (N.leb 1 ty) && (N.leb ty (N.of_nat (List.length registry))).

(* an incoming message: only what some decision reads *)
Inductive name_kind := NameEmpty | NameExpected | NameOther.
Record msg := mkMsg {
  m_ty : N; m_valid : bool;       (* payload decodes *)
  m_tag : N;                      (* abstracts (address, handle, key, ...) for call predicates *)
  m_major : N; m_name : name_kind; m_invalid_password : bool }.

(* predicates of request/response calls, in closed form *)
Inductive pred := PAny | PTyIs (ty : N) | PTyNot (ty : N) | PTag (t : N).
Definition eval_pred (p : pred) (m : msg) : bool :=
  match p with
  | PAny => true
  | PTyIs ty => N.eqb (m_ty m) ty
  | PTyNot ty => negb (N.eqb (m_ty m) ty)
  | PTag t => N.eqb (m_tag m) t
  end.

Inductive cfut := CPending | CResult | CExc (e : exc) | CCancelled.
Definition cfut_done (f : cfut) : bool := match f with CPending => false | _ => true end.

Inductive tid := TStart | TFinish | TDisc | TCall (cid : nat).

Record call := mkCall {
  c_id : nat; c_types : list N; c_append : pred; c_stop : pred;
  c_responses : list msg; c_fut : cfut; c_timer : option Z; c_owner : tid; c_sent_at : Z; c_timeout : Z }.
#[export] Instance eta_call : Settable _ :=
  settable! mkCall <c_id; c_types; c_append; c_stop; c_responses; c_fut; c_timer; c_owner; c_sent_at; c_timeout>.

Inductive hid := HDisc | HPing | HTime | HCall (cid : nat) | HUser (u : nat).
Definition hid_eqb (a b : hid) : bool :=
  match a, b with
  | HDisc, HDisc | HPing, HPing | HTime, HTime => true
  | HCall x, HCall y => Nat.eqb x y
  | HUser x, HUser y => Nat.eqb x y
  | _, _ => false
  end.

(* what a user subscriber does when it is called (C12: re-entrant subscribe / unsubscribe) *)
Inductive action := ASub (ty : N) (u : nat) | AUnsub (ty : N) (u : nat).

Inductive tres := TOk | TRaise (e : exc).
Inductive tpc :=
| PNone                           (* not started *)
| PS_Resolve | PS_Tcp (groups : nat)   (* start_connection: awaiting resolve / a TCP attempt *)
| PF_Create | PF_Ready | PF_Hello (cid : nat)
| PD_Wait | PD_Resp (cid : nat)
| PC_Wait (cid : nat)
| PDone (r : tres).
Record task := mkTask {
  pc : tpc; must_cancel : bool; ncancel : nat;
  expiring : bool;       (* an asyncio.timeout() around the current await has fired *)
  interrupted : bool;    (* the interrupt() block's done-callback has cancelled the task *)
  user_cancelled : bool  (* ghost: the caller cancelled this very task *) }.
#[export] Instance eta_task : Settable _ :=
  settable! mkTask <pc; must_cancel; ncancel; expiring; interrupted; user_cancelled>.
Definition task0 : task := mkTask PNone false 0 false false false.

Inductive fstat := FNone | FPending | FDone.               (* start/finish connect futures *)
Inductive istat := INone | IArmed | IFired | IExited.                (* interrupt() block *)
Inductive efut := ENone | EPending | EOk | EErr (e : exc) | ECancelled.   (* third-party awaits *)
Inductive hstat := HNone | HOpen | HClosed.                 (* frame helper attribute / object *)
Inductive tstat := TNone | TOpen | TClosing (e : option exc) | TLost.   (* transport *)
Inductive rstat := RPending | ROk | RExc (e : exc) | RCancelled.          (* helper ready future *)

Inductive obs :=
| OWrite (tys : list N)                  (* one transport.write carrying these message types *)
| ODeliver (u : nat) (m : msg)           (* a user subscriber is called *)
| OStop (expected : bool)                (* the on_stop callback is called *)
| OHelperClose | OSocketClose | OTransportClose
| OTaskDone (t : tid) (r : tres)
| ORaise (e : exc).                      (* exception escaping a synchronous call / protocol callback *)

Record conn := mkConn {
  cs : cstate; is_connected : bool; handshake_complete : bool;
  fatal : option exc; expected_disconnect : bool; send_pending_ping : bool;
  ping_timer : option Z; pong_timer : option Z;
  start_fut : fstat; finish_fut : fstat;
  helper : hstat;            (* APIConnection._frame_helper *)
  helper_obj : hstat;        (* the protocol object created by create_connection (may not be assigned yet) *)
  socket : bool;             (* APIConnection._socket is set *)
  sock_obj : bool;           (* a socket returned by the connect await that is not assigned yet *)
  handlers : list (N * hid); waiters : list nat; on_stop_armed : bool;
  (* environment *)
  now : Z; keepalive : Z; expect_name : bool; transport : tstat; made : bool; ready : rstat; write_fails : bool; noise : bool;
  do_connect : efut; groups : nat; made_waiter : efut; login : bool;
  hs_timer : option Z; conn_timer : option Z; disc_timer : option Z; disc_wait_done : bool;
  calls : list call; next_cid : nat;
  t_start : task; t_finish : task; t_disc : task; call_tasks : list (nat * task);
  intr_start : istat; intr_finish : istat;
  scripts : list (nat * list action);
  (* ghost history *)
  ever_connected : bool; stop_calls : list bool; closed_at : option Z }.
#[export] Instance eta_conn : Settable _ :=
  settable! mkConn <cs; is_connected; handshake_complete; fatal; expected_disconnect; send_pending_ping;
    ping_timer; pong_timer; start_fut; finish_fut; helper; helper_obj; socket; sock_obj; handlers; waiters;
    on_stop_armed; now; keepalive; expect_name; transport; made; ready; write_fails; noise; do_connect; groups; made_waiter; login;
    hs_timer; conn_timer; disc_timer; disc_wait_done; calls; next_cid; t_start; t_finish; t_disc;
    call_tasks; intr_start; intr_finish; scripts; ever_connected; stop_calls; closed_at>.

Definition init (use_noise expect : bool) (ka : Z) (scr : list (nat * list action)) : conn :=
  mkConn Init false false None false false None None FNone FNone HNone HNone false false [] [] true
         0 ka expect TNone false RPending false use_noise ENone 1%nat ENone false None None None false [] 0
         task0 task0 task0 [] INone INone scr false [] None.

(* ---------------------------------------------------------------- helpers on the state *)
Definition set_state (c : conn) (s : cstate) : conn :=
  c <| cs := s |>
    <| is_connected := match s with Connected => true | _ => false end |>
    <| handshake_complete := match s with HsDone | Connected => true | _ => false end |>.

Definition get_call (c : conn) (cid : nat) : option call := find (fun k => Nat.eqb (c_id k) cid) (calls c).
Definition upd_call (c : conn) (cid : nat) (f : call -> call) : conn :=
  c <| calls := map (fun k => if Nat.eqb (c_id k) cid then f k else k) (calls c) |>.

Definition get_task (c : conn) (t : tid) : task :=
  match t with
  | TStart => t_start c | TFinish => t_finish c | TDisc => t_disc c
  | TCall cid => match find (fun p => Nat.eqb (fst p) cid) (call_tasks c) with Some p => snd p | None => task0 end
  end.
Definition set_task (c : conn) (t : tid) (k : task) : conn :=
  match t with
  | TStart => c <| t_start := k |> | TFinish => c <| t_finish := k |> | TDisc => c <| t_disc := k |>
  | TCall cid => c <| call_tasks := map (fun p => if Nat.eqb (fst p) cid then (cid, k) else p) (call_tasks c) |>
  end.

(* error handed to the waiters of a closing connection (the loop in _cleanup) *)
Definition waiter_exc (f : option exc) : exc :=
  match f with
  | None => Lib LConn
  | Some (Lib e) => Lib e
  | Some _ => Lib LReadFailed
  end.

Definition fail_waiter (e : exc) (k : call) : call :=
  match c_fut k with CPending => k <| c_fut := CExc e |> | _ => k end.

(* _set_start_connect_future / _set_finish_connect_future *)
Definition set_start_future (c : conn) : conn :=
  match start_fut c with FPending => c <| start_fut := FDone |> | _ => c end.
Definition set_finish_future (c : conn) : conn :=
  match finish_fut c with FPending => c <| finish_fut := FDone |> | _ => c end.

(* frame helper close(): ready future gets an error if pending (noise), transport.close() *)
Definition helper_close (c : conn) : conn * list obs :=
  let c1 := match ready c with RPending => if noise c then c <| ready := RExc (Lib LConn) |> else c | _ => c end in
  match transport c1 with
  | TOpen => (c1 <| transport := TClosing None |>, [OHelperClose; OTransportClose])
  | _ => (c1, [OHelperClose])
  end.

(* _release_resources *)
Definition release_resources (c : conn) : conn * list obs :=
  let '(c1, o1) := match helper c with
                   | HNone => (c, [])
                   | _ => let '(c', o) := helper_close c in (c' <| helper := HNone |> <| helper_obj := HClosed |>, o)
                   end in
  let '(c2, o2) := if socket c1 then (c1 <| socket := false |>, [OSocketClose]) else (c1, []) in
  (c2 <| pong_timer := None |> <| ping_timer := None |>, o1 ++ o2).

(* _cleanup *)
Definition cleanup (c : conn) : conn * list obs :=
  match cs c with
  | Closed => release_resources c
  | _ =>
    let was_connected := is_connected c in
    let c1 := set_state c Closed <| closed_at := Some (now c) |> in
    let e := waiter_exc (fatal c1) in
    let c2 := c1 <| calls := map (fun k => if existsb (Nat.eqb (c_id k)) (waiters c1) then fail_waiter e k else k) (calls c1) |>
                 <| waiters := [] |> in
    let c3 := set_finish_future (set_start_future c2) in
    let '(c4, o) := release_resources c3 in
    if on_stop_armed c4 && was_connected then
      (c4 <| on_stop_armed := false |> <| stop_calls := stop_calls c4 ++ [expected_disconnect c4] |>,
       o ++ [OStop (expected_disconnect c4)])
    else (c4, o)
  end.

(* report_fatal_error *)
Definition report_fatal (c : conn) (e : exc) : conn * list obs :=
  let c1 := match fatal c with None => c <| fatal := Some e |> | Some _ => c end in
  cleanup c1.

(* send_messages: gate, one write, write failures *)
Definition send_messages (c : conn) (tys : list N) : conn * list obs * option exc :=
  if negb (handshake_complete c) then (c, [], Some (Lib LNotEstablished))
  else if write_fails c then
    let '(c1, o) := report_fatal c (Lib LSocketClosed) in (c1, o, Some (Lib LSocketClosed))
  else match transport c with
       | TOpen => (c, [OWrite tys], None)
       | _ => (c, [], None)           (* a closing transport drops the write *)
       end.

(* handle_complex_message *)
Definition handle_call_message (c : conn) (cid : nat) (m : msg) : conn :=
  match get_call c cid with
  | Some k =>
    match c_fut k with
    | CPending =>
      let k1 := if eval_pred (c_append k) m then k <| c_responses := c_responses k ++ [m] |> else k in
      let k2 := if eval_pred (c_stop k) m then k1 <| c_fut := CResult |> else k1 in
      upd_call c cid (fun _ => k2)
    | _ => c
    end
  | None => c
  end.

Definition add_handler (c : conn) (ty : N) (h : hid) : conn :=
  if existsb (fun p => N.eqb (fst p) ty && hid_eqb (snd p) h) (handlers c) then c
  else c <| handlers := handlers c ++ [(ty, h)] |>.
Definition remove_handler (c : conn) (ty : N) (h : hid) : conn :=
  c <| handlers := filter (fun p => negb (N.eqb (fst p) ty && hid_eqb (snd p) h)) (handlers c) |>.

Definition run_action (c : conn) (a : action) : conn :=
  match a with
  | ASub ty u => add_handler c ty (HUser u)
  | AUnsub ty u => remove_handler c ty (HUser u)
  end.
Definition script_of (c : conn) (u : nat) : list action :=
  match find (fun p => Nat.eqb (fst p) u) (scripts c) with Some p => snd p | None => [] end.

(* one handler invocation; an exception aborts the dispatch loop *)
Definition call_handler (c : conn) (h : hid) (m : msg) : conn * list obs * option exc :=
  match h with
  | HDisc =>
    let c1 := c <| expected_disconnect := true |> in
    let '(c2, o, ex) := send_messages c1 [T_DISC_RESP] in
    match ex with
    | Some e => (c2, o, Some e)
    | None => let '(c3, o3) := cleanup c2 in (c3, o ++ o3, None)
    end
  | HPing => send_messages c [T_PING_RESP]
  | HTime => send_messages c [T_TIME_RESP]
  | HCall cid => (handle_call_message c cid m, [], None)
  | HUser u => (fold_left run_action (script_of c u) c, [ODeliver u m], None)
  end.

Fixpoint run_handlers (c : conn) (hs : list hid) (m : msg) : conn * list obs * option exc :=
  match hs with
  | [] => (c, [], None)
  | h :: r =>
    let '(c1, o1, ex) := call_handler c h m in
    match ex with
    | Some e => (c1, o1, Some e)
    | None => let '(c2, o2, ex2) := run_handlers c1 r m in (c2, o1 ++ o2, ex2)
    end
  end.

(* process_packet *)
Definition process_packet (c : conn) (m : msg) : conn * list obs * option exc :=
  match cs c with
  | Closed => (c, [], None)
  | _ =>
    if negb (registered (m_ty m)) then (c, [], None)
    else if negb (m_valid m) then
      let '(c1, o) := report_fatal c (Lib LProtocol) in (c1, o, Some (Raw ROther))
    else
      let c1 := c <| pong_timer := None |> <| send_pending_ping := false |> in
      let hs := map snd (filter (fun p => N.eqb (fst p) (m_ty m)) (handlers c1)) in
      run_handlers c1 hs m
  end.

(* ---------------------------------------------------------------- frame helper (plaintext, abstract) *)
Inductive ditem :=
| DFrame (m : msg)
| DBadPreamble (requires_encryption : bool).   (* the helper reports an error and closes *)

(* helper._handle_error: ready future exception if pending, then report_fatal_error *)
Definition helper_error (c : conn) (e : exc) : conn * list obs :=
  let c1 := match ready c with RPending => c <| ready := RExc e |> | _ => c end in
  report_fatal c1 e.

Fixpoint data_loop (c : conn) (items : list ditem) : conn * list obs * option exc :=
  match items with
  | [] => (c, [], None)
  | DFrame m :: r =>
    let '(c1, o1, ex) := process_packet c m in
    match ex with
    | Some e => (c1, o1, Some e)
    | None => let '(c2, o2, ex2) := data_loop c1 r in (c2, o1 ++ o2, ex2)
    end
  | DBadPreamble req :: _ =>
    let '(c1, o1) := helper_error c (Lib (if req then LRequiresEncryption else LProtocol)) in
    (* _handle_error_and_close: close() after the report; the helper is already closed by _cleanup *)
    (c1, o1, None)
  end.

(* ---------------------------------------------------------------- tasks *)
Definition cancel_efut (f : efut) : efut * bool := match f with EPending => (ECancelled, true) | _ => (f, false) end.

(* what the task is currently awaiting is still pending -> cancelling it delivers CancelledError *)
Definition cancel_awaited (c : conn) (t : tid) (k : task) : conn * bool :=
  match pc k with
  | PS_Resolve | PS_Tcp _ => let '(f, b) := cancel_efut (do_connect c) in (c <| do_connect := f |>, b)
  | PF_Create => let '(f, b) := cancel_efut (made_waiter c) in (c <| made_waiter := f |>, b)
  | PF_Ready => match ready c with RPending => (c <| ready := RCancelled |>, true) | _ => (c, false) end
  | PF_Hello cid | PD_Resp cid | PC_Wait cid =>
    match get_call c cid with
    | Some kk => match c_fut kk with
                 | CPending => (upd_call c cid (fun x => x <| c_fut := CCancelled |>), true)
                 | _ => (c, false) end
    | None => (c, false)
    end
  | PD_Wait => if disc_wait_done c then (c, false) else (c <| disc_wait_done := true |>, true)
  | _ => (c, false)
  end.

(* Task.cancel() *)
Definition task_running (k : task) : bool := match pc k with PNone | PDone _ => false | _ => true end.
Definition cancel_task (c : conn) (t : tid) : conn :=
  let k := get_task c t in
  if negb (task_running k) then c else
  let k1 := k <| ncancel := S (ncancel k) |> in
  let '(c1, delivered) := cancel_awaited c t k1 in
  if delivered then set_task c1 t (k1 <| must_cancel := match pc k with PD_Wait => true | _ => must_cancel k1 end |>)
  else set_task c1 t (k1 <| must_cancel := true |>).

(* _wrap_fatal_connection_exception *)
Definition wrap_fatal (c : conn) (e : exc) : exc :=
  match e with
  | Lib x => Lib x
  | _ =>
    match fatal c with
    | Some (Lib f) => Lib f
    | _ => match e with
           | CancelledErr => Lib LCancelled
           | _ => if is_oserror e then Lib LSocket else Lib LUnhandled
           end
    end
  end.

Definition finish_task (c : conn) (t : tid) (r : tres) : conn * list obs :=
  (set_task c t ((get_task c t) <| pc := PDone r |>), [OTaskDone t r]).

(* ---------------------------------------------------------------- keep alive *)
Definition keep_alive_timeout (c : conn) : Z := keepalive c * KEEP_ALIVE_RATIO_NUM / KEEP_ALIVE_RATIO_DEN.
Definition schedule_keep_alive (c : conn) : conn :=
  c <| send_pending_ping := true |> <| ping_timer := Some (now c + keepalive c) |>.

(* ---------------------------------------------------------------- request/response calls *)
(* send_messages_await_response_complex up to its await: send, future, handlers, waiter, timer *)
Definition call_begin (c : conn) (owner : tid) (send : list N) (types : list N) (ap st : pred) (timeout : Z)
  : conn * list obs * option exc * nat :=
  let '(c1, o, ex) := send_messages c send in
  match ex with
  | Some e => (c1, o, Some e, 0%nat)
  | None =>
    let cid := next_cid c1 in
    let k := mkCall cid types ap st [] CPending (Some (now c1 + timeout)) owner (now c1) timeout in
    let c2 := c1 <| calls := calls c1 ++ [k] |> <| next_cid := S cid |> <| waiters := waiters c1 ++ [cid] |> in
    let c3 := fold_left (fun a ty => add_handler a ty (HCall cid)) types c2 in
    (c3, o, None, cid)
  end.

(* the finally block *)
Definition call_finally (c : conn) (cid : nat) : conn :=
  match get_call c cid with
  | Some k =>
    let c1 := upd_call c cid (fun x => x <| c_timer := None |>) in
    let c2 := fold_left (fun a ty => remove_handler a ty (HCall cid)) (c_types k) c1 in
    c2 <| waiters := filter (fun w => negb (Nat.eqb w cid)) (waiters c2) |>
  | None => c
  end.

(* what the awaiting task receives *)
Inductive delivered := DOk | DExc (e : exc).
Definition deliver_cfut (f : cfut) : delivered :=
  match f with
  | CResult => DOk
  | CExc PyTimeout => DExc (Lib LTimeout)      (* except asyncio_TimeoutError -> TimeoutAPIError *)
  | CExc e => DExc e
  | CCancelled => DExc CancelledErr
  | CPending => DExc CancelledErr               (* not reachable: wake-ups are guarded *)
  end.

(* ---------------------------------------------------------------- task resumption plumbing *)
(* take the must_cancel flag: a pending cancel wins over whatever the awaited future holds *)
Definition take_cancel (c : conn) (t : tid) : conn * bool :=
  let k := get_task c t in
  if must_cancel k then (set_task c t (k <| must_cancel := false |>), true) else (c, false).

(* asyncio.timeout().__aexit__ : CancelledError -> TimeoutError iff it expired and no other cancel is pending *)
Definition timeout_exit (c : conn) (t : tid) (e : exc) : conn * exc :=
  let k := get_task c t in
  if expiring k then
    let n := Nat.pred (ncancel k) in
    let c1 := set_task c t (k <| expiring := false |> <| ncancel := n |>) in
    match e with
    | CancelledErr => if Nat.eqb n 0 then (c1, PyTimeout) else (c1, e)
    | _ => (c1, e)
    end
  else (c, e).

(* interrupt().__aexit__ : CancelledError -> ConnectionInterruptedError iff interrupted and no other cancel pending *)
Definition interrupt_exit (c : conn) (t : tid) (e : exc) : conn * exc :=
  let k := get_task c t in
  if interrupted k then
    match e with
    | CancelledErr =>
      let n := Nat.pred (ncancel k) in
      let c1 := set_task c t (k <| ncancel := n |>) in
      if Nat.eqb n 0 then (c1, Interrupted) else (c1, e)
    | _ => (c, e)
    end
  else (c, e).

(* ---------------------------------------------------------------- start_connection *)
Definition start_fail (c : conn) (e : exc) : conn * list obs :=
  let '(c0, e1) := interrupt_exit c TStart e in
  let c1 := c0 <| intr_start := IExited |> <| conn_timer := None |> in
  let '(c2, o) := cleanup c1 in
  let r := TRaise (wrap_fatal c2 e1) in
  let c3 := set_start_future c2 in
  let '(c4, o2) := finish_task c3 TStart r in (c4, o ++ o2).

Definition start_tcp_attempt (c : conn) (groups : nat) : conn :=
  set_task (c <| do_connect := EPending |> <| conn_timer := Some (now c + TCP_CONNECT_TIMEOUT) |>)
           TStart ((get_task c TStart) <| pc := PS_Tcp groups |>).

Definition start_success (c : conn) : conn * list obs :=
  (* self._socket = sock; leave the interrupt block; finally; closed check; SOCKET_OPENED *)
  let c1 := c <| socket := true |> <| sock_obj := false |> <| intr_start := IExited |> <| conn_timer := None |> in
  let c2 := set_start_future c1 in
  match cs c2 with
  | Closed =>
    let '(c3, o) := cleanup c2 in
    let '(c4, o2) := finish_task c3 TStart (TRaise (wrap_fatal c3 Interrupted)) in (c4, o ++ o2)
  | _ => finish_task (set_state c2 SockOpen) TStart TOk
  end.

Definition wake_start (c : conn) : option (conn * list obs) :=
  let k := get_task c TStart in
  match pc k with
  | PS_Resolve =>
    if must_cancel k || negb (match do_connect c with EPending => true | _ => false end) then
      let '(c1, mc) := take_cancel c TStart in
      let d := if mc then DExc CancelledErr else
               match do_connect c1 with EOk => DOk | EErr e => DExc e | _ => DExc CancelledErr end in
      match d with
      | DOk => Some (start_tcp_attempt (c1 <| conn_timer := None |>) (groups c1), [])
      | DExc e =>
        let '(c2, e1) := timeout_exit (c1 <| conn_timer := None |>) TStart e in
        let e2 := match e1 with PyTimeout => Lib LResolve | x => x end in
        Some (start_fail c2 e2)
      end
    else None
  | PS_Tcp g =>
    if must_cancel k || negb (match do_connect c with EPending => true | _ => false end) then
      let '(c1, mc) := take_cancel c TStart in
      let d := if mc then DExc CancelledErr else
               match do_connect c1 with EOk => DOk | EErr e => DExc e | _ => DExc CancelledErr end in
      match d with
      | DOk => Some (start_success (c1 <| sock_obj := true |>))
      | DExc e =>
        let '(c2, e1) := timeout_exit (c1 <| conn_timer := None |>) TStart e in
        if is_oserror e1 then
          match g with
          | S (S g') => Some (start_tcp_attempt c2 (S g'), [])
          | _ => Some (start_fail c2 (match e1 with PyTimeout => Lib LTimeout | _ => Lib LSocket end))
          end
        else Some (start_fail c2 e1)
      end
    else None
  | _ => None
  end.

(* ---------------------------------------------------------------- finish_connection *)
Definition finish_fail (c : conn) (e : exc) : conn * list obs :=
  let '(c0, e1) := interrupt_exit c TFinish e in
  let c1 := c0 <| intr_finish := IExited |> <| hs_timer := None |> in
  let '(c2, o) := cleanup c1 in
  let r := TRaise (wrap_fatal c2 e1) in
  let c3 := set_finish_future c2 in
  let '(c4, o2) := finish_task c3 TFinish r in (c4, o ++ o2).

Definition internal_handlers (c : conn) : conn :=
  add_handler (add_handler (add_handler c T_DISC_REQ HDisc) T_PING_REQ HPing) T_TIME_REQ HTime.

(* after ready_future resolved successfully: closed check, HANDSHAKE_COMPLETE, hello/login request *)
Definition finish_after_ready (c : conn) : conn * list obs :=
  let c0 := c <| hs_timer := None |> in
  match cs c0 with
  | Closed => finish_fail c0 Interrupted
  | _ =>
    (* the task will next wait for the hello/login call (its id is the next free one) *)
    let c0' := set_task c0 TFinish ((get_task c0 TFinish) <| pc := PF_Hello (next_cid c0) |>) in
    let c1 := internal_handlers (set_state c0' HsDone) in
    let send := if login c1 then [T_HELLO_REQ; T_CONNECT_REQ] else [T_HELLO_REQ] in
    let types := if login c1 then [T_HELLO_RESP; T_CONNECT_RESP] else [T_HELLO_RESP] in
    let last := if login c1 then T_CONNECT_RESP else T_HELLO_RESP in
    let '(c2, o, ex, cid) := call_begin c1 TFinish send types PAny (PTyIs last) CONNECT_REQUEST_TIMEOUT in
    match ex with
    | Some e => let '(c3, o3) := finish_fail c2 e in (c3, o ++ o3)
    | None => (c2, o)
    end
  end.

(* _process_hello_resp / _process_login_response on the collected responses *)
Definition check_hello_login (c : conn) (rs : list msg) : option exc :=
  match rs with
  | [] => Some (Raw RIndex)
  | h :: r =>
    if negb (N.eqb (m_ty h) T_HELLO_RESP) then Some (Raw RAttribute)
    else if Z.ltb MAX_SUPPORTED_MAJOR (Z.of_N (m_major h)) then Some (Lib LConn)
    else if (match m_name h with NameOther => expect_name c | _ => false end) then Some (Lib LBadName)
    else if login c then
      match r with
      | [] => Some (Raw RIndex)
      | l :: _ =>
        if negb (N.eqb (m_ty l) T_CONNECT_RESP) then Some (Raw RAttribute)
        else if m_invalid_password l then Some (Lib LInvalidAuth) else None
      end
    else None
  end.

Definition finish_success (c : conn) : conn * list obs :=
  let c1 := c <| intr_finish := IExited |> in
  let c2 := set_finish_future c1 in
  match cs c2 with
  | Closed =>
    let '(c3, o) := cleanup c2 in
    let '(c4, o2) := finish_task c3 TFinish (TRaise (wrap_fatal c3 Interrupted)) in (c4, o ++ o2)
  | _ => finish_task (schedule_keep_alive (set_state c2 Connected <| ever_connected := true |>)) TFinish TOk
  end.

Definition wake_finish (c : conn) : option (conn * list obs) :=
  let k := get_task c TFinish in
  match pc k with
  | PF_Create =>
    if must_cancel k || negb (match made_waiter c with EPending => true | _ => false end) then
      let '(c1, mc) := take_cancel c TFinish in
      let d := if mc then DExc CancelledErr else
               match made_waiter c1 with EOk => DOk | EErr e => DExc e | _ => DExc CancelledErr end in
      match d with
      | DOk =>
        (* self._frame_helper = fh; arm the handshake timer; await ready_future *)
        let c2 := c1 <| helper := helper_obj c1 |> <| hs_timer := Some (now c1 + HANDSHAKE_TIMEOUT) |> in
        match ready c2 with
        | RPending => Some (set_task c2 TFinish ((get_task c2 TFinish) <| pc := PF_Ready |>), [])
        | ROk => Some (finish_after_ready c2)
        | RExc e =>
          Some (finish_fail c2 (match e with PyTimeout => Lib LTimeout | _ => if is_oserror e then Lib LHandshake else e end))
        | RCancelled => Some (finish_fail c2 CancelledErr)
        end
      | DExc e =>
        (* create_connection's own except: transport.close() *)
        let c2 := match transport c1 with TOpen => c1 <| transport := TClosing None |> | _ => c1 end in
        let '(c3, o) := finish_fail c2 e in
        Some (c3, (match transport c1 with TOpen => [OTransportClose] | _ => [] end) ++ o)
      end
    else None
  | PF_Ready =>
    if must_cancel k || negb (match ready c with RPending => true | _ => false end) then
      let '(c1, mc) := take_cancel c TFinish in
      if mc then Some (finish_fail c1 CancelledErr) else
      match ready c1 with
      | ROk => Some (finish_after_ready c1)
      | RExc e => Some (finish_fail c1 (match e with PyTimeout => Lib LTimeout | _ => if is_oserror e then Lib LHandshake else e end))
      | _ => Some (finish_fail c1 CancelledErr)
      end
    else None
  | PF_Hello cid =>
    match get_call c cid with
    | Some kk =>
      if must_cancel k || cfut_done (c_fut kk) then
        let '(c1, mc) := take_cancel c TFinish in
        let d := if mc then DExc CancelledErr else deliver_cfut (c_fut kk) in
        let c2 := call_finally c1 cid in
        match d with
        | DOk =>
          match check_hello_login c2 (c_responses kk) with
          | Some e => Some (finish_fail c2 e)
          | None => Some (finish_success c2)
          end
        | DExc e => Some (finish_fail c2 e)
        end
      else None
    | None => None
    end
  | _ => None
  end.

(* ---------------------------------------------------------------- disconnect() *)
Definition disconnect_after_wait (c : conn) : conn * list obs :=
  let c1 := c <| expected_disconnect := true |> in
  if handshake_complete c1 then
    let '(c2, o, ex, cid) := call_begin c1 TDisc [T_DISC_REQ] [T_DISC_RESP] PAny PAny DISCONNECT_RESPONSE_TIMEOUT in
    match ex with
    | Some (Lib _) =>      (* except APIConnectionError: logged *)
      let '(c3, o3) := cleanup c2 in
      let '(c4, o4) := finish_task c3 TDisc TOk in (c4, o ++ o3 ++ o4)
    | Some e => let '(c3, o3) := finish_task c2 TDisc (TRaise e) in (c3, o ++ o3)
    | None => (set_task c2 TDisc ((get_task c2 TDisc) <| pc := PD_Resp cid |>), o)
    end
  else
    let '(c2, o) := cleanup c1 in
    let '(c3, o3) := finish_task c2 TDisc TOk in (c3, o ++ o3).

Definition wake_disc (c : conn) : option (conn * list obs) :=
  let k := get_task c TDisc in
  match pc k with
  | PD_Wait =>
    if must_cancel k || disc_wait_done c then
      let '(c1, mc) := take_cancel c TDisc in
      let c2 := c1 <| disc_timer := None |> in
      if mc then Some (finish_task c2 TDisc (TRaise CancelledErr)) else
      let c3 := match finish_fut c2 with
                | FPending => match fatal c2 with None => c2 <| fatal := Some (Lib LTimeout) |> | _ => c2 end
                | _ => c2 end in
      Some (disconnect_after_wait c3)
    else None
  | PD_Resp cid =>
    match get_call c cid with
    | Some kk =>
      if must_cancel k || cfut_done (c_fut kk) then
        let '(c1, mc) := take_cancel c TDisc in
        let d := if mc then DExc CancelledErr else deliver_cfut (c_fut kk) in
        let c2 := call_finally c1 cid in
        match d with
        | DOk | DExc (Lib _) =>
          let '(c3, o) := cleanup c2 in
          let '(c4, o2) := finish_task c3 TDisc TOk in Some (c4, o ++ o2)
        | DExc e => Some (finish_task c2 TDisc (TRaise e))
        end
      else None
    | None => None
    end
  | _ => None
  end.

(* ---------------------------------------------------------------- generic request/response task *)
Definition wake_call (c : conn) (cid : nat) : option (conn * list obs) :=
  let k := get_task c (TCall cid) in
  match pc k, get_call c cid with
  | PC_Wait _, Some kk =>
    if must_cancel k || cfut_done (c_fut kk) then
      let '(c1, mc) := take_cancel c (TCall cid) in
      let d := if mc then DExc CancelledErr else deliver_cfut (c_fut kk) in
      let c2 := call_finally c1 cid in
      Some (finish_task c2 (TCall cid) (match d with DOk => TOk | DExc e => TRaise e end))
    else None
  | _, _ => None
  end.

(* ---------------------------------------------------------------- labels *)
Inductive timer_kind := TkPing | TkPong | TkHandshake | TkConnect | TkCall (cid : nat) | TkDiscWait.

Inductive label :=
| LStart | LFinish (lg : bool) | LDisconnect | LForce
| LCallStart (send types : list N) (ap st : pred) (timeout : Z)
| LSend (tys : list N) | LCancel (t : tid)
| LSub (ty : N) (u : nat) | LUnsub (ty : N) (u : nat)
| LResolveDone (r : option exc) (g : nat) | LTcpDone (r : option exc)
| LMade | LMadeWaiter | LHelperReady (r : option exc)
| LData (items : list ditem) | LEof | LLost (e : option exc)
| LWriteFails (b : bool) | LAdvance (t : Z)
| LWake (t : tid) | LIntr (is_start : bool) | LDiscWaitDone | LConnLostCb | LTimer (k : timer_kind).

Definition due (t : option Z) (c : conn) : bool := match t with Some d => Z.leb d (now c) | None => false end.

Definition armed_deadlines (c : conn) : list Z :=
  let o x := match x with Some d => [d] | None => [] end in
  o (ping_timer c) ++ o (pong_timer c) ++ o (hs_timer c) ++ o (conn_timer c) ++ o (disc_timer c) ++
  flat_map (fun k => o (c_timer k)) (calls c).

Definition step (c : conn) (l : label) : option (conn * list obs) :=
  match l with
  | LStart =>
    match cs c with
    | Init =>
      match pc (t_start c) with
      | PNone =>
        Some (c <| start_fut := FPending |> <| intr_start := IArmed |> <| do_connect := EPending |>
                <| conn_timer := Some (now c + RESOLVE_TIMEOUT) |>
                <| t_start := (t_start c) <| pc := PS_Resolve |> |>, [])
      | _ => None
      end
    | _ => Some (c, [ORaise RuntimeErr])
    end
  | LFinish lg =>
    match cs c with
    | SockOpen =>
      match pc (t_finish c) with
      | PNone =>
        Some (c <| finish_fut := FPending |> <| intr_finish := IArmed |> <| login := lg |>
                <| helper_obj := HOpen |> <| transport := TOpen |> <| made_waiter := EPending |>
                <| t_finish := (t_finish c) <| pc := PF_Create |> |>, [])
      | _ => None
      end
    | _ => Some (c, [ORaise RuntimeErr])
    end
  | LDisconnect =>
    match pc (t_disc c) with
    | PNone =>
      match finish_fut c with
      | FPending =>
        Some (c <| disc_timer := Some (now c + DISCONNECT_CONNECT_TIMEOUT) |> <| disc_wait_done := false |>
                <| t_disc := (t_disc c) <| pc := PD_Wait |> |>, [])
      | _ => Some (disconnect_after_wait (c <| t_disc := (t_disc c) <| pc := PD_Wait |> |>))
      end
    | _ => None
    end
  | LForce =>
    let c1 := c <| expected_disconnect := true |> in
    let '(c2, o, ex) := if handshake_complete c1 then send_messages c1 [T_DISC_REQ] else (c1, [], None) in
    match ex with
    | Some (Lib _) | None => let '(c3, o3) := cleanup c2 in Some (c3, o ++ o3)
    | Some e => Some (c2, o ++ [ORaise e])
    end
  | LCallStart send types ap st timeout =>
    let cid := next_cid c in
    let c0 := c <| call_tasks := call_tasks c ++ [(cid, task0 <| pc := PC_Wait cid |>)] |> in
    let '(c1, o, ex, cid') := call_begin c0 (TCall cid) send types ap st timeout in
    match ex with
    | Some e =>
      let c2 := c1 <| next_cid := S cid |> in
      let '(c3, o3) := finish_task c2 (TCall cid) (TRaise e) in Some (c3, o ++ o3)
    | None => Some (c1, o)
    end
  | LSend tys =>
    let '(c1, o, ex) := send_messages c tys in
    Some (c1, o ++ match ex with Some e => [ORaise e] | None => [] end)
  | LCancel t =>
    let k := get_task c t in
    if task_running k then Some (cancel_task (set_task c t (k <| user_cancelled := true |>)) t, []) else Some (c, [])
  | LSub ty u => Some (add_handler c ty (HUser u), [])
  | LUnsub ty u => Some (remove_handler c ty (HUser u), [])
  | LResolveDone r g =>
    match pc (t_start c), do_connect c with
    | PS_Resolve, EPending => Some (c <| do_connect := match r with None => EOk | Some e => EErr e end |> <| groups := g |>, [])
    | _, _ => None
    end
  | LTcpDone r =>
    match pc (t_start c), do_connect c with
    | PS_Tcp _, EPending => Some (c <| do_connect := match r with None => EOk | Some e => EErr e end |>, [])
    | _, _ => None
    end
  | LMade =>
    match transport c, made c with
    | TOpen, false =>
      if noise c then Some (c <| made := true |>, [OWrite []])
      else Some (c <| made := true |> <| ready := ROk |>, [])
    | _, _ => None
    end
  | LMadeWaiter =>
    match made_waiter c with
    | EPending => Some (c <| made_waiter := EOk |>, [])
    | ECancelled => Some (c, [])     (* _set_result_unless_cancelled on a cancelled waiter: nothing happens *)
    | _ => None
    end
  | LHelperReady r =>
    match ready c, made c, transport c with
    | RPending, true, TOpen =>
      match r with
      | None => Some (c <| ready := ROk |>, [])
      | Some e =>
        (* _handle_error_and_close of the noise helper *)
        let '(c1, o) := helper_error c e in
        let '(c2, o2) := match transport c1 with
                         | TOpen => (c1 <| transport := TClosing None |>, [OTransportClose])
                         | _ => (c1, []) end in
        Some (c2, o ++ o2)
      end
    | _, _, _ => None
    end
  | LData items =>
    match transport c, made c with
    | TOpen, true =>
      let '(c1, o, ex) := data_loop c items in
      match ex with
      | Some e =>
        (* K10: an exception escaping data_received force-closes the transport *)
        let c2 := match transport c1 with
                  | TOpen | TClosing _ => c1 <| transport := TClosing (Some e) |>
                  | _ => c1 end in
        Some (c2, o ++ [ORaise e])
      | None => Some (c1, o)
      end
    | _, _ => None
    end
  | LEof =>
    match transport c, made c with
    | TOpen, true =>
      let '(c1, o) := helper_error c (Lib LSocketClosed) in
      match transport c1 with
      | TOpen => Some (c1 <| transport := TClosing None |>, o ++ [OTransportClose])
      | _ => Some (c1, o)
      end
    | _, _ => None
    end
  | LLost e =>
    match transport c with
    | TOpen => Some (c <| transport := TClosing e |>, [])
    | _ => None
    end
  | LWriteFails b => Some (c <| write_fails := b |>, [])
  | LAdvance t =>
    if Z.leb (now c) t && forallb (fun d => Z.leb t d) (armed_deadlines c) then Some (c <| now := t |>, [])
    else None
  | LWake TStart => wake_start c
  | LWake TFinish => wake_finish c
  | LWake TDisc => wake_disc c
  | LWake (TCall cid) => wake_call c cid
  | LIntr true =>
    match start_fut c, intr_start c with
    | FDone, IArmed =>
      let k := t_start c in
      Some (cancel_task (c <| intr_start := IFired |> <| t_start := k <| interrupted := true |> |>) TStart, [])
    | FDone, IExited => Some (c, [])
    | _, _ => None
    end
  | LIntr false =>
    match finish_fut c, intr_finish c with
    | FDone, IArmed =>
      let k := t_finish c in
      Some (cancel_task (c <| intr_finish := IFired |> <| t_finish := k <| interrupted := true |> |>) TFinish, [])
    | FDone, IExited => Some (c, [])
    | _, _ => None
    end
  | LDiscWaitDone =>
    match pc (t_disc c), finish_fut c, disc_wait_done c with
    | PD_Wait, FDone, false => Some (c <| disc_wait_done := true |> <| disc_timer := None |>, [])
    | PD_Wait, FNone, false => Some (c <| disc_wait_done := true |> <| disc_timer := None |>, [])
    | PD_Wait, FDone, true => Some (c, [])   (* the wait has timed out already: the late completion callback finds its waiter done *)
    | _, _, _ => None
    end
  | LConnLostCb =>
    match transport c with
    | TClosing e =>
      let c1 := c <| transport := TLost |> in
      if made c1 then Some (helper_error c1 (match e with None => Lib LSocketClosed | Some x => x end))
      else Some (c1, [])
    | _ => None
    end
  | LTimer TkPing =>
    if due (ping_timer c) c then
      let c0 := c <| ping_timer := None |> in
      if send_pending_ping c0 then
        let '(c1, o, ex) := send_messages c0 [T_PING_REQ] in
        match ex with
        | Some e => Some (c1, o ++ [ORaise e])
        | None =>
          let c2 := match pong_timer c1 with
                    | None => c1 <| pong_timer := Some (now c1 + keep_alive_timeout c1) |>
                    | Some _ => c1 end in
          Some (schedule_keep_alive c2, o)
        end
      else Some (schedule_keep_alive c0, [])
    else None
  | LTimer TkPong =>
    if due (pong_timer c) c then Some (report_fatal c (Lib LPingFailed)) else None
  | LTimer TkHandshake =>
    if due (hs_timer c) c then
      Some (match ready c with
            | RPending => c <| hs_timer := None |> <| ready := RExc PyTimeout |>
            | _ => c <| hs_timer := None |> end, [])
    else None
  | LTimer TkConnect =>
    if due (conn_timer c) c then
      let k := t_start c in
      Some (cancel_task (c <| conn_timer := None |> <| t_start := k <| expiring := true |> |>) TStart, [])
    else None
  | LTimer (TkCall cid) =>
    match get_call c cid with
    | Some k =>
      if due (c_timer k) c then
        Some (upd_call c cid (fun x => (match c_fut x with CPending => x <| c_fut := CExc PyTimeout |> | _ => x end)
                                         <| c_timer := None |>), [])
      else None
    | None => None
    end
  | LTimer TkDiscWait =>
    match pc (t_disc c) with
    | PD_Wait => if due (disc_timer c) c then Some (c <| disc_timer := None |> <| disc_wait_done := true |>, []) else None
    | _ => None
    end
  end.

(* a whole trace; None = some label was not enabled *)
Fixpoint run (c : conn) (ls : list label) : option (conn * list (list obs)) :=
  match ls with
  | [] => Some (c, [])
  | l :: r =>
    match step c l with
    | None => None
    | Some (c1, o) => match run c1 r with Some (c2, os) => Some (c2, o :: os) | None => None end
    end
  end.
