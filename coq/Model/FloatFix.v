(* fix_float_single_double_conversion (util.py) on exact values.
   A finite non-zero input is sign * m * 2^e with m > 0 (a float32 widened to binary64, so the value is exact).
   math.ceil(math.log10(abs)) is represented by its mathematical definition (the k with 10^(k-1) < abs <= 10^k) and
   round(x, n) by its documented meaning (round-half-even of the exact decimal expansion, then the nearest binary64,
   ties to even); that CPython / libm meet these on float32-origin inputs is checked bit-exactly by the correspondence sweep. *)
From Coq Require Import ZArith Bool.
Open Scope Z_scope.

Definition pow2 (n : Z) : Z := 2 ^ n.
Definition pow10 (n : Z) : Z := 10 ^ n.

(* abs = m * 2^e  <=  10^k  ?   (all by cross-multiplication on integers) *)
Definition le_pow10 (m e k : Z) : bool :=
  let lhs := m * pow2 (Z.max e 0) * pow10 (Z.max (- k) 0) in
  let rhs := pow10 (Z.max k 0) * pow2 (Z.max (- e) 0) in
  lhs <=? rhs.

(* least k in [lo, lo + fuel) with abs <= 10^k *)
Fixpoint find_l10 (fuel : nat) (m e k : Z) : Z :=
  match fuel with
  | O => k
  | S f => if le_pow10 m e k then k else find_l10 f m e (k + 1)
  end.
Definition l10 (m e : Z) : Z := find_l10 140 m e (-70).

(* round-half-even of N / D for N >= 0, D > 0 *)
Definition rhe (N D : Z) : Z :=
  let q := N / D in
  let r2 := 2 * (N mod D) in
  if r2 <? D then q else if D <? r2 then q + 1 else if Z.even q then q else q + 1.

(* nearest binary64 (ties to even) to N / D with N > 0, D > 0, in the normal range: returns (mantissa, exponent), value = mant * 2^exp,
   2^52 <= mant < 2^53 *)
Definition rn64 (N D : Z) : Z * Z :=
  let e0 := Z.log2 N - Z.log2 D - 52 in
  (* scaled = N / (D * 2^e) *)
  let q_at (e : Z) := if 0 <=? e then (N, D * pow2 e) else (N * pow2 (- e), D) in
  let fits (e : Z) := let '(n, d) := q_at e in (pow2 52 * d <=? n) && (n <? pow2 53 * d) in
  let e := if fits e0 then e0 else if fits (e0 - 1) then e0 - 1 else e0 + 1 in
  let '(n, d) := q_at e in
  let mant := rhe n d in
  if mant =? pow2 53 then (pow2 52, e + 1) else (mant, e).

(* the function: sign (true = negative), m, e  ->  sign, mantissa, exponent of the binary64 result *)
Definition fix_float (neg : bool) (m e : Z) : bool * Z * Z :=
  if m =? 0 then (neg, 0, 0) else
  let k := l10 m e in
  let prec := 7 - k in
  (* abs * 10^prec = N / D *)
  let N := m * pow2 (Z.max e 0) * pow10 (Z.max prec 0) in
  let D := pow2 (Z.max (- e) 0) * pow10 (Z.max (- prec) 0) in
  let r := rhe N D in
  if r =? 0 then (neg, 0, 0) else
  (* r * 10^(-prec) = N2 / D2 *)
  let N2 := r * pow10 (Z.max (- prec) 0) in
  let D2 := pow10 (Z.max prec 0) in
  let '(mant, ex) := rn64 N2 D2 in (neg, mant, ex).
