(* Plaintext frame helper: mirrors aioesphomeapi/_frame_helper/plain_text.py
   (write_packets, data_received, _error_on_incorrect_preamble) and the buffer
   discipline of base.py (_add_to_buffer, _remove_from_buffer, _read). *)
From Coq Require Import NArith List Bool.
From Verif Require Import Kernel.Varint.
Import ListNotations.
Open Scope N_scope.

Definition bytes := list N.

Inductive pevent :=
| Deliver (ty : N) (payload : bytes)      (* connection.process_packet(ty, payload) *)
| ErrRequiresEncryption                   (* RequiresEncryptionAPIError, helper closed *)
| ErrBadPreamble (v : option N).          (* ProtocolAPIError "Invalid preamble"; None = -1 *)

(* ---- writing ---------------------------------------------------------------- *)
Definition enc_frame (p : N * bytes) : bytes :=
  0 :: enc (N.of_nat (length (snd p))) ++ enc (fst p) ++ snd p.
Definition write_packets (pkts : list (N * bytes)) : bytes :=
  flat_map enc_frame pkts.

(* ---- reading ---------------------------------------------------------------- *)
Inductive one :=
| OFrame (ty : N) (payload rest : bytes)
| OIncomplete
| OError (e : pevent).

(* one iteration of the while loop of data_received, on the whole buffer (_pos = 0) *)
Definition parse_one (buf : bytes) : one :=
  match read_varuint buf with
  | None => OError (ErrBadPreamble None)
  | Some (pre, r1) =>
    if pre =? 0 then
      match read_varuint r1 with
      | None => OIncomplete
      | Some (len, r2) =>
        match read_varuint r2 with
        | None => OIncomplete
        | Some (ty, r3) =>
          if len =? 0 then OFrame ty [] r3
          else if N.of_nat (length r3) <? len then OIncomplete
          else OFrame ty (firstn (N.to_nat len) r3) (skipn (N.to_nat len) r3)
        end
      end
    else OError (if pre =? 1 then ErrRequiresEncryption else ErrBadPreamble (Some pre))
  end.

Inductive status := Ok | Errored | OutOfFuel.
Record result := { r_events : list pevent; r_buffer : bytes; r_status : status }.

Fixpoint loop (fuel : nat) (buf : bytes) (acc : list pevent) : result :=
  match fuel with
  | O => {| r_events := acc; r_buffer := buf; r_status := OutOfFuel |}
  | S f =>
    match buf with
    | [] => {| r_events := acc; r_buffer := []; r_status := Ok |}
    | _ =>
      match parse_one buf with
      | OFrame ty pl rest => loop f rest (acc ++ [Deliver ty pl])
      | OIncomplete => {| r_events := acc; r_buffer := buf; r_status := Ok |}
      | OError e => {| r_events := acc ++ [e]; r_buffer := buf; r_status := Errored |}
      end
    end
  end.

(* data_received(chunk) on a helper whose retained buffer is [buf] *)
Definition data_received (buf chunk : bytes) : result :=
  let b := buf ++ chunk in loop (S (length b)) b [].

(* a whole session: per-call event lists; stops feeding after an error (the transport is closed) *)
Fixpoint run (buf : bytes) (chunks : list bytes) : list (list pevent) * bytes * status :=
  match chunks with
  | [] => ([], buf, Ok)
  | c :: cs =>
    let r := data_received buf c in
    match r_status r with
    | Ok => let '(evs, b, s) := run (r_buffer r) cs in (r_events r :: evs, b, s)
    | s => ([r_events r], r_buffer r, s)
    end
  end.
