(* Keepalive of an established session: mirrors _async_schedule_keep_alive / _async_send_keep_alive /
   _async_pong_not_received and the two lines of process_packet that clear the pending-ping flag and the pong timer.
   Time in units of K/2 * 1/h: the keepalive interval is K = 2h, the pong timeout is ratio*K = 9h (ratio 9/2 read from the source).
   The session is established at time 0. *)
From Coq Require Import ZArith List Bool.
From Verif Require Import Generated.GenConstants.
Import ListNotations.
Open Scope Z_scope.

Record ka := mkKa {
  k_now : Z; k_pending : bool; k_ping_at : Z; k_pong : option Z; k_dead : bool;
  (* ghost history *)
  g_ticks : Z;                 (* number of keepalive ticks so far *)
  g_arr_since_tick : bool;     (* a message arrived since the last tick (or since the session was established) *)
  g_last_arr : Z;              (* time of the last arrival (0 = establishment) *)
  g_first_ping : option Z      (* time of the first ping written since the last arrival *) }.

Inductive kev := KArr | KTick | KPong | KAdv (t : Z).
Inductive kobs := KPingSent (t : Z) | KDead (t : Z).

Definition interval (h : Z) : Z := 2 * h.
Definition pong_timeout (h : Z) : Z := interval h * KEEP_ALIVE_RATIO_NUM / KEEP_ALIVE_RATIO_DEN.

Definition ka_init (h : Z) : ka := mkKa 0 true (interval h) None false 0 false 0 None.

Definition ka_step (h : Z) (s : ka) (e : kev) : option (ka * list kobs) :=
  if k_dead s then None else
  match e with
  | KArr =>   (* process_packet: cancel the pong timer, clear the pending ping *)
    Some (mkKa (k_now s) false (k_ping_at s) None false (g_ticks s) true (k_now s) None, [])
  | KTick =>  (* _async_send_keep_alive *)
    if Z.eqb (k_now s) (k_ping_at s) then
      let ping := k_pending s in
      let pong := if ping then match k_pong s with None => Some (k_now s + pong_timeout h) | Some d => Some d end else k_pong s in
      let fp := if ping then match g_first_ping s with None => Some (k_now s) | Some p => Some p end else g_first_ping s in
      Some (mkKa (k_now s) true (k_now s + interval h) pong false (g_ticks s + 1) false (g_last_arr s) fp,
            if ping then [KPingSent (k_now s)] else [])
    else None
  | KPong =>  (* _async_pong_not_received *)
    match k_pong s with
    | Some d => if Z.eqb (k_now s) d then
                  Some (mkKa (k_now s) (k_pending s) (k_ping_at s) None true (g_ticks s) (g_arr_since_tick s) (g_last_arr s) (g_first_ping s),
                        [KDead (k_now s)])
                else None
    | None => None
    end
  | KAdv t =>  (* virtual time moves, never past an armed timer *)
    if Z.leb (k_now s) t && Z.leb t (k_ping_at s) && match k_pong s with Some d => Z.leb t d | None => true end then
      Some (mkKa t (k_pending s) (k_ping_at s) (k_pong s) false (g_ticks s) (g_arr_since_tick s) (g_last_arr s) (g_first_ping s), [])
    else None
  end.

Fixpoint ka_run (h : Z) (s : ka) (es : list kev) : option (ka * list kobs) :=
  match es with
  | [] => Some (s, [])
  | e :: r => match ka_step h s e with
              | Some (s1, o) => match ka_run h s1 r with Some (s2, o2) => Some (s2, o ++ o2) | None => None end
              | None => None
              end
  end.

(* deterministic scheduler for the correspondence check: arrivals (sorted times) are served before timers of the same instant *)
Fixpoint ka_sim (fuel : nat) (h : Z) (s : ka) (arrs : list Z) (horizon : Z) : list kobs :=
  match fuel with
  | O => []
  | S f =>
    if k_dead s then [] else
    let tt := k_ping_at s in
    let next_timer := match k_pong s with Some d => Z.min d tt | None => tt end in
    match arrs with
    | a :: r =>
      if Z.leb a next_timer then
        if Z.ltb horizon a then [] else
        match ka_step h s (KAdv a) with
        | Some (s1, _) => match ka_step h s1 KArr with Some (s2, _) => ka_sim f h s2 r horizon | None => [] end
        | None => []
        end
      else
        if Z.ltb horizon next_timer then [] else
        match ka_step h s (KAdv next_timer) with
        | Some (s1, _) =>
          match ka_step h s1 (if Z.eqb next_timer tt then KTick else KPong) with
          | Some (s2, o) => o ++ ka_sim f h s2 arrs horizon
          | None => []
          end
        | None => []
        end
    | [] =>
      if Z.ltb horizon next_timer then [] else
      match ka_step h s (KAdv next_timer) with
      | Some (s1, _) =>
        match ka_step h s1 (if Z.eqb next_timer tt then KTick else KPong) with
        | Some (s2, o) => o ++ ka_sim f h s2 [] horizon
        | None => []
        end
      | None => []
      end
    end
  end.
