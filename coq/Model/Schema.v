(* Shapes of the translator-generated tables and the generic boolean checkers that are run on
   them (vm_compute) — soundness of every checker is proved once, for all tables, in
   Proofs/SchemaProofs.v. *)
From Coq Require Import NArith ZArith String List Bool.
Import ListNotations.
Open Scope string_scope.

Record field := mkField { f_name : string; f_num : N; f_type : string; f_repeated : bool }.
Record msg := mkMsg { m_name : string; m_id : N; m_source : N; m_fields : list field }.
Record enum := mkEnum { e_name : string; e_values : list (string * Z) }.

(* source option: 0 = SOURCE_BOTH, 1 = SOURCE_SERVER, 2 = SOURCE_CLIENT *)
Definition SRC_BOTH : N := 0.
Definition SRC_SERVER : N := 1.
Definition SRC_CLIENT : N := 2.

(* ---- decidable equalities -------------------------------------------------------- *)
Fixpoint list_eqb {A} (eqb : A -> A -> bool) (a b : list A) : bool :=
  match a, b with
  | [], [] => true
  | x :: a', y :: b' => eqb x y && list_eqb eqb a' b'
  | _, _ => false
  end.

Definition field_eqb (a b : field) : bool :=
  String.eqb (f_name a) (f_name b) && N.eqb (f_num a) (f_num b) &&
  String.eqb (f_type a) (f_type b) && Bool.eqb (f_repeated a) (f_repeated b).
Definition msg_eqb (a b : msg) : bool :=
  String.eqb (m_name a) (m_name b) && N.eqb (m_id a) (m_id b) && N.eqb (m_source a) (m_source b) &&
  list_eqb field_eqb (m_fields a) (m_fields b).
Definition sz_eqb (a b : string * Z) : bool := String.eqb (fst a) (fst b) && Z.eqb (snd a) (snd b).
Definition enum_eqb (a b : enum) : bool :=
  String.eqb (e_name a) (e_name b) && list_eqb sz_eqb (e_values a) (e_values b).
Definition ns_eqb (a b : N * string) : bool := N.eqb (fst a) (fst b) && String.eqb (snd a) (snd b).

Definition memb {A} (eqb : A -> A -> bool) (x : A) (l : list A) : bool := existsb (eqb x) l.
Fixpoint nodupb {A} (eqb : A -> A -> bool) (l : list A) : bool :=
  match l with
  | [] => true
  | x :: r => negb (memb eqb x r) && nodupb eqb r
  end.

(* ---- C13 checkers ----------------------------------------------------------------- *)
(* (id, name) pairs declared by the protocol: messages with a non-zero id option *)
Definition proto_ids (msgs : list msg) : list (N * string) :=
  map (fun m => (m_id m, m_name m)) (filter (fun m => negb (N.eqb (m_id m) 0)) msgs).

Definition check_registry_is_proto (registry : list (N * string)) (msgs : list msg) : bool :=
  forallb (fun p => memb ns_eqb p (proto_ids msgs)) registry &&
  forallb (fun p => memb ns_eqb p registry) (proto_ids msgs).

Fixpoint N_seq (start : N) (len : nat) : list N :=
  match len with O => [] | S l => start :: N_seq (N.succ start) l end.

Definition check_contiguous (registry : list (N * string)) : bool :=
  list_eqb N.eqb (map fst registry) (N_seq 1 (length registry)) &&
  nodupb String.eqb (map snd registry).

Definition check_descriptors (dm pm : list msg) (de pe : list enum) : bool :=
  list_eqb msg_eqb dm pm && list_eqb enum_eqb de pe.

Definition find_msg (msgs : list msg) (name : string) : option msg :=
  find (fun m => String.eqb (m_name m) name) msgs.

Definition src_ok_sent (msgs : list msg) (c : string) : bool :=
  match find_msg msgs c with Some m => negb (N.eqb (m_source m) SRC_SERVER) | None => false end.
Definition src_ok_subscribed (msgs : list msg) (c : string) : bool :=
  match find_msg msgs c with Some m => negb (N.eqb (m_source m) SRC_CLIENT) | None => false end.

Definition check_direction (msgs : list msg) (api : list (string * list string * list string)) : bool :=
  nodupb String.eqb (map m_name msgs) &&
  forallb (fun e => match e with (_, sent, subs) =>
     forallb (src_ok_sent msgs) sent && forallb (src_ok_subscribed msgs) subs end) api.

(* "explain" twins used by the harness to name the offending entry *)
Definition explain_registry (registry : list (N * string)) (msgs : list msg) : list (N * string) :=
  filter (fun p => negb (memb ns_eqb p (proto_ids msgs))) registry ++
  filter (fun p => negb (memb ns_eqb p registry)) (proto_ids msgs).
Definition explain_direction (msgs : list msg) (api : list (string * list string * list string))
  : list (string * string) :=
  flat_map (fun e => match e with (ep, sent, subs) =>
     map (fun c => (ep, c)) (filter (fun c => negb (src_ok_sent msgs c)) sent ++
                             filter (fun c => negb (src_ok_subscribed msgs c)) subs) end) api.
