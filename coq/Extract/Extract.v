(* Extraction of the executable models for the correspondence checks.
   ExtrOcamlBasic only: bool/option/unit/list/prod/sumbool/sumor and andb/orb.
   Separate extraction: one OCaml module per Coq file, written to Extract/ml/. *)
From Coq Require Import NArith ZArith List.
From Coq Require Extraction ExtrOcamlBasic.
From Verif Require Import Kernel.Varint Model.PlainFrame Model.NoiseFrame Model.WireSpec Model.Conn Model.Keepalive Model.Client Model.FloatFix Model.Convert Model.CommandIR Generated.GenCommands Model.Resolver Model.Reconnect Model.Ble Model.Subs.
Extraction Language OCaml.
Cd "Extract/ml".
Separate Extraction N.add N.mul N.of_nat N.to_nat N.eqb Z.add Z.mul Z.opp
  Varint.enc Varint.read_varuint
  PlainFrame.write_packets PlainFrame.run PlainFrame.data_received
  NoiseFrame.run NoiseFrame.sess_init WireSpec.spec_decode_plain WireSpec.spec_decode_noise
  Conn.step Conn.init Conn.armed_deadlines
  Keepalive.ka_sim Keepalive.ka_init
  Client.cstep Client.client_init
  FloatFix.fix_float Convert.from_pb Convert.conv
  CommandIR.exec CommandIR.get CommandIR.wf GenCommands.commands
  Resolver.resolve Resolver.zrun
  Reconnect.rstep Reconnect.rl_init Reconnect.backoff_seconds
  Ble.bstep Ble.bs_init Ble.all_subscriptions Ble.handle_op
  Subs.sstep.
Cd "../..".
