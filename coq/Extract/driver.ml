(* Hand-written driver: reads one case per line on stdin, prints one result line per case.
   Numbers are hexadecimal (unbounded), byte strings are hex ("-" = empty). *)
open Datatypes
open BinNums

let rec pos_of_int (i : int) : positive =
  if i = 1 then Coq_xH else if i land 1 = 0 then Coq_xO (pos_of_int (i lsr 1)) else Coq_xI (pos_of_int (i lsr 1))
let n_of_int (i : int) : coq_N = if i = 0 then N0 else Npos (pos_of_int i)
let rec int_of_pos = function Coq_xH -> 1 | Coq_xO p -> 2 * int_of_pos p | Coq_xI p -> 2 * int_of_pos p + 1
let int_of_n = function N0 -> 0 | Npos p -> int_of_pos p
let rec nat_of_int i = if i <= 0 then O else S (nat_of_int (i - 1))
let rec int_of_nat = function O -> 0 | S n -> 1 + int_of_nat n

(* unbounded hex <-> N *)
let hexdigit c = match c with
  | '0'..'9' -> Stdlib.Char.code c - 48 | 'a'..'f' -> Stdlib.Char.code c - 87 | 'A'..'F' -> Stdlib.Char.code c - 55
  | _ -> failwith "hexdigit"
let n_of_hex (s : string) : coq_N =
  let bits = ref [] in  (* most significant first *)
  Stdlib.String.iter (fun c -> let d = hexdigit c in
    bits := (d land 1 = 1) :: (d land 2 = 2) :: (d land 4 = 4) :: (d land 8 = 8) :: !bits) s;
  (* !bits is least-significant first *)
  let rec build = function
    | [] -> None
    | b :: r -> (match build r with
        | None -> if b then Some Coq_xH else None
        | Some p -> Some (if b then Coq_xI p else Coq_xO p)) in
  match build !bits with None -> N0 | Some p -> Npos p
let hex_of_n (v : coq_N) : string =
  match v with N0 -> "0" | Npos p ->
    let rec bits p = match p with Coq_xH -> [true] | Coq_xO q -> false :: bits q | Coq_xI q -> true :: bits q in
    let bs = Stdlib.Array.of_list (bits p) in
    let nb = Stdlib.Array.length bs in
    let nd = (nb + 3) / 4 in
    let buf = Stdlib.Buffer.create nd in
    for d = nd - 1 downto 0 do
      let v = ref 0 in
      for k = 3 downto 0 do
        let i = d * 4 + k in
        v := !v * 2 + (if i < nb && bs.(i) then 1 else 0)
      done;
      Stdlib.Buffer.add_char buf (Stdlib.String.get "0123456789abcdef" (!v))
    done; Stdlib.Buffer.contents buf
let z_of_string (s : string) : coq_Z =
  if Stdlib.String.length s > 0 && (Stdlib.String.get s (0)) = '-' then
    (match n_of_hex (Stdlib.String.sub s 1 (Stdlib.String.length s - 1)) with N0 -> Z0 | Npos p -> Zneg p)
  else (match n_of_hex s with N0 -> Z0 | Npos p -> Zpos p)
let string_of_z = function Z0 -> "0" | Zpos p -> hex_of_n (Npos p) | Zneg p -> "-" ^ hex_of_n (Npos p)

let bytes_of_hex (s : string) : coq_N list =
  if s = "-" then [] else
  let l = Stdlib.String.length s / 2 in
  Stdlib.List.init l (fun i -> n_of_int (hexdigit (Stdlib.String.get s (2*i)) * 16 + hexdigit (Stdlib.String.get s (2*i+1))))
let hex_of_bytes (b : coq_N list) : string =
  if b = [] then "-" else
  Stdlib.String.concat "" (Stdlib.List.map (fun x -> let i = int_of_n x in
    if i > 255 then Printf.sprintf "<%s>" (hex_of_n x) else Printf.sprintf "%02x" i) b)

let split_on c s = if s = "" then [] else Stdlib.String.split_on_char c s
let words s = Stdlib.List.filter (fun w -> w <> "") (Stdlib.String.split_on_char ' ' s)

(* ---- plaintext ---- *)
let show_pevent = function
  | PlainFrame.Deliver (ty, pl) -> Printf.sprintf "D:%s:%s" (hex_of_n ty) (hex_of_bytes pl)
  | PlainFrame.ErrRequiresEncryption -> "E:requires_encryption"
  | PlainFrame.ErrBadPreamble None -> "E:bad_preamble:-1"
  | PlainFrame.ErrBadPreamble (Some v) -> Printf.sprintf "E:bad_preamble:%s" (hex_of_n v)
let show_status = function PlainFrame.Ok -> "ok" | PlainFrame.Errored -> "error" | PlainFrame.OutOfFuel -> "OUT_OF_FUEL"

(* ---- symbolic byte strings: '.'-separated tokens, hex of raw bytes or s<value>x<count> ---- *)
let sym_of_text (s : string) : coq_N list =
  if s = "-" then [] else
  Stdlib.List.concat (Stdlib.List.map (fun tok ->
    if Stdlib.String.length tok > 0 && (Stdlib.String.get tok (0)) = 's' then
      (match Stdlib.String.split_on_char 'x' (Stdlib.String.sub tok 1 (Stdlib.String.length tok - 1)) with
       | [v; c] -> Stdlib.List.init (int_of_string c) (fun _ -> n_of_int (int_of_string v))
       | _ -> failwith "sym token")
    else bytes_of_hex tok) (Stdlib.String.split_on_char '.' s))
let text_of_sym (l : coq_N list) : string =
  if l = [] then "-" else begin
    let buf = Stdlib.Buffer.create 64 in
    let rec go l in_raw = match l with
      | [] -> ()
      | x :: r ->
        let i = int_of_n x in
        if i < 256 then begin
          if not in_raw && Stdlib.Buffer.length buf > 0 then Stdlib.Buffer.add_char buf '.';
          Stdlib.Buffer.add_string buf (Printf.sprintf "%02x" i); go r true end
        else begin
          let rec count l c = match l with y :: r' when int_of_n y = i -> count r' (c + 1) | _ -> (c, l) in
          let (c, rest) = count r 1 in
          if Stdlib.Buffer.length buf > 0 then Stdlib.Buffer.add_char buf '.';
          Stdlib.Buffer.add_string buf (Printf.sprintf "s%dx%d" i c); go rest false end in
    go l false; Stdlib.Buffer.contents buf end

(* ideal AEAD on symbolic strings: an intact ciphertext under nonce n in direction d is
   [1000 + d + n] ++ plaintext ++ 15 x [256]; anything else fails to authenticate *)
let sym_tag = 256 and sym_nonce0 = 1000 and dir_c2s = 0 and dir_s2c = 500000
let sym_encrypt dir (n : coq_N) (pt : coq_N list) : coq_N list =
  n_of_int (sym_nonce0 + dir + int_of_n n) :: (pt @ Stdlib.List.init 15 (fun _ -> n_of_int sym_tag))
let sym_decrypt dir (n : coq_N) (ct : coq_N list) : coq_N list option =
  match ct with
  | [] -> None
  | h :: r ->
    let len = Stdlib.List.length r in
    if int_of_n h <> sym_nonce0 + dir + int_of_n n || len < 15 then None else
    let pt = Stdlib.List.filteri (fun i _ -> i < len - 15) r in
    let tag = Stdlib.List.filteri (fun i _ -> i >= len - 15) r in
    if Stdlib.List.for_all (fun x -> int_of_n x = sym_tag) tag && Stdlib.List.for_all (fun x -> int_of_n x < 256) pt
    then Some pt else None
let hs_init_sym = Stdlib.List.init 48 (fun _ -> n_of_int 300)
let hs_read_sym (m : coq_N list) : bool = Stdlib.List.length m = 48 && Stdlib.List.for_all (fun x -> int_of_n x = 301) m

(* strict UTF-8 validity, as bytes.decode() *)
let utf8_ok (b : coq_N list) : bool =
  let a = Stdlib.Array.of_list (Stdlib.List.map int_of_n b) in
  let n = Stdlib.Array.length a in
  let cont i = i < n && a.(i) land 0xC0 = 0x80 in
  let rec go i =
    if i >= n then true else
    let c = a.(i) in
    if c > 255 then false
    else if c < 0x80 then go (i + 1)
    else if c >= 0xC2 && c <= 0xDF then cont (i+1) && go (i + 2)
    else if c = 0xE0 then i+1 < n && a.(i+1) >= 0xA0 && a.(i+1) <= 0xBF && cont (i+2) && go (i + 3)
    else if c = 0xED then i+1 < n && a.(i+1) >= 0x80 && a.(i+1) <= 0x9F && cont (i+2) && go (i + 3)
    else if (c >= 0xE1 && c <= 0xEF) then cont (i+1) && cont (i+2) && go (i + 3)
    else if c = 0xF0 then i+1 < n && a.(i+1) >= 0x90 && a.(i+1) <= 0xBF && cont (i+2) && cont (i+3) && go (i + 4)
    else if c >= 0xF1 && c <= 0xF3 then cont (i+1) && cont (i+2) && cont (i+3) && go (i + 4)
    else if c = 0xF4 then i+1 < n && a.(i+1) >= 0x80 && a.(i+1) <= 0x8F && cont (i+2) && cont (i+3) && go (i + 4)
    else false in
  go 0

let show_nerr = function
  | NoiseFrame.EBadMarker b -> Printf.sprintf "bad_marker:%s" (hex_of_n b)
  | NoiseFrame.EEmptyHello -> "empty_hello"
  | NoiseFrame.EUnknownProto p -> Printf.sprintf "unknown_proto:%s" (hex_of_n p)
  | NoiseFrame.EBadName n -> "bad_name:" ^ hex_of_bytes n
  | NoiseFrame.EEmptyHandshake -> "empty_handshake"
  | NoiseFrame.EHandshakeFail t -> "handshake_fail:" ^ hex_of_bytes t
  | NoiseFrame.EInvalidKey -> "invalid_key"
  | NoiseFrame.EClosedFrame -> "closed_frame"
  | NoiseFrame.EConnClosed -> "conn_closed"
  | NoiseFrame.EDroppedAfterHello -> "dropped_after_hello"
  | NoiseFrame.ESocketClosed -> "socket_closed"
  | NoiseFrame.ERawOther -> "raw"
let show_nevent = function
  | NoiseFrame.NDeliver (ty, pl) -> Printf.sprintf "D:%s:%s" (hex_of_n ty) (hex_of_bytes pl)
  | NoiseFrame.NReadyOk -> "RDY"
  | NoiseFrame.NReadyErr e -> "RERR:" ^ show_nerr e
  | NoiseFrame.NFatal e -> "FATAL:" ^ show_nerr e
  | NoiseFrame.NTransportClose -> "TCLOSE"
  | NoiseFrame.NWrite d -> "W:" ^ text_of_sym d
  | NoiseFrame.NRaise NoiseFrame.RInvalidTag -> "RAISE:invalid_tag"
  | NoiseFrame.NRaise NoiseFrame.RIndexError -> "RAISE:index"
  | NoiseFrame.NRaise NoiseFrame.RUnicode -> "RAISE:unicode"
let parse_pkts (w : string) = if w = "-" then [] else
  Stdlib.List.map (fun x -> match Stdlib.String.split_on_char ':' x with
    | [t; p] -> (n_of_hex t, bytes_of_hex p) | _ -> failwith "pkt") (Stdlib.String.split_on_char ',' w)
let parse_op (w : string) : NoiseFrame.op =
  match Stdlib.String.index_opt w '=' with
  | None -> (match w with "made" -> NoiseFrame.OMade | "eof" -> NoiseFrame.OEof | "close" -> NoiseFrame.OClose | _ -> failwith ("op " ^ w))
  | Some i ->
    let k = Stdlib.String.sub w 0 i and v = Stdlib.String.sub w (i + 1) (Stdlib.String.length w - i - 1) in
    (match k with
     | "data" -> NoiseFrame.OData (sym_of_text v)
     | "write" -> NoiseFrame.OWrite (parse_pkts v)
     | "lost" -> NoiseFrame.OLost (match v with "none" -> NoiseFrame.LostNone | "reset" -> NoiseFrame.LostReset
                                               | "tag" -> NoiseFrame.LostInvalidTag | _ -> NoiseFrame.LostOther)
     | _ -> failwith ("op " ^ w))
let show_nstate = function NoiseFrame.NHello -> "hello" | NoiseFrame.NHandshake -> "handshake"
  | NoiseFrame.NReady -> "ready" | NoiseFrame.NClosed -> "closed"

(* ---- connection model: labels in, projections out ---- *)
(* arbitrary-size Z <-> decimal text (mantissas of binary64 do not fit OCaml's 63-bit int on all paths) *)
let rec pos_of_string_digits (ds : int list) : positive option =
  (* ds: decimal digits, most significant first; returns None for zero *)
  let rec divmod2 ds carry acc = match ds with
    | [] -> (Stdlib.List.rev acc, carry)
    | d :: r -> let cur = carry * 10 + d in divmod2 r (cur mod 2) ((cur / 2) :: acc) in
  let rec strip = function 0 :: r -> strip r | l -> l in
  match strip ds with
  | [] -> None
  | ds' ->
    let (q, bit) = divmod2 ds' 0 [] in
    (match pos_of_string_digits q with
     | None -> Some Coq_xH
     | Some p -> Some (if bit = 1 then Coq_xI p else Coq_xO p))
let z_of_string (s : string) : coq_Z =
  let neg = Stdlib.String.length s > 0 && Stdlib.String.get s 0 = '-' in
  let body = if neg then Stdlib.String.sub s 1 (Stdlib.String.length s - 1) else s in
  let ds = Stdlib.List.init (Stdlib.String.length body) (fun i -> Stdlib.Char.code (Stdlib.String.get body i) - 48) in
  match pos_of_string_digits ds with None -> Z0 | Some p -> if neg then Zneg p else Zpos p
let string_of_pos (p : positive) : string =
  (* little-endian decimal digit list *)
  let double_add ds bit =
    let rec go ds carry = match ds with
      | [] -> if carry = 0 then [] else [carry]
      | d :: r -> let v = d * 2 + carry in (v mod 10) :: go r (v / 10) in
    go ds bit in
  let rec conv = function Coq_xH -> [1] | Coq_xO q -> double_add (conv q) 0 | Coq_xI q -> double_add (conv q) 1 in
  Stdlib.String.concat "" (Stdlib.List.rev_map string_of_int (conv p))
let string_of_z = function Z0 -> "0" | Zpos p -> string_of_pos p | Zneg p -> "-" ^ string_of_pos p
let z_of_int (i : int) : coq_Z = if i = 0 then Z0 else if i > 0 then Zpos (pos_of_int i) else Zneg (pos_of_int (-i))
let int_of_z = function Z0 -> 0 | Zpos p -> int_of_pos p | Zneg p -> - (int_of_pos p)
let lerr_names = [ "Conn", Conn.LConn; "SocketClosed", Conn.LSocketClosed; "PingFailed", Conn.LPingFailed;
  "Protocol", Conn.LProtocol; "RequiresEncryption", Conn.LRequiresEncryption; "Handshake", Conn.LHandshake;
  "InvalidKey", Conn.LInvalidKey; "BadName", Conn.LBadName; "InvalidAuth", Conn.LInvalidAuth; "Timeout", Conn.LTimeout;
  "Resolve", Conn.LResolve; "Socket", Conn.LSocket; "ReadFailed", Conn.LReadFailed; "NotEstablished", Conn.LNotEstablished;
  "Cancelled", Conn.LCancelled; "Unhandled", Conn.LUnhandled ]
let raw_names = [ "OSError", Conn.ROSError; "Reset", Conn.RReset; "Attribute", Conn.RAttribute; "Index", Conn.RIndex; "Other", Conn.ROther ]
let rassoc v l = fst (Stdlib.List.find (fun (_, x) -> x = v) l)
let show_exc = function
  | Conn.Lib e -> "L." ^ rassoc e lerr_names | Conn.Raw r -> "R." ^ rassoc r raw_names
  | Conn.Interrupted -> "I" | Conn.CancelledErr -> "C" | Conn.PyTimeout -> "T" | Conn.RuntimeErr -> "RT"
let parse_exc (s : string) : Conn.exc =
  if s = "I" then Conn.Interrupted else if s = "C" then Conn.CancelledErr else if s = "T" then Conn.PyTimeout
  else if s = "RT" then Conn.RuntimeErr
  else if (Stdlib.String.get s (0)) = 'L' then Conn.Lib (Stdlib.List.assoc (Stdlib.String.sub s 2 (Stdlib.String.length s - 2)) lerr_names)
  else Conn.Raw (Stdlib.List.assoc (Stdlib.String.sub s 2 (Stdlib.String.length s - 2)) raw_names)
let parse_oexc s = if s = "ok" || s = "none" then None else Some (parse_exc s)
let parse_tid (s : string) : Conn.tid =
  match (Stdlib.String.get s (0)) with 'S' -> Conn.TStart | 'F' -> Conn.TFinish | 'D' -> Conn.TDisc
  | _ -> Conn.TCall (nat_of_int (int_of_string (Stdlib.String.sub s 1 (Stdlib.String.length s - 1))))
let show_tid = function Conn.TStart -> "S" | Conn.TFinish -> "F" | Conn.TDisc -> "D" | Conn.TCall n -> "C" ^ string_of_int (int_of_nat n)
let parse_nlist (s : string) : coq_N list = if s = "" || s = "-" then [] else
  Stdlib.List.map (fun x -> n_of_int (int_of_string x)) (Stdlib.String.split_on_char ',' s)
let parse_pred (s : string) : Conn.pred =
  if s = "any" then Conn.PAny else
  match Stdlib.String.split_on_char '=' s with
  | ["is"; t] -> Conn.PTyIs (n_of_int (int_of_string t)) | ["not"; t] -> Conn.PTyNot (n_of_int (int_of_string t))
  | ["tag"; t] -> Conn.PTag (n_of_int (int_of_string t)) | _ -> failwith ("pred " ^ s)
let parse_item (s : string) : Conn.ditem =
  match Stdlib.String.split_on_char '.' s with
  | ["f"; ty; v; tag; maj; nk; ip] ->
    Conn.DFrame { Conn.m_ty = n_of_int (int_of_string ty); m_valid = (v = "1"); m_tag = n_of_int (int_of_string tag);
                  m_major = n_of_int (int_of_string maj);
                  m_name = (match nk with "e" -> Conn.NameEmpty | "x" -> Conn.NameExpected | _ -> Conn.NameOther);
                  m_invalid_password = (ip = "1") }
  | ["bp"; r] -> Conn.DBadPreamble (r = "1")
  | _ -> failwith ("item " ^ s)
let parse_timer (s : string) : Conn.timer_kind =
  match s with "ping" -> Conn.TkPing | "pong" -> Conn.TkPong | "hs" -> Conn.TkHandshake | "conn" -> Conn.TkConnect
  | "dwait" -> Conn.TkDiscWait
  | _ -> Conn.TkCall (nat_of_int (int_of_string (Stdlib.String.sub s 1 (Stdlib.String.length s - 1))))
let parse_label (w : string) : Conn.label =
  match Stdlib.String.split_on_char ':' w with
  | ["start"] -> Conn.LStart | ["finish"; l] -> Conn.LFinish (l = "1") | ["disc"] -> Conn.LDisconnect | ["force"] -> Conn.LForce
  | ["call"; snd; tys; ap; st; tmo] -> Conn.LCallStart (parse_nlist snd, parse_nlist tys, parse_pred ap, parse_pred st, z_of_int (int_of_string tmo))
  | ["send"; tys] -> Conn.LSend (parse_nlist tys) | ["cancel"; t] -> Conn.LCancel (parse_tid t)
  | ["sub"; ty; u] -> Conn.LSub (n_of_int (int_of_string ty), nat_of_int (int_of_string u))
  | ["unsub"; ty; u] -> Conn.LUnsub (n_of_int (int_of_string ty), nat_of_int (int_of_string u))
  | ["resolved"; r; g] -> Conn.LResolveDone (parse_oexc r, nat_of_int (int_of_string g))
  | ["tcp"; r] -> Conn.LTcpDone (parse_oexc r)
  | ["made"] -> Conn.LMade | ["madew"] -> Conn.LMadeWaiter | ["hready"; r] -> Conn.LHelperReady (parse_oexc r)
  | ["data"; items] -> Conn.LData (if items = "" then [] else Stdlib.List.map parse_item (Stdlib.String.split_on_char ';' items))
  | ["eof"] -> Conn.LEof | ["lost"; e] -> Conn.LLost (parse_oexc e)
  | ["wfail"; b] -> Conn.LWriteFails (b = "1") | ["adv"; t] -> Conn.LAdvance (z_of_int (int_of_string t))
  | ["wake"; t] -> Conn.LWake (parse_tid t) | ["intr"; k] -> Conn.LIntr (k = "s") | ["dwd"] -> Conn.LDiscWaitDone
  | ["clost"] -> Conn.LConnLostCb | ["timer"; k] -> Conn.LTimer (parse_timer k)
  | _ -> failwith ("label " ^ w)
let parse_scripts (s : string) =
  if s = "-" then [] else
  Stdlib.List.map (fun e -> match Stdlib.String.split_on_char '=' e with
    | [u; acts] -> (nat_of_int (int_of_string u),
        Stdlib.List.map (fun a -> match Stdlib.String.split_on_char '.' a with
          | ["sub"; ty; u2] -> Conn.ASub (n_of_int (int_of_string ty), nat_of_int (int_of_string u2))
          | ["unsub"; ty; u2] -> Conn.AUnsub (n_of_int (int_of_string ty), nat_of_int (int_of_string u2))
          | _ -> failwith "action") (Stdlib.String.split_on_char '+' acts))
    | _ -> failwith "script") (Stdlib.String.split_on_char ';' s)
let show_cs = function Conn.Init -> "INIT" | Conn.SockOpen -> "SOCK" | Conn.HsDone -> "HS" | Conn.Connected -> "CONN" | Conn.Closed -> "CLOSED"
let show_oz = function None -> "-" | Some z -> string_of_int (int_of_z z)
let show_hid = function Conn.HDisc -> "disc" | Conn.HPing -> "ping" | Conn.HTime -> "time"
  | Conn.HCall n -> "c" ^ string_of_int (int_of_nat n) | Conn.HUser n -> "u" ^ string_of_int (int_of_nat n)
let b01 b = if b then "1" else "0"
let show_proj (c : Conn.conn) : string =
  let hs = Stdlib.List.sort compare (Stdlib.List.map (fun (ty, h) -> Printf.sprintf "%d.%s" (int_of_n ty) (show_hid h)) c.Conn.handlers) in
  Printf.sprintf "%s,%s%s,f=%s,x=%s,pp=%s,ping=%s,pong=%s,sf=%s,ff=%s,h=%s,s=%s,w=%d,os=%s,H=%s"
    (show_cs c.Conn.cs) (b01 c.Conn.is_connected) (b01 c.Conn.handshake_complete)
    (match c.Conn.fatal with None -> "-" | Some e -> show_exc e) (b01 c.Conn.expected_disconnect) (b01 c.Conn.send_pending_ping)
    (show_oz c.Conn.ping_timer) (show_oz c.Conn.pong_timer)
    (match c.Conn.start_fut with Conn.FPending -> "P" | _ -> "-") (match c.Conn.finish_fut with Conn.FPending -> "P" | _ -> "-")
    (match c.Conn.helper with Conn.HOpen -> "1" | _ -> "0") (b01 c.Conn.socket)
    (Stdlib.List.length c.Conn.waiters) (b01 c.Conn.on_stop_armed) (Stdlib.String.concat "+" hs)
let show_tres = function Conn.TOk -> "ok" | Conn.TRaise e -> show_exc e
let show_obs = function
  | Conn.OWrite tys -> "W" ^ Stdlib.String.concat "." (Stdlib.List.map (fun t -> string_of_int (int_of_n t)) tys)
  | Conn.ODeliver (u, m) -> Printf.sprintf "D%d.%d.%d" (int_of_nat u) (int_of_n m.Conn.m_ty) (int_of_n m.Conn.m_tag)
  | Conn.OStop b -> "STOP" ^ b01 b | Conn.OHelperClose -> "HC" | Conn.OSocketClose -> "SC" | Conn.OTransportClose -> "TC"
  | Conn.OTaskDone (t, r) -> Printf.sprintf "T%s=%s" (show_tid t) (show_tres r)
  | Conn.ORaise e -> "X" ^ show_exc e
let run_conn (noise : bool) (expect : bool) (ka : int) (scr : string) (labels : string list) : string =
  let c0 = Conn.init noise expect (z_of_int ka) (parse_scripts scr) in
  let buf = Stdlib.Buffer.create 256 in
  let rec go c ls k = match ls with
    | [] -> ()
    | w :: r ->
      (match Conn.step c (parse_label w) with
       | None -> Stdlib.Buffer.add_string buf (Printf.sprintf "|!disabled@%d:%s" k w)
       | Some (c1, o) ->
         Stdlib.Buffer.add_string buf (Printf.sprintf "|%s#%s" (show_proj c1) (Stdlib.String.concat "," (Stdlib.List.map show_obs o)));
         go c1 r (k + 1)) in
  go c0 labels 0; Stdlib.Buffer.contents buf

let run_client (noise : bool) (expect : bool) (ka : int) (scr : string) (labels : string list) : string =
  let k0 = Client.client_init noise expect (z_of_int ka) (parse_scripts scr) in
  let buf = Stdlib.Buffer.create 256 in
  let parse_cl w = match Stdlib.String.split_on_char ':' w with
    | ["cstart"] -> Client.CStart | ["cfinish"; l] -> Client.CFinish (l = "1") | ["cdisc"] -> Client.CDisconnect false
    | ["cforce"] -> Client.CDisconnect true | ["ccmd"] -> Client.CCommand [n_of_int 33] | "call" :: _ -> Client.CRequest
    | _ -> Client.CConn (parse_label w) in
  let show_cobs = function Client.CO o -> show_obs o | Client.CRaiseAlready -> "XALREADY"
    | Client.CRaiseNotConnected -> "XNC" | Client.CRaiseNotReady -> "XNR" in
  let rec go k ls i = match ls with
    | [] -> ()
    | w :: r ->
      (match Client.cstep k (parse_cl w) with
       | None -> Stdlib.Buffer.add_string buf (Printf.sprintf "|!disabled@%d:%s" i w)
       | Some (k1, o) ->
         Stdlib.Buffer.add_string buf (Printf.sprintf "|%s,cl=%s#%s" (show_proj k1.Client.cl_conn) (b01 k1.Client.cl_has)
                                         (Stdlib.String.concat "," (Stdlib.List.map show_cobs o)));
         go k1 r (i + 1)) in
  go k0 labels 0; Stdlib.Buffer.contents buf

(* ---- C14: values and conversion ---- *)
let ascii_of_char (c : char) : Ascii.ascii =
  let i = Stdlib.Char.code c in let b k = (i lsr k) land 1 = 1 in Ascii.Ascii (b 0, b 1, b 2, b 3, b 4, b 5, b 6, b 7)
let char_of_ascii (Ascii.Ascii (b0, b1, b2, b3, b4, b5, b6, b7)) : char =
  let v b k = if b then 1 lsl k else 0 in Stdlib.Char.chr (v b0 0 + v b1 1 + v b2 2 + v b3 3 + v b4 4 + v b5 5 + v b6 6 + v b7 7)
let coq_string_of (s : string) : String.string =
  let rec go i = if i >= Stdlib.String.length s then String.EmptyString else String.String (ascii_of_char (Stdlib.String.get s i), go (i + 1)) in go 0
let rec string_of_coq (l : String.string) : string =
  match l with String.EmptyString -> "" | String.String (c, r) -> Stdlib.String.make 1 (char_of_ascii c) ^ string_of_coq r
let rec parse_value (s : string) : Convert.value =
  let n = Stdlib.String.length s in
  let rest = Stdlib.String.sub s 1 (n - 1) in
  match Stdlib.String.get s 0 with
  | 'I' -> Convert.VInt (z_of_int (int_of_string rest))
  | 'B' -> Convert.VBool (rest = "1")
  | 'F' -> (match Stdlib.String.split_on_char ':' rest with
            | [sg; m; e] -> Convert.VFloat (sg = "1", z_of_string m, z_of_string e) | _ -> failwith "float")
  | 'X' -> Convert.VSpecialFloat (n_of_int (int_of_string rest))
  | 'S' -> Convert.VStr (bytes_of_hex rest)
  | 'N' -> Convert.VNone
  | 'L' -> let inner = Stdlib.String.sub rest 1 (Stdlib.String.length rest - 2) in
           Convert.VList (if inner = "" then [] else Stdlib.List.map parse_value (Stdlib.String.split_on_char '|' inner))
  | _ -> failwith ("value " ^ s)
let rec show_value = function
  | Convert.VInt z -> "I" ^ string_of_int (int_of_z z)
  | Convert.VBool b -> "B" ^ b01 b
  | Convert.VFloat (sg, m, e) -> Printf.sprintf "F%s:%s:%s" (b01 sg) (string_of_z m) (string_of_z e)
  | Convert.VSpecialFloat c -> "X" ^ string_of_int (int_of_n c)
  | Convert.VStr b -> "S" ^ (let h = hex_of_bytes b in if h = "-" then "" else h)
  | Convert.VNone -> "N"
  | Convert.VList l -> "L[" ^ Stdlib.String.concat "|" (Stdlib.List.map show_value l) ^ "]"
  | Convert.VRec _ -> "R"
let parse_kind (k : string) : Convert.ckind =
  match Stdlib.String.split_on_char '.' k with
  | ["n"] -> Convert.KNone | ["f"] -> Convert.KFloatFix | ["c"] -> Convert.KListCopy
  | ["e"; e] -> Convert.KEnum (coq_string_of e) | ["l"; e] -> Convert.KEnumList (coq_string_of e) | ["x"; c] -> Convert.KNestedList (coq_string_of c)
  | _ -> failwith ("kind " ^ k)
let run_frompb (enums : string) (fields : string) (record : string) : string =
  let table = if enums = "-" then [] else Stdlib.List.map (fun e -> match Stdlib.String.split_on_char '=' e with
      | [n; vs] -> (n, if vs = "" then [] else Stdlib.List.map (fun v -> z_of_int (int_of_string v)) (Stdlib.String.split_on_char ',' vs))
      | _ -> failwith "enum") (Stdlib.String.split_on_char ';' enums) in
  let members (e : String.string) = try Stdlib.List.assoc (string_of_coq e) table with Not_found -> [] in
  let fs = Stdlib.List.map (fun f -> match Stdlib.String.split_on_char ':' f with
      | [n; k] -> (coq_string_of n, parse_kind k) | _ -> failwith "field") (Stdlib.String.split_on_char ',' fields) in
  let w = if record = "-" then [] else Stdlib.List.map (fun f -> match Stdlib.String.index_opt f '=' with
      | Some i -> (coq_string_of (Stdlib.String.sub f 0 i), parse_value (Stdlib.String.sub f (i + 1) (Stdlib.String.length f - i - 1)))
      | None -> failwith "record") (Stdlib.String.split_on_char ';' record) in
  match Convert.from_pb members (fun sg m e -> FloatFix.fix_float sg m e) fs w with
  | None -> "NONE"
  | Some m -> Stdlib.String.concat ";" (Stdlib.List.map (fun (n, v) -> string_of_coq n ^ "=" ^ show_value v) m)

(* ---- C15: command IR ---- *)
let rec parse_cval (s : string) : CommandIR.cval =
  let n = Stdlib.String.length s in
  let rest = Stdlib.String.sub s 1 (n - 1) in
  match Stdlib.String.get s 0 with
  | 'B' -> CommandIR.VB (rest = "1")
  | 'I' -> CommandIR.VZ (z_of_string rest)
  | 'F' -> (match Stdlib.String.split_on_char ':' rest with
            | [sg; m; e] -> CommandIR.VF (sg = "1", z_of_string m, z_of_string e) | _ -> failwith "float")
  | 'S' -> CommandIR.VS (bytes_of_hex (if rest = "" then "-" else rest))
  | 'E' -> (match Stdlib.String.split_on_char '.' rest with [e; m] -> CommandIR.VE (coq_string_of e, coq_string_of m) | _ -> failwith "enum")
  | 'T' -> CommandIR.VT (Stdlib.List.map parse_cval (Stdlib.String.split_on_char '|' rest))
  | _ -> failwith ("cval " ^ s)
let rec show_cval = function
  | CommandIR.VB b -> "B" ^ b01 b
  | CommandIR.VZ z -> "I" ^ string_of_z z
  | CommandIR.VF (sg, m, e) -> Printf.sprintf "F%s:%s:%s" (b01 sg) (string_of_z m) (string_of_z e)
  | CommandIR.VS b -> "S" ^ (let h = hex_of_bytes b in if h = "-" then "" else h)
  | CommandIR.VE (e, m) -> "E" ^ string_of_coq e ^ "." ^ string_of_coq m
  | CommandIR.VT l -> "T" ^ Stdlib.String.concat "|" (Stdlib.List.map show_cval l)
let run_cmd (name : string) (major : string) (minor : string) (args : string list) : string =
  match Stdlib.List.find_opt (fun c -> string_of_coq c.CommandIR.c_name = name) GenCommands.commands with
  | None -> "?no-such-command"
  | Some c ->
    let tbl = Stdlib.List.map (fun a -> match Stdlib.String.index_opt a '=' with
        | Some i -> (Stdlib.String.sub a 0 i, parse_cval (Stdlib.String.sub a (i + 1) (Stdlib.String.length a - i - 1)))
        | None -> failwith "arg") args in
    let ev (p : String.string) = Stdlib.List.assoc_opt (string_of_coq p) tbl in
    let m = CommandIR.exec c ev (z_of_string major, z_of_string minor) in
    let parts = Stdlib.List.filter_map (fun f -> match CommandIR.get f m with
        | Some (Some v) -> Some (string_of_coq f ^ "=" ^ show_cval v)
        | Some None -> Some (string_of_coq f ^ "=NONE")
        | None -> None) c.CommandIR.c_fields in
    string_of_coq c.CommandIR.c_msg ^ " " ^ (if parts = [] then "-" else Stdlib.String.concat ";" parts)

(* ---- C20 ---- *)
let ids (s : string) = if s = "" then [] else Stdlib.List.map (fun x -> n_of_int (int_of_string x)) (Stdlib.String.split_on_char '.' s)
let run_resolve (hosts : string list) : string =
  let hs = Stdlib.List.map (fun w -> match Stdlib.String.split_on_char ',' w with
      | [name; lit; mdns; os] ->
        { Resolver.h_name = coq_string_of name;
          Resolver.h_literal = (if lit = "-" then None else Some (n_of_int (int_of_string lit)));
          Resolver.h_mdns = (if mdns = "E" then Resolver.MdnsErr else match Stdlib.String.split_on_char '/' mdns with
              | [a; b] -> Resolver.MdnsOk (ids a, ids b) | _ -> failwith "mdns");
          Resolver.h_os = (if os = "E" then Resolver.OsErr else Resolver.OsOk (ids os)) }
      | _ -> failwith ("host " ^ w)) hosts in
  let (res, calls) = Resolver.resolve hs in
  let cs = Stdlib.String.concat ";" (Stdlib.List.map (function Resolver.CallMdns n -> "M:" ^ string_of_coq n | Resolver.CallOs h -> "O:" ^ string_of_coq h) calls) in
  (match res with
   | Datatypes.Coq_inl l -> "OK " ^ Stdlib.String.concat "," (Stdlib.List.map (fun a -> string_of_int (int_of_n a)) l)
   | Datatypes.Coq_inr Resolver.ErrOs -> "ERR os" | Datatypes.Coq_inr Resolver.ErrMdns -> "ERR mdns" | Datatypes.Coq_inr Resolver.ErrNoResults -> "ERR none")
  ^ " calls=" ^ cs
let run_zc (ops : string list) : string =
  let os = Stdlib.List.map (function "set" -> Resolver.ZSetInstance | "get" -> Resolver.ZGet | "infoOK" -> Resolver.ZServiceInfo true
                                     | "infoERR" -> Resolver.ZServiceInfo false | "close" -> Resolver.ZClose
                                     | "getfail" -> Resolver.ZGetNoSockets | "infofail" -> Resolver.ZServiceInfoNoSockets | w -> failwith ("zop " ^ w)) ops in
  let (_, evs) = Resolver.zrun { Resolver.z_created = false; Resolver.z_inst = None } os in
  Stdlib.String.concat "," (Stdlib.List.map (function Resolver.ZCreated -> "created" | Resolver.ZClosed Resolver.App -> "closedApp"
                                                      | Resolver.ZClosed Resolver.Lib -> "closedLib" | Resolver.ZRaise -> "raise") evs)

(* ---- C18 ---- *)
let run_reconnect (labels : string list) : string =
  let parse w = match Stdlib.String.split_on_char ':' w with
    | ["start"] -> Reconnect.LStart | ["stop"] -> Reconnect.LStop | ["timer"] -> Reconnect.LTimer | ["record"] -> Reconnect.LRecord
    | ["startdone"; r] -> Reconnect.LStartDone (match r with "ok" -> Reconnect.OOk | "auth" -> Reconnect.OErrAuth | _ -> Reconnect.OErrOther)
    | ["finishdone"; r] -> Reconnect.LFinishDone (match r with "ok" -> Reconnect.OOk | "auth" -> Reconnect.OErrAuth | _ -> Reconnect.OErrOther)
    | ["end"; e] -> Reconnect.LSessionEnd (e = "1") | ["adv"; t] -> Reconnect.LAdv (z_of_string t)
    | _ -> failwith ("rlabel " ^ w) in
  let show = function
    | Reconnect.OAttempt -> "A" | Reconnect.OAttemptCancelled -> "AC" | Reconnect.OConnect -> "C"
    | Reconnect.ODisconnect e -> "D" ^ b01 e | Reconnect.OConnectError -> "E" | Reconnect.OStopped -> "S"
    | Reconnect.OListen b -> "L" ^ b01 b | Reconnect.OTimerSet d -> "T" ^ string_of_z d in
  let show_state s = (match s.Reconnect.r_state with Reconnect.RDisc -> "DISCONNECTED" | Reconnect.RConnecting -> "CONNECTING"
                                                    | Reconnect.RHandshaking -> "HANDSHAKING" | Reconnect.RReady -> "READY")
                     ^ "," ^ b01 s.Reconnect.r_stopped ^ b01 s.Reconnect.r_listening ^ "," ^ string_of_z s.Reconnect.r_tries in
  let buf = Stdlib.Buffer.create 256 in
  let rec go s ls i = match ls with
    | [] -> ()
    | w :: r -> (match Reconnect.rstep s (parse w) with
        | None -> Stdlib.Buffer.add_string buf (Printf.sprintf "|!disabled@%d:%s" i w)
        | Some (s1, o) -> Stdlib.Buffer.add_string buf ("|" ^ show_state s1 ^ "#" ^ Stdlib.String.concat "," (Stdlib.List.map show o)); go s1 r (i + 1)) in
  go Reconnect.rl_init labels 0; Stdlib.Buffer.contents buf

(* ---- C16 ---- *)
let ble_kinds = [ "rr", Ble.KReadResp; "wr", Ble.KWriteResp; "nr", Ble.KNotifyResp; "ge", Ble.KGattError;
                  "pr", Ble.KPairResp; "ur", Ble.KUnpairResp; "cc", Ble.KClearCacheResp; "nd", Ble.KNotifyData;
                  "sv", Ble.KServices; "sd", Ble.KServicesDone ]
let parse_bkind (w : string) : Ble.bkind = match w with
  | "cn1" -> Ble.KConnection true | "cn0" | "cn" -> Ble.KConnection false
  | _ -> (try Stdlib.List.assoc w ble_kinds with Not_found -> failwith ("bkind " ^ w))
let show_bkind = function Ble.KConnection _ -> "cn" | k -> rassoc k ble_kinds
let show_bmsg (m : Ble.bmsg) = Printf.sprintf "%s.%d.%d.%d" (match m.Ble.b_kind with Ble.KConnection c -> "cn" ^ b01 c | k -> show_bkind k)
    (int_of_n m.Ble.b_addr) (int_of_n m.Ble.b_handle) (int_of_n m.Ble.b_data)
let parse_rq = function "read" -> Ble.RqRead | "readdesc" -> Ble.RqReadDesc | "write" -> Ble.RqWrite | "writedesc" -> Ble.RqWriteDesc
                      | w -> failwith ("rq " ^ w)
let show_rq = function Ble.RqRead -> "read" | Ble.RqReadDesc -> "readdesc" | Ble.RqWrite -> "write" | Ble.RqWriteDesc -> "writedesc"
                     | Ble.RqNotify e -> "notify" ^ b01 e | Ble.RqDevice t -> "dev" ^ string_of_z t | Ble.RqServices -> "services"
let run_ble (evs : string list) : string =
  let ni x = n_of_int (int_of_string x) and zi x = z_of_int (int_of_string x) in
  let parse w = match Stdlib.String.split_on_char ':' w with
    | ["m"; k; a; h; d] -> Ble.EMsg { Ble.b_kind = parse_bkind k; Ble.b_addr = ni a; Ble.b_handle = ni h; Ble.b_data = ni d }
    | ["t"; t] -> Ble.ETime (zi t)
    | ["e"] -> Ble.ETurnEnd
    | ["c"; i] -> Ble.ECancel (nat_of_int (int_of_string i))
    | ["u"; i] -> Ble.EUnsub (nat_of_int (int_of_string i))
    | ["s"; i] -> Ble.EStopNotify (nat_of_int (int_of_string i))
    | "o" :: i :: spec -> Ble.EStart (nat_of_int (int_of_string i), (match spec with
        | ["h"; rq; resp; a; h; t] -> Ble.OpHandle (parse_rq rq, parse_bkind resp, ni a, ni h, zi t)
        | ["w"; rq; a; h] -> Ble.OpWriteNoResponse (parse_rq rq, ni a, ni h)
        | ["d"; rt; resp; a; t] -> Ble.OpDevice (zi rt, parse_bkind resp, ni a, zi t)
        | ["x"; a; t] -> Ble.OpDisconnect (ni a, zi t)
        | ["v"; a] -> Ble.OpServices (ni a)
        | ["n"; a; h; t] -> Ble.OpNotify (ni a, ni h, zi t)
        | ["k"; a; hc; ff; t; dt] -> Ble.OpConnect (ni a, hc = "1", ni ff, zi t, zi dt)
        | _ -> failwith ("opspec " ^ w)))
    | _ -> failwith ("bevent " ^ w) in
  let show_outcome = function
    | Ble.OResult m -> "result/" ^ show_bmsg m | Ble.OGattError m -> "gatterror/" ^ show_bmsg m
    | Ble.OConnectionDropped m -> "dropped/" ^ show_bmsg m | Ble.OPending -> "pending" in
  let show_result = function
    | Ble.RMsg o -> show_outcome o
    | Ble.RServices l -> "services/" ^ Stdlib.String.concat "." (Stdlib.List.map (fun x -> string_of_int (int_of_n x)) l)
    | Ble.RSent -> "sent" | Ble.RReturned -> "returned" | Ble.RTimeout -> "timeout"
    | Ble.RConnectTimeout b -> "connecttimeout/" ^ b01 b | Ble.RCancelled -> "cancelled" in
  let show_obs (i, o) = string_of_int (int_of_nat i) ^ "=" ^ (match o with
    | Ble.BWrite (rq, a, h) -> Printf.sprintf "W/%s.%d.%d" (show_rq rq) (int_of_n a) (int_of_n h)
    | Ble.BDone r -> "D/" ^ show_result r
    | Ble.BNotifyCb (h, d) -> Printf.sprintf "N/%d.%d" (int_of_n h) (int_of_n d)
    | Ble.BStateCb m -> "S/" ^ show_bmsg m
    | Ble.BUnsubscribed -> "U") in
  let show_subs s =
    let all = Stdlib.List.concat_map (fun (_, ks) -> Stdlib.List.map show_bkind ks) (Ble.all_subscriptions s) in
    let names = Stdlib.List.sort_uniq compare all in
    Stdlib.String.concat "," (Stdlib.List.map (fun n -> n ^ "=" ^ string_of_int (Stdlib.List.length (Stdlib.List.filter ((=) n) all))) names) in
  let buf = Stdlib.Buffer.create 256 in
  let rec go s = function
    | [] -> ()
    | w :: r -> let (s1, o) = Ble.bstep s (parse w) in
      Stdlib.Buffer.add_string buf ("|" ^ Stdlib.String.concat "," (Stdlib.List.map show_obs o) ^ "#" ^ show_subs s1); go s1 r in
  go Ble.bs_init evs; Stdlib.Buffer.contents buf

(* ---- C17 ---- *)
let run_subs (evs : string list) : string =
  let ni x = n_of_int (int_of_string x) and nati x = nat_of_int (int_of_string x) in
  let parse_kind = function
    | "st" -> Subs.SubStates | "lg" -> Subs.SubLogs | "sc" -> Subs.SubServiceCalls | "ha0" -> Subs.SubHaStates false
    | "ha1" -> Subs.SubHaStates true | "adv" -> Subs.SubAdv | "raw" -> Subs.SubRawAdv | "cf" -> Subs.SubConnFree
    | "va00" -> Subs.SubVa (false, false) | "va01" -> Subs.SubVa (false, true) | "va10" -> Subs.SubVa (true, false)
    | "va11" -> Subs.SubVa (true, true) | w -> failwith ("subkind " ^ w) in
  let show_kind = function
    | Subs.SubStates -> "st" | Subs.SubLogs -> "lg" | Subs.SubServiceCalls -> "sc" | Subs.SubHaStates b -> "ha" ^ b01 b
    | Subs.SubAdv -> "adv" | Subs.SubRawAdv -> "raw" | Subs.SubConnFree -> "cf" | Subs.SubVa (a, n) -> "va" ^ b01 a ^ b01 n in
  let parse w = match Stdlib.String.split_on_char ':' w with
    | ["S"; i; k] -> Subs.SSubscribe (nati i, parse_kind k)
    | ["U"; i] -> Subs.SUnsub (nati i)
    | ["D"; i; t; r] -> Subs.SStartDone (nati i, nati t, (if r = "n" then Subs.HNone else if r = "x" then Subs.HRaise
                                                         else Subs.HPort (ni (Stdlib.String.sub r 1 (Stdlib.String.length r - 1)))))
    | "M" :: m -> Subs.SMsg (match m with
        | ["st"; ty; k; v] -> Subs.MState (ni ty, ni k, ni v)
        | ["cam"; k; d; dn] -> Subs.MCamera (ni k, bytes_of_hex (if d = "-" then "" else d), dn = "1")
        | ["lg"; p] -> Subs.MLog (ni p) | ["sc"; p] -> Subs.MServiceCall (ni p)
        | ["ha"; e; a; o] -> Subs.MHaState (ni e, ni a, o = "1")
        | ["adv"; p] -> Subs.MAdv (ni p) | ["raw"; p] -> Subs.MRawAdv (ni p)
        | ["cf"; f; l] -> Subs.MConnFree (ni f, ni l)
        | ["var"; st; c; f; wk] -> Subs.MVaRequest (st = "1", ni c, ni f, ni wk)
        | ["vaa"; d; l] -> Subs.MVaAudio (ni d, l = "1")
        | ["van"; p] -> Subs.MVaAnnounce (ni p)
        | ["ot"; t] -> Subs.MOther (ni t)
        | _ -> failwith ("smsg " ^ w))
    | _ -> failwith ("sevent " ^ w) in
  let i n = string_of_int (int_of_n n) in
  let show_obs (id, o) = string_of_int (int_of_nat id) ^ "=" ^ (match o with
    | Subs.CbState (t, k, v) -> "st." ^ i t ^ "." ^ i k ^ "." ^ i v
    | Subs.CbCamera (k, d) -> "cam." ^ i k ^ "." ^ hex_of_bytes d
    | Subs.CbLog p -> "lg." ^ i p | Subs.CbServiceCall p -> "sc." ^ i p
    | Subs.CbHaSub (e, a) -> "has." ^ i e ^ "." ^ i a | Subs.CbHaRequest (e, a) -> "har." ^ i e ^ "." ^ i a
    | Subs.CbAdv p -> "adv." ^ i p | Subs.CbRawAdv p -> "raw." ^ i p | Subs.CbConnFree (f, l) -> "cf." ^ i f ^ "." ^ i l
    | Subs.CbVaStart (t, c, f, wk) -> "vastart." ^ string_of_int (int_of_nat t) ^ "." ^ i c ^ "." ^ i f ^ "." ^ (match wk with None -> "none" | Some x -> i x)
    | Subs.CbVaStop a -> "vastop." ^ b01 a | Subs.CbVaAudio d -> "vaaudio." ^ i d | Subs.CbVaAnnounce p -> "vaann." ^ i p
    | Subs.OWrite (Subs.WSubscribe k) -> "W.sub." ^ show_kind k
    | Subs.OWrite Subs.WUnsubAdv -> "W.unsubadv" | Subs.OWrite Subs.WVaUnsub -> "W.vaunsub"
    | Subs.OWrite (Subs.WVaResponse None) -> "W.varesp.err" | Subs.OWrite (Subs.WVaResponse (Some p)) -> "W.varesp." ^ i p
    | Subs.OCancelStart t -> "cancel." ^ string_of_int (int_of_nat t)) in
  let buf = Stdlib.Buffer.create 256 in
  let rec go s = function
    | [] -> ()
    | w :: r -> let (s1, o) = Subs.sstep s (parse w) in
      Stdlib.Buffer.add_string buf ("|" ^ Stdlib.String.concat "," (Stdlib.List.map show_obs o)); go s1 r in
  go [] evs; Stdlib.Buffer.contents buf

let handle (line : string) : string =
  match words line with
  | "venc" :: v :: [] -> hex_of_bytes (Varint.enc (n_of_hex v))
  | "vdec" :: b :: [] ->
    (match Varint.read_varuint (bytes_of_hex b) with
     | None -> "none" | Some (v, r) -> Printf.sprintf "%s %s" (hex_of_n v) (hex_of_bytes r))
  | "plain_write" :: pkts ->
    let ps = Stdlib.List.map (fun w -> match Stdlib.String.split_on_char ':' w with
        | [t; p] -> (n_of_hex t, bytes_of_hex p) | _ -> failwith "pkt") pkts in
    hex_of_bytes (PlainFrame.write_packets ps)
  | "plain_run" :: chunks ->
    let cs = Stdlib.List.map bytes_of_hex chunks in
    let ((evs, buf), st) = PlainFrame.run [] cs in
    Printf.sprintf "%s buf=%s status=%s"
      (Stdlib.String.concat "|" (Stdlib.List.map (fun l -> Stdlib.String.concat "," (Stdlib.List.map show_pevent l)) evs))
      (hex_of_bytes buf) (show_status st)
  | "noise" :: en :: ops ->
    let expected = if en = "none" then None else Some (bytes_of_hex en) in
    let (evs, xf) = NoiseFrame.run (sym_encrypt dir_c2s) (sym_decrypt dir_s2c) hs_init_sym hs_read_sym utf8_ok expected
        NoiseFrame.sess_init (Stdlib.List.map parse_op ops) in
    let s = xf.NoiseFrame.ss in
    Printf.sprintf "%s state=%s buf=%s nonces=%s,%s"
      (Stdlib.String.concat "|" (Stdlib.List.map (fun l -> Stdlib.String.concat "," (Stdlib.List.map show_nevent l)) evs))
      (show_nstate s.NoiseFrame.s_state) (text_of_sym s.NoiseFrame.s_buffer)
      (hex_of_n s.NoiseFrame.s_dec_nonce) (hex_of_n s.NoiseFrame.s_enc_nonce)
  | "conn" :: nz :: ex :: ka :: scr :: labels -> run_conn (nz = "1") (ex = "1") (int_of_string ka) scr labels
  | "spec_plain" :: b :: [] ->
    let bs = bytes_of_hex b in
    (match WireSpec.spec_decode_plain (nat_of_int (Stdlib.List.length bs + 1)) bs with
     | None -> "none"
     | Some l -> if l = [] then "-" else Stdlib.String.concat "," (Stdlib.List.map (fun (t, p) -> hex_of_n t ^ ":" ^ hex_of_bytes p) l))
  | "client" :: nz :: ex :: ka :: scr :: labels -> run_client (nz = "1") (ex = "1") (int_of_string ka) scr labels
  | "reconnect" :: labels -> run_reconnect labels
  | "ble" :: evs -> run_ble evs
  | "subs" :: evs -> run_subs evs
  | ["backoff"; n] -> string_of_z (Reconnect.backoff_seconds (z_of_string n))
  | "resolve" :: hosts -> run_resolve hosts
  | "zc" :: ops -> run_zc ops
  | "cmd" :: name :: major :: minor :: args -> run_cmd name major minor args
  | ["fixf"; sg; m; e] ->
    let ((s1, m1), e1) = FloatFix.fix_float (sg = "1") (z_of_string m) (z_of_string e) in
    Printf.sprintf "%s %s %s" (b01 s1) (string_of_z m1) (string_of_z e1)
  | ["frompb"; enums; fields; record] -> run_frompb enums fields record
  | "ka" :: h :: horizon :: arrs ->
    let hz = z_of_int (int_of_string h) in
    let obs = Keepalive.ka_sim (nat_of_int (4 * Stdlib.List.length arrs + 4000)) hz (Keepalive.ka_init hz)
        (Stdlib.List.map (fun a -> z_of_int (int_of_string a)) arrs) (z_of_int (int_of_string horizon)) in
    Stdlib.String.concat "," (Stdlib.List.map (function Keepalive.KPingSent t -> "P" ^ string_of_int (int_of_z t)
                                                         | Keepalive.KDead t -> "X" ^ string_of_int (int_of_z t)) obs)
  | _ -> "?unknown-command"

let () =
  try
    while true do
      let line = input_line stdin in
      print_endline (try handle line with e -> "!exception " ^ Printexc.to_string e)
    done
  with End_of_file -> ()
