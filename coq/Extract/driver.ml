(* Hand-written driver: reads one case per line on stdin, prints one result line per case.
   Numbers are hexadecimal (unbounded), byte strings are hex ("-" = empty). *)
open Datatypes
open BinNums

let rec pos_of_int (i : int) : positive =
  if i = 1 then Coq_xH else if i land 1 = 0 then Coq_xO (pos_of_int (i lsr 1)) else Coq_xI (pos_of_int (i lsr 1))
let n_of_int (i : int) : coq_N = if i = 0 then N0 else Npos (pos_of_int i)
let rec int_of_pos = function Coq_xH -> 1 | Coq_xO p -> 2 * int_of_pos p | Coq_xI p -> 2 * int_of_pos p + 1
let int_of_n = function N0 -> 0 | Npos p -> int_of_pos p
let rec nat_of_int i = if i <= 0 then O else S (nat_of_int (i - 1))
let rec int_of_nat = function O -> 0 | S n -> 1 + int_of_nat n

(* unbounded hex <-> N *)
let hexdigit c = match c with
  | '0'..'9' -> Stdlib.Char.code c - 48 | 'a'..'f' -> Stdlib.Char.code c - 87 | 'A'..'F' -> Stdlib.Char.code c - 55
  | _ -> failwith "hexdigit"
let n_of_hex (s : string) : coq_N =
  let bits = ref [] in  (* most significant first *)
  Stdlib.String.iter (fun c -> let d = hexdigit c in
    bits := (d land 1 = 1) :: (d land 2 = 2) :: (d land 4 = 4) :: (d land 8 = 8) :: !bits) s;
  (* !bits is least-significant first *)
  let rec build = function
    | [] -> None
    | b :: r -> (match build r with
        | None -> if b then Some Coq_xH else None
        | Some p -> Some (if b then Coq_xI p else Coq_xO p)) in
  match build !bits with None -> N0 | Some p -> Npos p
let hex_of_n (v : coq_N) : string =
  match v with N0 -> "0" | Npos p ->
    let rec bits p = match p with Coq_xH -> [true] | Coq_xO q -> false :: bits q | Coq_xI q -> true :: bits q in
    let bs = Stdlib.Array.of_list (bits p) in
    let nb = Stdlib.Array.length bs in
    let nd = (nb + 3) / 4 in
    let buf = Stdlib.Buffer.create nd in
    for d = nd - 1 downto 0 do
      let v = ref 0 in
      for k = 3 downto 0 do
        let i = d * 4 + k in
        v := !v * 2 + (if i < nb && bs.(i) then 1 else 0)
      done;
      Stdlib.Buffer.add_char buf "0123456789abcdef".[!v]
    done; Stdlib.Buffer.contents buf
let z_of_string (s : string) : coq_Z =
  if Stdlib.String.length s > 0 && s.[0] = '-' then
    (match n_of_hex (Stdlib.String.sub s 1 (Stdlib.String.length s - 1)) with N0 -> Z0 | Npos p -> Zneg p)
  else (match n_of_hex s with N0 -> Z0 | Npos p -> Zpos p)
let string_of_z = function Z0 -> "0" | Zpos p -> hex_of_n (Npos p) | Zneg p -> "-" ^ hex_of_n (Npos p)

let bytes_of_hex (s : string) : coq_N list =
  if s = "-" then [] else
  let l = Stdlib.String.length s / 2 in
  Stdlib.List.init l (fun i -> n_of_int (hexdigit s.[2*i] * 16 + hexdigit s.[2*i+1]))
let hex_of_bytes (b : coq_N list) : string =
  if b = [] then "-" else
  Stdlib.String.concat "" (Stdlib.List.map (fun x -> let i = int_of_n x in
    if i > 255 then Printf.sprintf "<%s>" (hex_of_n x) else Printf.sprintf "%02x" i) b)

let split_on c s = if s = "" then [] else Stdlib.String.split_on_char c s
let words s = Stdlib.List.filter (fun w -> w <> "") (Stdlib.String.split_on_char ' ' s)

(* ---- plaintext ---- *)
let show_pevent = function
  | PlainFrame.Deliver (ty, pl) -> Printf.sprintf "D:%s:%s" (hex_of_n ty) (hex_of_bytes pl)
  | PlainFrame.ErrRequiresEncryption -> "E:requires_encryption"
  | PlainFrame.ErrBadPreamble None -> "E:bad_preamble:-1"
  | PlainFrame.ErrBadPreamble (Some v) -> Printf.sprintf "E:bad_preamble:%s" (hex_of_n v)
let show_status = function PlainFrame.Ok -> "ok" | PlainFrame.Errored -> "error" | PlainFrame.OutOfFuel -> "OUT_OF_FUEL"

let handle (line : string) : string =
  match words line with
  | "venc" :: v :: [] -> hex_of_bytes (Varint.enc (n_of_hex v))
  | "vdec" :: b :: [] ->
    (match Varint.read_varuint (bytes_of_hex b) with
     | None -> "none" | Some (v, r) -> Printf.sprintf "%s %s" (hex_of_n v) (hex_of_bytes r))
  | "plain_write" :: pkts ->
    let ps = Stdlib.List.map (fun w -> match Stdlib.String.split_on_char ':' w with
        | [t; p] -> (n_of_hex t, bytes_of_hex p) | _ -> failwith "pkt") pkts in
    hex_of_bytes (PlainFrame.write_packets ps)
  | "plain_run" :: chunks ->
    let cs = Stdlib.List.map bytes_of_hex chunks in
    let ((evs, buf), st) = PlainFrame.run [] cs in
    Printf.sprintf "%s buf=%s status=%s"
      (Stdlib.String.concat "|" (Stdlib.List.map (fun l -> Stdlib.String.concat "," (Stdlib.List.map show_pevent l)) evs))
      (hex_of_bytes buf) (show_status st)
  | _ -> "?unknown-command"

let () =
  try
    while true do
      let line = input_line stdin in
      print_endline (try handle line with e -> "!exception " ^ Printexc.to_string e)
    done
  with End_of_file -> ()
