(* Varint codec: mirrors aioesphomeapi/_frame_helper/plain_text.py:_varuint_to_bytes
   and aioesphomeapi/_frame_helper/base.py:_read_varuint (pure-Python build, unbounded int). *)
From Coq Require Import NArith List.
Import ListNotations.
Open Scope N_scope.

(* _varuint_to_bytes: value <= 0x7F -> single byte; otherwise 7-bit groups, low first,
   continuation bit on all but the last.  Fuel = number of bits, always sufficient. *)
Fixpoint enc_fuel (fuel : nat) (v : N) : list N :=
  match fuel with
  | O => [v]
  | S f => if v <=? 127 then [v]
           else (N.lor (N.land v 127) 128) :: enc_fuel f (N.shiftr v 7)
  end.
Definition enc (v : N) : list N := enc_fuel (N.to_nat (N.size v)) v.

(* _read_varuint: accumulate (b & 0x7F) << bitpos until a byte without 0x80;
   None models the -1 returned when the buffer runs out. *)
Fixpoint dec (bs : list N) (acc bitpos : N) : option (N * list N) :=
  match bs with
  | [] => None
  | b :: r => let acc' := N.lor acc (N.shiftl (N.land b 127) bitpos) in
              if N.land b 128 =? 0 then Some (acc', r) else dec r acc' (bitpos + 7)
  end.
Definition read_varuint (bs : list N) : option (N * list N) := dec bs 0 0.
