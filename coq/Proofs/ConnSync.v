(* Every synchronous function of Model/Conn.v acts on the core by a sequence of atomic moves. *)
From Coq Require Import NArith ZArith List Bool Lia Relations.
From RecordUpdate Require Import RecordSet.
From Verif Require Import Model.Conn Proofs.ConnCore.
Import ListNotations RecordSetNotations.
Open Scope Z_scope.
Open Scope list_scope.

Ltac dm :=
  match goal with
  | |- context [match ?x with _ => _ end] =>
    lazymatch x with
    | context [match _ with _ => _ end] => fail
    | _ => destruct x eqn:?
    end
  end.

(* ---- functions that leave the core untouched ---- *)
Lemma core_set_start_future c : core_of (set_start_future c) = core_of c.
Proof. unfold set_start_future. destruct (start_fut c); reflexivity. Qed.
Lemma core_set_finish_future c : core_of (set_finish_future c) = core_of c.
Proof. unfold set_finish_future. destruct (finish_fut c); reflexivity. Qed.

Lemma core_helper_close c : core_of (fst (helper_close c)) = core_of c.
Proof. unfold helper_close. repeat dm; reflexivity. Qed.

Lemma core_upd_call c cid f : core_of (upd_call c cid f) = core_of c.
Proof. reflexivity. Qed.

Lemma core_handle_call_message c cid m : core_of (handle_call_message c cid m) = core_of c.
Proof. unfold handle_call_message. repeat dm; reflexivity. Qed.

Lemma core_add_handler c ty h : core_of (add_handler c ty h) = core_of c.
Proof. unfold add_handler. dm; reflexivity. Qed.
Lemma core_remove_handler c ty h : core_of (remove_handler c ty h) = core_of c.
Proof. reflexivity. Qed.
Lemma core_run_action c a : core_of (run_action c a) = core_of c.
Proof. destruct a; cbn [run_action]; [apply core_add_handler|apply core_remove_handler]. Qed.
Lemma core_fold_actions l : forall c, core_of (fold_left run_action l c) = core_of c.
Proof. induction l as [|a l IH]; intro c; cbn [fold_left]; [reflexivity|]. rewrite IH. apply core_run_action. Qed.
Lemma core_fold_add l h : forall c, core_of (fold_left (fun a ty => add_handler a ty h) l c) = core_of c.
Proof. induction l as [|a l IH]; intro c; cbn [fold_left]; [reflexivity|]. rewrite IH. apply core_add_handler. Qed.
Lemma core_fold_remove l h : forall c, core_of (fold_left (fun a ty => remove_handler a ty h) l c) = core_of c.
Proof. induction l as [|a l IH]; intro c; cbn [fold_left]; [reflexivity|]. rewrite IH. apply core_remove_handler. Qed.

Lemma pc_set_task_same c t k :
  pc k = pc (get_task c t) -> core_of (set_task c t k) = core_of c.
Proof.
  destruct t; cbn [set_task get_task]; intro E; unfold core_of; cbn; try rewrite E; reflexivity.
Qed.

(* ---- release / cleanup as equations on the core ---- *)
Lemma core_release c : core_of (fst (release_resources c)) = releaseK (core_of c).
Proof.
  unfold release_resources.
  destruct (helper c) eqn:Eh.
  - destruct (socket c) eqn:Es; cbn; unfold releaseK, core_of; cbn; rewrite ?Eh, ?Es; reflexivity.
  - pose proof (core_helper_close c) as Hc. destruct (helper_close c) as [c' o]. cbn [fst] in Hc.
    assert (Hs : socket c' = socket c) by (apply (f_equal k_socket) in Hc; exact Hc).
    cbn. rewrite Hs. destruct (socket c) eqn:Es; cbn;
      unfold releaseK; rewrite <- Hc; unfold core_of; cbn; rewrite ?Hs, ?Es; reflexivity.
  - pose proof (core_helper_close c) as Hc. destruct (helper_close c) as [c' o]. cbn [fst] in Hc.
    assert (Hs : socket c' = socket c) by (apply (f_equal k_socket) in Hc; exact Hc).
    cbn. rewrite Hs. destruct (socket c) eqn:Es; cbn;
      unfold releaseK; rewrite <- Hc; unfold core_of; cbn; rewrite ?Hs, ?Es; reflexivity.
Qed.

Definition fireK (k : core) : core :=
  mkCore (k_cs k) (k_conn k) (k_hs k) false (k_stops k ++ [k_expected k]) (k_ever k) (k_ping k) (k_pong k)
         (k_waiters k) (k_socket k) (k_helper k) (k_ps k) (k_pf k) (k_pd k) (k_expected k).

Lemma core_cleanup c : core_of (fst (cleanup c)) = closeK (core_of c).
Proof.
  unfold cleanup.
  destruct (cs c) eqn:Ec.
  5: { rewrite core_release. unfold closeK. cbn [core_of k_cs]. rewrite Ec. reflexivity. }
  all: match goal with |- context [release_resources ?x] =>
         pose proof (core_release x) as Hr; destruct (release_resources x) as [c4 o] end;
       cbn [fst] in Hr; rewrite core_set_finish_future, core_set_start_future in Hr;
       assert (Ha : on_stop_armed c4 = on_stop_armed c) by (apply (f_equal k_armed) in Hr; exact Hr);
       rewrite Ha; destruct (on_stop_armed c && is_connected c) eqn:Ef; cbn [fst];
       [ change (core_of (c4 <| on_stop_armed := false |> <| stop_calls := stop_calls c4 ++ [expected_disconnect c4] |>))
           with (fireK (core_of c4))
       | ];
       rewrite Hr; unfold closeK, releaseK, fireK, set_state, core_of; cbn; rewrite Ec, Ef; reflexivity.
Qed.

Lemma R_cleanup c : R (core_of c) (core_of (fst (cleanup c))).
Proof. rewrite core_cleanup. apply R_mv, MvClose. Qed.

Lemma R_report_fatal c e : R (core_of c) (core_of (fst (report_fatal c e))).
Proof.
  unfold report_fatal. destruct (fatal c); [apply R_cleanup|].
  change (core_of c) with (core_of (c <| fatal := Some e |>)) at 1. apply R_cleanup.
Qed.

(* send_messages *)
Lemma send_messages_spec c tys :
  let '(c1, o, ex) := send_messages c tys in
  R (core_of c) (core_of c1) /\ (ex = None -> c1 = c /\ handshake_complete c = true).
Proof.
  unfold send_messages. destruct (handshake_complete c) eqn:Eh; cbn [negb].
  - destruct (write_fails c).
    + pose proof (R_report_fatal c (Lib LSocketClosed)) as H.
      destruct (report_fatal c (Lib LSocketClosed)) as [c1 o]. cbn [fst] in H. split; [exact H|discriminate].
    + destruct (transport c); (split; [apply R_refl|auto]).
  - split; [apply R_refl|discriminate].
Qed.

Lemma R_send_messages c tys : R (core_of c) (core_of (fst (fst (send_messages c tys)))).
Proof.
  pose proof (send_messages_spec c tys) as H. destruct (send_messages c tys) as [[c1 o] ex]. cbn. tauto.
Qed.

(* handlers *)
Lemma R_call_handler c h m : R (core_of c) (core_of (fst (fst (call_handler c h m)))).
Proof.
  destruct h; cbn [call_handler].
  - pose proof (R_send_messages (c <| expected_disconnect := true |>) [T_DISC_RESP]) as H.
    destruct (send_messages (c <| expected_disconnect := true |>) [T_DISC_RESP]) as [[c2 o] ex]. cbn [fst] in H.
    assert (H0 : R (core_of c) (core_of (c <| expected_disconnect := true |>))) by (apply R_mv; apply (MvExpected (core_of c))).
    destruct ex; cbn [fst].
    + eapply R_trans; eassumption.
    + pose proof (R_cleanup c2) as H2. destruct (cleanup c2) as [c3 o3]. cbn [fst] in *.
      eapply R_trans; [eassumption|]. eapply R_trans; eassumption.
  - apply R_send_messages.
  - apply R_send_messages.
  - cbn [fst]. rewrite core_handle_call_message. apply R_refl.
  - cbn [fst]. rewrite core_fold_actions. apply R_refl.
Qed.

Lemma R_run_handlers hs m : forall c, R (core_of c) (core_of (fst (fst (run_handlers c hs m)))).
Proof.
  induction hs as [|h hs IH]; intro c; cbn [run_handlers fst]; [apply R_refl|].
  pose proof (R_call_handler c h m) as H1. destruct (call_handler c h m) as [[c1 o1] ex]. cbn [fst] in H1.
  destruct ex; cbn [fst]; [exact H1|].
  specialize (IH c1). destruct (run_handlers c1 hs m) as [[c2 o2] ex2]. cbn [fst] in *.
  eapply R_trans; eassumption.
Qed.

Lemma R_process_packet c m : R (core_of c) (core_of (fst (fst (process_packet c m)))).
Proof.
  unfold process_packet. destruct (cs c); try (cbn [fst]; apply R_refl).
  all: destruct (registered (m_ty m)); cbn [negb fst]; [|apply R_refl];
       (destruct (m_valid m); cbn [negb];
        [ match goal with |- context [run_handlers ?x ?hs ?mm] =>
            pose proof (R_run_handlers hs mm x) as H; destruct (run_handlers x hs mm) as [[c2 o2] ex2] end;
          cbn [fst] in *; eapply R_trans; [|exact H]; apply R_mv; apply (MvClearPong (core_of c))
        | pose proof (R_report_fatal c (Lib LProtocol)) as H; destruct (report_fatal c (Lib LProtocol)) as [c1 o];
          cbn [fst] in *; exact H ]).
Qed.

Lemma R_helper_error c e : R (core_of c) (core_of (fst (helper_error c e))).
Proof.
  unfold helper_error. destruct (ready c); try apply R_report_fatal.
  change (core_of c) with (core_of (c <| ready := RExc e |>)) at 1. apply R_report_fatal.
Qed.

Lemma R_data_loop items : forall c, R (core_of c) (core_of (fst (fst (data_loop c items)))).
Proof.
  induction items as [|i items IH]; intro c; cbn [data_loop fst]; [apply R_refl|].
  destruct i as [m|req].
  - pose proof (R_process_packet c m) as H1. destruct (process_packet c m) as [[c1 o1] ex]. cbn [fst] in H1.
    destruct ex; cbn [fst]; [exact H1|].
    specialize (IH c1). destruct (data_loop c1 items) as [[c2 o2] ex2]. cbn [fst] in *.
    eapply R_trans; eassumption.
  - match goal with |- context [helper_error c ?e] =>
      pose proof (R_helper_error c e) as H; destruct (helper_error c e) as [c1 o1] end.
    cbn [fst] in *. exact H.
Qed.

(* cancellation never touches the core *)
Lemma core_cancel_awaited c t k : core_of (fst (cancel_awaited c t k)) = core_of c.
Proof.
  unfold cancel_awaited, cancel_efut. repeat dm; try reflexivity.
Qed.

Lemma core_cancel_task c t : core_of (cancel_task c t) = core_of c.
Proof.
  unfold cancel_task. destruct (task_running (get_task c t)); cbn [negb]; [|reflexivity].
  match goal with |- context [cancel_awaited c t ?k] =>
    pose proof (core_cancel_awaited c t k) as H; destruct (cancel_awaited c t k) as [c1 d] eqn:E end.
  cbn [fst] in H.
  assert (Hg : forall t', pc (get_task c1 t') = pc (get_task c t')).
  { intro t'. unfold cancel_awaited, cancel_efut in E. revert E. repeat dm; intro E; injection E as <- _; try reflexivity;
      destruct t'; reflexivity. }
  destruct d; rewrite pc_set_task_same; try exact H; rewrite Hg; cbn; reflexivity.
Qed.

(* request/response registration *)
Lemma R_call_begin c owner send types ap st tmo :
  R (core_of c) (core_of (fst (fst (fst (call_begin c owner send types ap st tmo))))).
Proof.
  unfold call_begin. pose proof (send_messages_spec c send) as H.
  destruct (send_messages c send) as [[c1 o] ex]. destruct H as [H1 H2].
  destruct ex; cbn [fst]; [exact H1|].
  destruct (H2 eq_refl) as [-> Hhs]. rewrite core_fold_add.
  apply R_mv. apply (MvAddWaiter (core_of c) (next_cid c)). exact Hhs.
Qed.

Lemma R_call_finally c cid : R (core_of c) (core_of (call_finally c cid)).
Proof.
  unfold call_finally. destruct (get_call c cid); [|apply R_refl].
  match goal with |- context [fold_left ?f ?l ?x] => set (c2 := fold_left f l x) end.
  assert (H : core_of c2 = core_of c) by (unfold c2; rewrite core_fold_remove; reflexivity).
  eapply R_trans; [apply R_eq; symmetry; exact H|].
  apply R_mv. apply (MvFilterWaiters (core_of c2)).
Qed.
